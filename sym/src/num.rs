//! Term-building numeric types implementing palette's public numeric traits.
//!   SymS: `Mask = bool`   comparisons are decided by a script and recorded as the path condition
//!                          (this is the instantiation f32/f64 users get: scalar branches, early returns)
//!   SymV: `Mask = SymMask` comparisons build Boolean terms, select builds `ite` (what the SIMD
//!                          instantiation computes lane-wise)
//! Primitive semantics mirror the one-line `impl_float!` wrappers of palette/src/num.rs over the reals.
use crate::term::*;
use core::ops::*;
use palette::angle::{AngleEq, FullRotation, HalfRotation, RealAngle, SignedAngle, UnsignedAngle};
use palette::bool_mask::{BoolMask, HasBoolMask, LazySelect, Select};
use palette::num::*;

#[derive(Clone, Copy, Debug)]
pub struct SymS(pub Id);
#[derive(Clone, Copy, Debug)]
pub struct SymV(pub Id);
#[derive(Clone, Copy, Debug, PartialEq, Eq)]
pub struct SymMask(pub Id);

pub fn b_not(a: Id) -> Id {
    match node(a) { Node::True => mk(Node::False), Node::False => mk(Node::True), Node::Not(x) => x, _ => mk(Node::Not(a)) }
}
pub fn b_and(a: Id, b: Id) -> Id {
    match (node(a), node(b)) {
        (Node::True, _) => b, (_, Node::True) => a,
        (Node::False, _) | (_, Node::False) => mk(Node::False),
        _ => if a == b { a } else { mk(Node::And(a, b)) },
    }
}
pub fn b_or(a: Id, b: Id) -> Id {
    match (node(a), node(b)) {
        (Node::False, _) => b, (_, Node::False) => a,
        (Node::True, _) | (_, Node::True) => mk(Node::True),
        _ => if a == b { a } else { mk(Node::Or(a, b)) },
    }
}
fn cmp_const(kind: u8, a: Id, b: Id) -> Option<bool> {
    if let (Some(x), Some(y)) = (const_val(a), const_val(b)) {
        return Some(match kind { 0 => x < y, 1 => x <= y, _ => x == y });
    }
    None
}
pub fn t_lt(a: Id, b: Id) -> Id { match cmp_const(0, a, b) { Some(v) => mk(if v { Node::True } else { Node::False }), None => mk(Node::Lt(a, b)) } }
pub fn t_le(a: Id, b: Id) -> Id { match cmp_const(1, a, b) { Some(v) => mk(if v { Node::True } else { Node::False }), None => if a == b { mk(Node::True) } else { mk(Node::Le(a, b)) } } }
pub fn t_eq(a: Id, b: Id) -> Id { if a == b { return mk(Node::True); } match cmp_const(2, a, b) { Some(v) => mk(if v { Node::True } else { Node::False }), None => mk(Node::Eq(a, b)) } }
pub fn t_ite(c: Id, a: Id, b: Id) -> Id {
    match node(c) { Node::True => a, Node::False => b, _ => if a == b { a } else { mk(Node::Ite(c, a, b)) } }
}

impl BitAnd for SymMask { type Output = SymMask; fn bitand(self, o: SymMask) -> SymMask { SymMask(b_and(self.0, o.0)) } }
impl BitOr for SymMask { type Output = SymMask; fn bitor(self, o: SymMask) -> SymMask { SymMask(b_or(self.0, o.0)) } }
impl BitXor for SymMask { type Output = SymMask; fn bitxor(self, o: SymMask) -> SymMask { SymMask(b_or(b_and(self.0, b_not(o.0)), b_and(b_not(self.0), o.0))) } }
impl<'a> BitAnd<&'a SymMask> for SymMask { type Output = SymMask; fn bitand(self, o: &SymMask) -> SymMask { self & *o } }
impl<'a> BitOr<&'a SymMask> for SymMask { type Output = SymMask; fn bitor(self, o: &SymMask) -> SymMask { self | *o } }
impl<'a> BitXor<&'a SymMask> for SymMask { type Output = SymMask; fn bitxor(self, o: &SymMask) -> SymMask { self ^ *o } }
impl Not for SymMask { type Output = SymMask; fn not(self) -> SymMask { SymMask(b_not(self.0)) } }
impl BitAndAssign for SymMask { fn bitand_assign(&mut self, o: SymMask) { *self = *self & o; } }
impl BitOrAssign for SymMask { fn bitor_assign(&mut self, o: SymMask) { *self = *self | o; } }
impl BitXorAssign for SymMask { fn bitxor_assign(&mut self, o: SymMask) { *self = *self ^ o; } }
impl BoolMask for SymMask {
    fn from_bool(v: bool) -> Self { SymMask(mk(if v { Node::True } else { Node::False })) }
    fn is_true(&self) -> bool { node(self.0) == Node::True }
    fn is_false(&self) -> bool { node(self.0) == Node::False }
}
impl HasBoolMask for SymV { type Mask = SymMask; }
impl HasBoolMask for SymS { type Mask = bool; }
impl Select<SymV> for SymMask { fn select(self, a: SymV, b: SymV) -> SymV { SymV(t_ite(self.0, a.0, b.0)) } }
impl LazySelect<SymV> for SymMask {
    fn lazy_select<A, B>(self, a: A, b: B) -> SymV where A: FnOnce() -> SymV, B: FnOnce() -> SymV {
        match node(self.0) { Node::True => a(), Node::False => b(), _ => { let x = a(); let y = b(); SymV(t_ite(self.0, x.0, y.0)) } }
    }
}

/// min/max with idempotence folded: max(max(x,m),m) == max(x,m), and clamp(clamp(x,a,b),a,b) == clamp(x,a,b).
/// These are exact identities in floating point as well (min/max select, they never round), so the
/// folding keeps "same term => bit-identical result" sound.
pub fn t_max(a: Id, b: Id) -> Id {
    if a == b { return a; }
    if let Node::Max(_, m) = node(a) { if m == b { return a; } }
    if let Node::Max(x, _) = node(a) { if x == b { return a; } }
    // clamp(clamp(x, lo, hi), lo, ..): a = min(max(x, lo), hi) with lo <= hi constants
    if let Node::Min(inner, hi) = node(a) {
        if let Node::Max(_, lo) = node(inner) {
            if lo == b { if let (Some(l), Some(h)) = (const_val(lo), const_val(hi)) { if l <= h { return a; } } }
        }
    }
    mk(Node::Max(a, b))
}
pub fn t_min(a: Id, b: Id) -> Id {
    if a == b { return a; }
    if let Node::Min(_, m) = node(a) { if m == b { return a; } }
    if let Node::Min(x, _) = node(a) { if x == b { return a; } }
    mk(Node::Min(a, b))
}
macro_rules! un { ($n:ident, $a:expr) => { mk(Node::$n($a)) }; }
macro_rules! bin { ($n:ident, $a:expr, $b:expr) => { mk(Node::$n($a, $b)) }; }

macro_rules! common {
    ($T:ident) => {
        impl $T {
            pub fn c(v: f64) -> Self { $T(konst(v)) }
            pub fn pi() -> Self { $T(mk(Node::Pi)) }
        }
        impl Default for $T { fn default() -> Self { $T::c(0.0) } }
        impl Add for $T { type Output = $T; fn add(self, o: $T) -> $T { $T(bin!(Add, self.0, o.0)) } }
        impl Sub for $T { type Output = $T; fn sub(self, o: $T) -> $T { if self.0 == o.0 { return $T::c(0.0); } $T(bin!(Sub, self.0, o.0)) } } // x - x == +0.0 exactly for every finite x
        impl Mul for $T { type Output = $T; fn mul(self, o: $T) -> $T { $T(bin!(Mul, self.0, o.0)) } }
        impl Div for $T { type Output = $T; fn div(self, o: $T) -> $T { $T(bin!(Div, self.0, o.0)) } }
        impl<'a> Add<&'a $T> for $T { type Output = $T; fn add(self, o: &$T) -> $T { self + *o } }
        impl<'a> Sub<&'a $T> for $T { type Output = $T; fn sub(self, o: &$T) -> $T { self - *o } }
        impl<'a> Mul<&'a $T> for $T { type Output = $T; fn mul(self, o: &$T) -> $T { self * *o } }
        impl<'a> Div<&'a $T> for $T { type Output = $T; fn div(self, o: &$T) -> $T { self / *o } }
        impl<'a> Add<$T> for &'a $T { type Output = $T; fn add(self, o: $T) -> $T { *self + o } }
        impl<'a> Sub<$T> for &'a $T { type Output = $T; fn sub(self, o: $T) -> $T { *self - o } }
        impl<'a> Mul<$T> for &'a $T { type Output = $T; fn mul(self, o: $T) -> $T { *self * o } }
        impl<'a> Div<$T> for &'a $T { type Output = $T; fn div(self, o: $T) -> $T { *self / o } }
        impl<'a, 'b> Add<&'b $T> for &'a $T { type Output = $T; fn add(self, o: &$T) -> $T { *self + *o } }
        impl<'a, 'b> Sub<&'b $T> for &'a $T { type Output = $T; fn sub(self, o: &$T) -> $T { *self - *o } }
        impl<'a, 'b> Mul<&'b $T> for &'a $T { type Output = $T; fn mul(self, o: &$T) -> $T { *self * *o } }
        impl<'a, 'b> Div<&'b $T> for &'a $T { type Output = $T; fn div(self, o: &$T) -> $T { *self / *o } }
        impl Neg for $T { type Output = $T; fn neg(self) -> $T { match const_val(self.0) { Some(v) => $T::c(-v), None => $T(un!(Neg, self.0)) } } }
        impl<'a> Neg for &'a $T { type Output = $T; fn neg(self) -> $T { -*self } }
        impl AddAssign for $T { fn add_assign(&mut self, o: $T) { *self = *self + o; } }
        impl SubAssign for $T { fn sub_assign(&mut self, o: $T) { *self = *self - o; } }
        impl MulAssign for $T { fn mul_assign(&mut self, o: $T) { *self = *self * o; } }
        impl DivAssign for $T { fn div_assign(&mut self, o: $T) { *self = *self / o; } }
        impl<'a> AddAssign<&'a $T> for $T { fn add_assign(&mut self, o: &$T) { *self = *self + *o; } }
        impl<'a> SubAssign<&'a $T> for $T { fn sub_assign(&mut self, o: &$T) { *self = *self - *o; } }
        impl<'a> MulAssign<&'a $T> for $T { fn mul_assign(&mut self, o: &$T) { *self = *self * *o; } }
        impl<'a> DivAssign<&'a $T> for $T { fn div_assign(&mut self, o: &$T) { *self = *self / *o; } }
        impl Real for $T { fn from_f64(n: f64) -> Self { $T::c(n) } }
        impl Zero for $T { fn zero() -> Self { $T::c(0.0) } }
        impl One for $T { fn one() -> Self { $T::c(1.0) } }
        impl MinMax for $T {
            fn min(self, o: Self) -> Self { $T(t_min(self.0, o.0)) }
            fn max(self, o: Self) -> Self { $T(t_max(self.0, o.0)) }
            fn min_max(self, o: Self) -> (Self, Self) { ($T(t_min(self.0, o.0)), $T(t_max(self.0, o.0))) }
        }
        impl Trigonometry for $T {
            fn sin(self) -> Self { $T(un!(Sin, self.0)) }
            fn cos(self) -> Self { $T(un!(Cos, self.0)) }
            fn sin_cos(self) -> (Self, Self) { ($T(un!(Sin, self.0)), $T(un!(Cos, self.0))) }
            fn tan(self) -> Self { $T(un!(Tan, self.0)) }
            fn asin(self) -> Self { $T(un!(Asin, self.0)) }
            fn acos(self) -> Self { $T(un!(Acos, self.0)) }
            fn atan(self) -> Self { $T(un!(Atan, self.0)) }
            fn atan2(self, o: Self) -> Self { $T(bin!(Atan2, self.0, o.0)) }
        }
        impl Abs for $T { fn abs(self) -> Self { $T(un!(Abs, self.0)) } }
        impl Sqrt for $T { fn sqrt(self) -> Self { $T(un!(Sqrt, self.0)) } }
        impl Cbrt for $T { fn cbrt(self) -> Self { $T(un!(Cbrt, self.0)) } }
        impl Powf for $T { fn powf(self, e: Self) -> Self { $T(bin!(Pow, self.0, e.0)) } }
        impl Powi for $T {
            fn powi(self, e: i32) -> Self {
                let mut r = $T::c(1.0);
                let mut i = 0;
                while i < e.abs() { r = if i == 0 { self } else { r * self }; i += 1; }
                if e < 0 { $T::c(1.0) / r } else { r }
            }
        }
        impl Powu for $T {
            fn powu(self, e: u32) -> Self {
                let mut r = $T::c(1.0);
                let mut i = 0;
                while i < e { r = if i == 0 { self } else { r * self }; i += 1; }
                r
            }
        }
        impl Recip for $T { fn recip(self) -> Self { $T::c(1.0) / self } }
        impl Exp for $T { fn exp(self) -> Self { $T(un!(Exp, self.0)) } }
        impl Ln for $T { fn ln(self) -> Self { $T(un!(Ln, self.0)) } }
        impl Hypot for $T { fn hypot(self, o: Self) -> Self { $T(bin!(Hypot, self.0, o.0)) } }
        impl Round for $T {
            fn round(self) -> Self { $T(un!(Round, self.0)) }
            fn floor(self) -> Self { $T(un!(Floor, self.0)) }
            fn ceil(self) -> Self { $T(un!(Ceil, self.0)) }
        }
        impl Clamp for $T {
            fn clamp(self, min: Self, max: Self) -> Self { $T(t_min(t_max(self.0, min.0), max.0)) }
            fn clamp_min(self, min: Self) -> Self { $T(t_max(self.0, min.0)) }
            fn clamp_max(self, max: Self) -> Self { $T(t_min(self.0, max.0)) }
        }
        impl ClampAssign for $T {
            fn clamp_assign(&mut self, min: Self, max: Self) { *self = Clamp::clamp(*self, min, max); }
            fn clamp_min_assign(&mut self, min: Self) { *self = Clamp::clamp_min(*self, min); }
            fn clamp_max_assign(&mut self, max: Self) { *self = Clamp::clamp_max(*self, max); }
        }
        impl MulAdd for $T { fn mul_add(self, m: Self, a: Self) -> Self { self * m + a } }
        impl MulSub for $T { fn mul_sub(self, m: Self, s: Self) -> Self { self * m - s } }
        impl SaturatingAdd for $T { type Output = $T; fn saturating_add(self, o: $T) -> $T { self + o } }
        impl SaturatingSub for $T { type Output = $T; fn saturating_sub(self, o: $T) -> $T { self - o } }
        impl HalfRotation for $T { fn half_rotation() -> Self { $T::c(180.0) } }
        impl FullRotation for $T { fn full_rotation() -> Self { $T::c(360.0) } }
        impl RealAngle for $T {
            // f32/f64::to_degrees/to_radians multiply by the rounded constants 180/pi and pi/180;
            // over the reals (M1) these are the exact constants, so the two are exact inverses.
            fn radians_to_degrees(self) -> Self { self * ($T::c(180.0) / $T::pi()) }
            fn degrees_to_radians(self) -> Self { self * ($T::pi() / $T::c(180.0)) }
        }
        impl SignedAngle for $T {
            // same expression as impl_angle_float! in palette/src/angle.rs
            fn normalize_signed_angle(self) -> Self {
                self - Round::ceil(((self + $T::c(180.0)) / $T::c(360.0)) - $T::c(1.0)) * $T::c(360.0)
            }
        }
        impl UnsignedAngle for $T {
            fn normalize_unsigned_angle(self) -> Self { self - (Round::floor(self / $T::c(360.0)) * $T::c(360.0)) }
        }
    };
}
common!(SymS);
common!(SymV);
// like wide::f32x4 (Scalar = f32): the scalar type of the vector instantiation has Mask = bool
impl FromScalar for SymS { type Scalar = SymS; fn from_scalar(s: SymS) -> Self { s } }
impl FromScalarArray<1> for SymS { fn from_array(s: [SymS; 1]) -> Self { s[0] } }
impl IntoScalarArray<1> for SymS { fn into_array(self) -> [SymS; 1] { [self] } }
impl FromScalar for SymV { type Scalar = SymS; fn from_scalar(s: SymS) -> Self { SymV(s.0) } }
impl FromScalarArray<1> for SymV { fn from_array(s: [SymS; 1]) -> Self { SymV(s[0].0) } }
impl IntoScalarArray<1> for SymV { fn into_array(self) -> [SymS; 1] { [SymS(self.0)] } }

// ---- scalar mode: decisions ----
impl PartialCmp for SymS {
    fn lt(&self, o: &Self) -> bool { decide(t_lt(self.0, o.0)) }
    fn lt_eq(&self, o: &Self) -> bool { decide(t_le(self.0, o.0)) }
    fn eq(&self, o: &Self) -> bool { decide(t_eq(self.0, o.0)) }
    fn neq(&self, o: &Self) -> bool { !decide(t_eq(self.0, o.0)) }
    fn gt_eq(&self, o: &Self) -> bool { decide(t_le(o.0, self.0)) }
    fn gt(&self, o: &Self) -> bool { decide(t_lt(o.0, self.0)) }
}
impl PartialEq for SymS { fn eq(&self, o: &Self) -> bool { decide(t_eq(self.0, o.0)) } }
impl PartialOrd for SymS {
    fn partial_cmp(&self, o: &Self) -> Option<core::cmp::Ordering> {
        if decide(t_lt(self.0, o.0)) { Some(core::cmp::Ordering::Less) }
        else if decide(t_eq(self.0, o.0)) { Some(core::cmp::Ordering::Equal) }
        else { Some(core::cmp::Ordering::Greater) }
    }
    fn lt(&self, o: &Self) -> bool { decide(t_lt(self.0, o.0)) }
    fn le(&self, o: &Self) -> bool { decide(t_le(self.0, o.0)) }
    fn gt(&self, o: &Self) -> bool { decide(t_lt(o.0, self.0)) }
    fn ge(&self, o: &Self) -> bool { decide(t_le(o.0, self.0)) }
}
impl IsValidDivisor for SymS {
    // impl_float!: is_valid_divisor == is_normal; over the reals: non-zero
    fn is_valid_divisor(&self) -> bool { !decide(t_eq(self.0, konst(0.0))) }
}
impl Signum for SymS {
    fn signum(self) -> Self { if decide(t_lt(self.0, konst(0.0))) { SymS::c(-1.0) } else { SymS::c(1.0) } }
}
impl AngleEq for SymS {
    fn angle_eq(&self, o: &Self) -> bool {
        decide(t_eq(self.normalize_unsigned_angle().0, o.normalize_unsigned_angle().0))
    }
}

// ---- vector mode: Boolean terms ----
impl PartialCmp for SymV {
    fn lt(&self, o: &Self) -> SymMask { SymMask(t_lt(self.0, o.0)) }
    fn lt_eq(&self, o: &Self) -> SymMask { SymMask(t_le(self.0, o.0)) }
    fn eq(&self, o: &Self) -> SymMask { SymMask(t_eq(self.0, o.0)) }
    fn neq(&self, o: &Self) -> SymMask { SymMask(b_not(t_eq(self.0, o.0))) }
    fn gt_eq(&self, o: &Self) -> SymMask { SymMask(t_le(o.0, self.0)) }
    fn gt(&self, o: &Self) -> SymMask { SymMask(t_lt(o.0, self.0)) }
}
impl PartialEq for SymV { fn eq(&self, o: &Self) -> bool { self.0 == o.0 } }
impl IsValidDivisor for SymV {
    fn is_valid_divisor(&self) -> SymMask { SymMask(b_not(t_eq(self.0, konst(0.0)))) }
}
impl Signum for SymV {
    fn signum(self) -> Self { SymV(t_ite(t_lt(self.0, konst(0.0)), konst(-1.0), konst(1.0))) }
}
impl AngleEq for SymV {
    fn angle_eq(&self, o: &Self) -> SymMask {
        SymMask(t_eq(self.normalize_unsigned_angle().0, o.normalize_unsigned_angle().0))
    }
}
