//! Contract vocabulary shared by the symbolic and the concrete (replay) instantiations.
//! A *program* is generic code `fn p<T: Num>()`: it declares its inputs (`T::var`), calls the real
//! palette functions at `T`, and states the contract (`assume` = requires, `ensure` = ensures,
//! `identical` = syntactic identity of two results). At `T = SymS|SymV` this yields verification
//! conditions; at `T = f64` the SAME program re-executes the real code on a concrete
//! counterexample (replay), with the floating point tolerance of the property.
use crate::num::*;
use crate::term::*;
use palette::angle::*;
use palette::bool_mask::*;
use palette::num::*;
use std::cell::RefCell;
use std::collections::HashMap;

pub trait Logic: Sized + Clone {
    type P: Clone;
    fn p_lt(a: &Self, b: &Self) -> Self::P;
    fn p_le(a: &Self, b: &Self) -> Self::P;
    fn p_eq(a: &Self, b: &Self) -> Self::P;
    fn p_and(a: Self::P, b: Self::P) -> Self::P;
    fn p_or(a: Self::P, b: Self::P) -> Self::P;
    fn p_not(a: Self::P) -> Self::P;
    fn p_true() -> Self::P;
    fn ite(p: &Self::P, a: Self, b: Self) -> Self;
    fn var(name: &str, lo: f64, hi: f64) -> Self;
    fn assume(p: Self::P);
    fn ensure(name: &str, p: Self::P);
    /// an ensure that, once discharged, becomes a premise of the later obligations of the same path (cut point)
    fn lemma(name: &str, p: Self::P) { Self::ensure(&format!("lemma.{}", name), p) }
    fn output(name: &str, v: &Self);
    fn identical(name: &str, a: &Self, b: &Self);
    /// tolerance: `real` for the real-arithmetic proof, `float` when replaying in f64
    fn tol(real: f64, float: f64) -> Self;
    fn k(v: f64) -> Self;
    fn is_symbolic() -> bool;
    /// the two values are the SAME term (symbolic) / bit-identical (replay)
    fn same_term(a: &Self, b: &Self) -> bool;
    /// mask of the type's own comparison (used to state contracts about mask-returning functions)
    fn mask_prop(m: <Self as HasBoolMask>::Mask) -> Self::P where Self: HasBoolMask;
}

macro_rules! sym_logic {
    ($T:ident, $mask:expr) => {
        impl Logic for $T {
            type P = Id;
            fn p_lt(a: &Self, b: &Self) -> Id { t_lt(a.0, b.0) }
            fn p_le(a: &Self, b: &Self) -> Id { t_le(a.0, b.0) }
            fn p_eq(a: &Self, b: &Self) -> Id { t_eq(a.0, b.0) }
            fn p_and(a: Id, b: Id) -> Id { b_and(a, b) }
            fn p_or(a: Id, b: Id) -> Id { b_or(a, b) }
            fn p_not(a: Id) -> Id { b_not(a) }
            fn p_true() -> Id { mk(Node::True) }
            fn ite(p: &Id, a: Self, b: Self) -> Self { $T(t_ite(*p, a.0, b.0)) }
            fn var(name: &str, lo: f64, hi: f64) -> Self {
                let id = mk(Node::Var(name.to_string()));
                with(|a| { if !a.vars.iter().any(|(_, i, _, _)| *i == id) { a.vars.push((name.to_string(), id, lo, hi)); } });
                $T(id)
            }
            fn assume(p: Id) { with(|a| a.assumes.push(p)); }
            fn ensure(name: &str, p: Id) { with(|a| a.ensures.push((name.to_string(), p))); }
            fn output(name: &str, v: &Self) { with(|a| a.outputs.push((name.to_string(), v.0))); }
            fn identical(name: &str, x: &Self, y: &Self) {
                // same operations up to the order of the operands of + and * (bit-identical in IEEE arithmetic): recorded as the same term
                let yy = if comm_equal(x.0, y.0) { x.0 } else { y.0 };
                with(|a| a.identical.push((name.to_string(), x.0, yy)));
            }
            fn tol(real: f64, float: f64) -> Self { $T(mk(Node::Tol(real.to_bits(), float.to_bits()))) }
            fn k(v: f64) -> Self { $T::c(v) }
            fn is_symbolic() -> bool { true }
            fn same_term(a: &Self, b: &Self) -> bool { ac_equal(a.0, b.0) }
            fn mask_prop(m: <Self as HasBoolMask>::Mask) -> Id { ($mask)(m) }
        }
    };
}
sym_logic!(SymS, |m: bool| mk(if m { Node::True } else { Node::False }));
sym_logic!(SymV, |m: SymMask| m.0);

#[derive(Default)]
pub struct FloatRun {
    pub inputs: HashMap<String, f64>,
    pub results: Vec<(String, bool)>,
    pub outputs: Vec<(String, f64)>,
    pub assume_failed: bool,
    pub missing: Vec<String>,
    /// every variable the program declared on this run: (name, lo, hi)
    pub declared: Vec<(String, f64, f64)>,
}
thread_local! { pub static FRUN: RefCell<FloatRun> = RefCell::new(FloatRun::default()); }

macro_rules! float_logic {
    ($F:ident) => {
        impl Logic for $F {
            type P = bool;
            fn p_lt(a: &Self, b: &Self) -> bool { a < b }
            fn p_le(a: &Self, b: &Self) -> bool { a <= b }
            fn p_eq(a: &Self, b: &Self) -> bool { a == b }
            fn p_and(a: bool, b: bool) -> bool { a && b }
            fn p_or(a: bool, b: bool) -> bool { a || b }
            fn p_not(a: bool) -> bool { !a }
            fn p_true() -> bool { true }
            fn ite(p: &bool, a: Self, b: Self) -> Self { if *p { a } else { b } }
            fn var(name: &str, lo: f64, hi: f64) -> Self {
                FRUN.with(|r| {
                    let mut r = r.borrow_mut();
                    if !r.declared.iter().any(|(n, _, _)| n == name) { r.declared.push((name.to_string(), lo, hi)); }
                    match r.inputs.get(name) {
                        Some(v) => { let v = *v; if !(v >= lo && v <= hi) { r.assume_failed = true; } v as $F }
                        None => { r.missing.push(name.to_string()); ((lo + hi) / 2.0) as $F }
                    }
                })
            }
            fn assume(p: bool) { if !p { FRUN.with(|r| r.borrow_mut().assume_failed = true); } }
            fn ensure(name: &str, p: bool) { FRUN.with(|r| r.borrow_mut().results.push((name.to_string(), p))); }
            fn output(name: &str, v: &Self) { FRUN.with(|r| r.borrow_mut().outputs.push((name.to_string(), *v as f64))); }
            fn identical(name: &str, a: &Self, b: &Self) {
                let same = a.to_bits() == b.to_bits() || (a.is_nan() && b.is_nan());
                FRUN.with(|r| r.borrow_mut().results.push((name.to_string(), same)));
            }
            fn tol(_real: f64, float: f64) -> Self { float as $F }
            fn k(v: f64) -> Self { v as $F }
            fn is_symbolic() -> bool { false }
            fn same_term(a: &Self, b: &Self) -> bool { a.to_bits() == b.to_bits() }
            fn mask_prop(m: bool) -> bool { m }
        }
    };
}
float_logic!(f64);
float_logic!(f32);

/// Everything palette's generic colour code may ask of a component type.
pub trait Num:
    Logic + Copy + Default + core::fmt::Debug + 'static
    + Real + Zero + One + Arithmetics + MinMax + Trigonometry + Abs + Sqrt + Cbrt + Powf + Powi + Powu + Recip + Exp + Ln
    + Hypot + Round + Clamp + ClampAssign + MulAdd + MulSub + Signum + IsValidDivisor + PartialCmp + PartialEq
    + core::ops::AddAssign + core::ops::SubAssign + core::ops::MulAssign + core::ops::DivAssign
    + HalfRotation + FullRotation + RealAngle + SignedAngle + UnsignedAngle + AngleEq
    + HasBoolMask + FromScalar + ToScalar
    + palette::stimulus::Stimulus
{
}
/// the scalar type's value of a component (identity for the scalar instantiations; the same term for the vector one)
pub trait ToScalar: FromScalar { fn to_scalar(self) -> Self::Scalar; }
impl ToScalar for SymS { fn to_scalar(self) -> SymS { self } }
impl ToScalar for SymV { fn to_scalar(self) -> SymS { SymS(self.0) } }
impl ToScalar for f64 { fn to_scalar(self) -> f64 { self } }
impl ToScalar for f32 { fn to_scalar(self) -> f32 { self } }
impl Num for SymS {}
impl Num for SymV {}
impl Num for f64 {}
impl Num for f32 {}

// ---- helpers for writing contracts ----
pub fn abs_le<T: Num>(a: T, b: T, tol: T) -> T::P {
    // |a - b| <= tol   stated without abs: -tol <= a-b <= tol
    let d = a - b;
    T::p_and(T::p_le(&d, &tol), T::p_le(&(-tol), &d))
}
pub fn in_range<T: Num>(x: T, lo: f64, hi: f64) -> T::P {
    T::p_and(T::p_le(&T::k(lo), &x), T::p_le(&x, &T::k(hi)))
}
pub fn conj<T: Num>(ps: &[T::P]) -> T::P {
    let mut r = T::p_true();
    for p in ps { r = T::p_and(r, p.clone()); }
    r
}

/// |a - b| <= tol, discharged syntactically when both sides are the same term
pub fn same_or_close<T: Num>(a: T, b: T, tol: T) -> T::P {
    if T::same_term(&a, &b) { T::p_true() } else { abs_le(a, b, tol) }
}
/// equal modulo 360 within tol, discharged syntactically when both sides are the same term
pub fn same_or_hue_close<T: Num>(a: T, b: T, tol: T) -> T::P {
    if T::same_term(&a, &b) { return T::p_true(); }
    let d = a - b;
    let z = |x: T| T::p_and(T::p_le(&x, &tol), T::p_le(&(-tol), &x));
    T::p_or(z(d), T::p_or(z(d - T::k(360.0)), z(d + T::k(360.0))))
}
