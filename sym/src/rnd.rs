//! rand's contract at the symbolic types (assumed dependency contract, C19):
//!   Standard float sample: a fresh draw d with 0 <= d < 1
//!   Uniform::new(low, high): low + d * (high - low), 0 <= d < 1      (inclusive: 0 <= d <= 1)
//! Every RNG stream is covered because the draws are universally quantified variables.
//! In f64 replay mode the SAME program uses the real rand samplers, fed by an RNG that reproduces the
//! draws of the counterexample (`draw0`, `draw1`, ... in call order).
use crate::logic::*;
use crate::num::*;
use crate::term::*;
use rand::distributions::uniform::{SampleBorrow, SampleUniform, UniformSampler};
use rand::distributions::{Distribution, Standard};
use rand::{Rng, RngCore};
use std::cell::Cell;

thread_local! { static DRAWS: Cell<u32> = Cell::new(0); }
pub fn reset_draws() { DRAWS.with(|d| d.set(0)); }
fn next_draw_name() -> String { DRAWS.with(|d| { let k = d.get(); d.set(k + 1); format!("draw{}", k) }) }

fn fresh(inclusive: bool) -> SymS {
    let d = <SymS as Logic>::var(&next_draw_name(), 0.0, 1.0);
    if !inclusive { <SymS as Logic>::assume(t_lt(d.0, konst(1.0))); }
    d
}

impl Distribution<SymS> for Standard {
    fn sample<R: Rng + ?Sized>(&self, _rng: &mut R) -> SymS { fresh(false) }
}
pub struct SymUniform { low: SymS, high: SymS, inclusive: bool }
impl SampleUniform for SymS { type Sampler = SymUniform; }
impl UniformSampler for SymUniform {
    type X = SymS;
    fn new<B1, B2>(low: B1, high: B2) -> Self where B1: SampleBorrow<SymS> + Sized, B2: SampleBorrow<SymS> + Sized {
        // rand panics unless low < high: a precondition of the caller
        let (l, h) = (*low.borrow(), *high.borrow());
        <SymS as Logic>::assume(t_lt(l.0, h.0));
        SymUniform { low: l, high: h, inclusive: false }
    }
    fn new_inclusive<B1, B2>(low: B1, high: B2) -> Self where B1: SampleBorrow<SymS> + Sized, B2: SampleBorrow<SymS> + Sized {
        let (l, h) = (*low.borrow(), *high.borrow());
        <SymS as Logic>::assume(t_le(l.0, h.0));
        SymUniform { low: l, high: h, inclusive: true }
    }
    fn sample<R: Rng + ?Sized>(&self, _rng: &mut R) -> SymS {
        let d = fresh(self.inclusive);
        self.low + d * (self.high - self.low)
    }
}

/// RNG for the concrete replay: reproduces the draws of a counterexample for rand's f64 samplers
/// (one next_u64 per draw; top 52/53 bits are the fraction).
pub struct ReplayRng;
impl RngCore for ReplayRng {
    fn next_u32(&mut self) -> u32 { (self.next_u64() >> 32) as u32 }
    fn next_u64(&mut self) -> u64 {
        let name = next_draw_name();
        let v = FRUN.with(|r| {
            let mut r = r.borrow_mut();
            match r.inputs.get(&name) { Some(v) => *v, None => { r.missing.push(name.clone()); 0.5 } }
        });
        let v = if v < 0.0 { 0.0 } else if v >= 1.0 { 1.0 - 1e-16 } else { v };
        ((v * 9007199254740992.0) as u64) << 11
    }
    fn fill_bytes(&mut self, dest: &mut [u8]) { for b in dest.iter_mut() { *b = 0; } }
    fn try_fill_bytes(&mut self, dest: &mut [u8]) -> Result<(), rand::Error> { self.fill_bytes(dest); Ok(()) }
}
pub fn rng() -> ReplayRng { reset_draws(); ReplayRng }
