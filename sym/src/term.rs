//! Hash-consed term arena. Executing palette's generic code at the `Sym*` types builds, mechanically,
//! the exact expression DAG (and, in scalar mode, the path condition) the real code computes.
use std::cell::RefCell;
use std::collections::HashMap;

pub type Id = u32;

#[derive(Clone, PartialEq, Eq, Hash, Debug)]
pub enum Node {
    Var(String),
    /// exact value of an f64 constant: bits
    Const(u64),
    Pi,
    /// tolerance of a contract: (real-arithmetic proof, floating point replay)
    Tol(u64, u64),
    Add(Id, Id), Sub(Id, Id), Mul(Id, Id), Div(Id, Id), Neg(Id),
    Min(Id, Id), Max(Id, Id), Abs(Id), Floor(Id), Ceil(Id), Round(Id),
    Sqrt(Id), Cbrt(Id), Exp(Id), Ln(Id), Sin(Id), Cos(Id), Tan(Id), Asin(Id), Acos(Id), Atan(Id),
    Atan2(Id, Id), Hypot(Id, Id), Pow(Id, Id),
    Ite(Id, Id, Id),
    // booleans
    True, False,
    Lt(Id, Id), Le(Id, Id), Eq(Id, Id),
    And(Id, Id), Or(Id, Id), Not(Id),
}

#[derive(Default)]
pub struct Arena {
    pub nodes: Vec<Node>,
    pub index: HashMap<Node, Id>,
    /// scalar mode: decisions to replay, and the trace of (condition, outcome) of this run
    pub script: Vec<bool>,
    pub pos: usize,
    pub trace: Vec<(Id, bool)>,
    /// variables: name, id, lo, hi (f64 bounds of the domain)
    pub vars: Vec<(String, Id, f64, f64)>,
    pub assumes: Vec<Id>,
    pub ensures: Vec<(String, Id)>,
    pub outputs: Vec<(String, Id)>,
    pub identical: Vec<(String, Id, Id)>,
    pub fresh: u32,
}

thread_local! { pub static ARENA: RefCell<Arena> = RefCell::new(Arena::default()); }

pub fn with<R>(f: impl FnOnce(&mut Arena) -> R) -> R { ARENA.with(|a| f(&mut a.borrow_mut())) }

pub fn mk(n: Node) -> Id {
    with(|a| {
        if let Some(i) = a.index.get(&n) { return *i; }
        let i = a.nodes.len() as Id;
        a.nodes.push(n.clone());
        a.index.insert(n, i);
        i
    })
}
pub fn node(i: Id) -> Node { with(|a| a.nodes[i as usize].clone()) }

pub fn konst(v: f64) -> Id {
    if v == std::f64::consts::PI { return mk(Node::Pi); }
    // -0.0 and 0.0 are the same real number
    let v = if v == 0.0 { 0.0 } else { v };
    mk(Node::Const(v.to_bits()))
}
pub fn const_val(i: Id) -> Option<f64> {
    match node(i) { Node::Const(b) => Some(f64::from_bits(b)), _ => None }
}

/// Numerical value of a GROUND term (constants combined by + - * / neg min max abs). Used only to decide
/// comparisons between ground terms that are clearly apart (relative gap > 1e-9), so that constant
/// computations of the real code (matrices from primaries, white points) do not fork the path search.
pub fn ground_val(i: Id) -> Option<f64> {
    fn go(i: Id, depth: u32) -> Option<f64> {
        if depth > 200 { return None; }
        use Node::*;
        Some(match node(i) {
            Const(b) => f64::from_bits(b),
            Add(a, b) => go(a, depth + 1)? + go(b, depth + 1)?,
            Sub(a, b) => go(a, depth + 1)? - go(b, depth + 1)?,
            Mul(a, b) => go(a, depth + 1)? * go(b, depth + 1)?,
            Div(a, b) => { let d = go(b, depth + 1)?; if d == 0.0 { return None; } go(a, depth + 1)? / d }
            Neg(a) => -go(a, depth + 1)?,
            Min(a, b) => go(a, depth + 1)?.min(go(b, depth + 1)?),
            Max(a, b) => go(a, depth + 1)?.max(go(b, depth + 1)?),
            Abs(a) => go(a, depth + 1)?.abs(),
            _ => return None,
        })
    }
    go(i, 0)
}
fn clearly(kind: u8, a: Id, b: Id) -> Option<bool> {
    if const_val(a).is_some() && const_val(b).is_some() { return None; }
    let (x, y) = (ground_val(a)?, ground_val(b)?);
    if !x.is_finite() || !y.is_finite() { return None; }
    let scale = x.abs().max(y.abs()).max(1e-300);
    if (x - y).abs() <= 1e-9 * scale { return None; }
    Some(match kind { 0 => x < y, 1 => x <= y, _ => false })
}

// ---- AC-canonical form: equality of terms modulo associativity / commutativity of + and *, placement of
// negations, a/(b*c) = a/b/c and (a*b)/c = a*(b/c). Solver-free and sound over the reals (every rewrite is an
// identity of real arithmetic; no constant is ever combined with another). Used to compare the code's term with an
// independently transcribed specification whose operand order differs, and to recognise a comparison the code has
// already decided on this path when the specification asks the same question with re-ordered operands.
#[derive(Clone, PartialEq, Eq, Hash, PartialOrd, Ord, Debug)]
enum CNode {
    Leaf(String),
    Sum(Vec<(bool, u32)>),
    Prod(Vec<(bool, u32)>),
    App(&'static str, Vec<(bool, u32)>),
}
#[derive(Default)]
struct Canon { nodes: Vec<CNode>, index: HashMap<CNode, u32>, memo: HashMap<Id, (bool, u32)> }
thread_local! { static CANON: RefCell<Canon> = RefCell::new(Canon::default()); }
fn cmk(n: CNode) -> u32 {
    CANON.with(|c| { let mut c = c.borrow_mut(); if let Some(i) = c.index.get(&n) { return *i; } let i = c.nodes.len() as u32; c.nodes.push(n.clone()); c.index.insert(n, i); i })
}
pub fn canon_reset() { CANON.with(|c| *c.borrow_mut() = Canon::default()); }
fn collect_sum(i: Id, neg: bool, out: &mut Vec<(bool, u32)>) {
    match node(i) {
        Node::Add(a, b) => { collect_sum(a, neg, out); collect_sum(b, neg, out); }
        Node::Sub(a, b) => { collect_sum(a, neg, out); collect_sum(b, !neg, out); }
        Node::Neg(a) => collect_sum(a, !neg, out),
        _ => { let (n, c) = canon(i); out.push((neg ^ n, c)); }
    }
}
fn collect_prod(i: Id, inv: bool, neg: &mut bool, out: &mut Vec<(bool, u32)>) {
    match node(i) {
        Node::Mul(a, b) => { collect_prod(a, inv, neg, out); collect_prod(b, inv, neg, out); }
        Node::Div(a, b) => { collect_prod(a, inv, neg, out); collect_prod(b, !inv, neg, out); }
        Node::Neg(a) => { *neg = !*neg; collect_prod(a, inv, neg, out); }
        _ => { let (n, c) = canon(i); *neg ^= n; out.push((inv, c)); }
    }
}
/// (negated?, canonical id)
pub fn canon(i: Id) -> (bool, u32) {
    if let Some(r) = CANON.with(|c| c.borrow().memo.get(&i).cloned()) { return r; }
    use Node::*;
    let un = |tag: &'static str, xs: &[Id]| -> (bool, u32) { (false, cmk(CNode::App(tag, xs.iter().map(|x| canon(*x)).collect()))) };
    let r = match node(i) {
        Var(n) => (false, cmk(CNode::Leaf(format!("v:{}", n)))),
        Const(b) => { let v = f64::from_bits(b); if v < 0.0 { (true, cmk(CNode::Leaf(format!("c:{:x}", (-v).to_bits())))) } else { (false, cmk(CNode::Leaf(format!("c:{:x}", v.to_bits())))) } }
        Pi => (false, cmk(CNode::Leaf("pi".into()))),
        Tol(a, b) => (false, cmk(CNode::Leaf(format!("tol:{:x}:{:x}", a, b)))),
        True => (false, cmk(CNode::Leaf("true".into()))),
        False => (false, cmk(CNode::Leaf("false".into()))),
        Add(..) | Sub(..) => {
            // a sum and its negation share one canonical node: the sign is factored out
            let mut ts = Vec::new(); collect_sum(i, false, &mut ts); ts.sort();
            let mut ng: Vec<(bool, u32)> = ts.iter().map(|(n, c)| (!*n, *c)).collect(); ng.sort();
            if ng < ts { (true, cmk(CNode::Sum(ng))) } else { (false, cmk(CNode::Sum(ts))) }
        }
        Neg(a) => { let (n, c) = canon(a); (!n, c) }
        Mul(..) | Div(..) => {
            let mut fs = Vec::new(); let mut neg = false; collect_prod(i, false, &mut neg, &mut fs); fs.sort();
            if fs.len() == 1 && !fs[0].0 { (neg, fs[0].1) } else { (neg, cmk(CNode::Prod(fs))) }
        }
        Min(a, b) => { let mut xs = vec![canon(a), canon(b)]; xs.sort(); (false, cmk(CNode::App("min", xs))) }
        Max(a, b) => { let mut xs = vec![canon(a), canon(b)]; xs.sort(); (false, cmk(CNode::App("max", xs))) }
        Abs(a) => (false, cmk(CNode::App("abs", vec![(false, canon(a).1)]))),
        Floor(a) => un("floor", &[a]), Ceil(a) => un("ceil", &[a]), Round(a) => un("round", &[a]),
        Sqrt(a) => un("sqrt", &[a]), Exp(a) => un("exp", &[a]), Ln(a) => un("ln", &[a]),
        // odd functions: the sign of the argument moves outside
        Cbrt(a) => { let (n, c) = canon(a); (n, cmk(CNode::App("cbrt", vec![(false, c)]))) }
        Sin(a) => { let (n, c) = canon(a); (n, cmk(CNode::App("sin", vec![(false, c)]))) }
        Cos(a) => (false, cmk(CNode::App("cos", vec![(false, canon(a).1)]))),
        Tan(a) => un("tan", &[a]), Asin(a) => un("asin", &[a]), Acos(a) => un("acos", &[a]), Atan(a) => un("atan", &[a]),
        Atan2(a, b) => un("atan2", &[a, b]), Pow(a, b) => un("pow", &[a, b]),
        // hypot(a, b) is sqrt(a*a + b*b) by definition
        Hypot(a, b) => {
            let (ca, cb) = (canon(a).1, canon(b).1);
            let mut ts = vec![(false, cmk(CNode::Prod(vec![(false, ca), (false, ca)]))), (false, cmk(CNode::Prod(vec![(false, cb), (false, cb)])))];
            ts.sort();
            let sum = cmk(CNode::Sum(ts));
            (false, cmk(CNode::App("sqrt", vec![(false, sum)])))
        }
        Ite(c, a, b) => un("ite", &[c, a, b]),
        // comparisons: a < b  <=>  0 < b - a, with the difference in canonical (flattened, sorted) form
        Lt(a, b) => { let mut ts = Vec::new(); collect_sum(b, false, &mut ts); collect_sum(a, true, &mut ts); ts.sort(); (false, cmk(CNode::App("pos", vec![(false, cmk(CNode::Sum(ts)))]))) }
        Le(a, b) => { let mut ts = Vec::new(); collect_sum(b, false, &mut ts); collect_sum(a, true, &mut ts); ts.sort(); (false, cmk(CNode::App("nonneg", vec![(false, cmk(CNode::Sum(ts)))]))) }
        Eq(a, b) => {
            let mut ts = Vec::new(); collect_sum(b, false, &mut ts); collect_sum(a, true, &mut ts); ts.sort();
            let mut ng: Vec<(bool, u32)> = ts.iter().map(|(n, c)| (!*n, *c)).collect(); ng.sort();
            let pick = if ng < ts { ng } else { ts };
            (false, cmk(CNode::App("zero", vec![(false, cmk(CNode::Sum(pick)))])))
        }
        And(a, b) => un("and", &[a, b]), Or(a, b) => un("or", &[a, b]), Not(a) => un("not", &[a]),
    };
    CANON.with(|c| c.borrow_mut().memo.insert(i, r));
    r
}
pub fn ac_equal(a: Id, b: Id) -> bool { a == b || canon(a) == canon(b) }

// ---- commutative-only canonical form: the operands of each binary + and * are ordered, nothing is re-associated and no
// sign is moved. IEEE 754 addition and multiplication are commutative bit for bit (NaN payloads aside), so two terms
// with the same commutative-canonical form give bit-identical floating point results: a sound argument for the
// "exactly the same colour" clauses (variant agreement), unlike the real-arithmetic form above.
#[derive(Default)]
struct Comm { index: HashMap<(u8, u32, u32, u32), u32>, memo: HashMap<Id, u32>, next: u32 }
thread_local! { static COMM: RefCell<Comm> = RefCell::new(Comm::default()); }
pub fn comm_canon(i: Id) -> u32 {
    if let Some(r) = COMM.with(|c| c.borrow().memo.get(&i).cloned()) { return r; }
    use Node::*;
    let key: (u8, u32, u32, u32) = match node(i) {
        Add(a, b) => { let (x, y) = (comm_canon(a), comm_canon(b)); (1, x.min(y), x.max(y), 0) }
        Mul(a, b) => { let (x, y) = (comm_canon(a), comm_canon(b)); (2, x.min(y), x.max(y), 0) }
        Sub(a, b) => (3, comm_canon(a), comm_canon(b), 0),
        Div(a, b) => (4, comm_canon(a), comm_canon(b), 0),
        Neg(a) => (5, comm_canon(a), 0, 0),
        Ite(c, a, b) => (6, comm_canon(c), comm_canon(a), comm_canon(b)),
        // every other node (leaves, functions, comparisons): itself, with canonical children only through the cases above
        _ => (0, i, 0, 0),
    };
    let r = COMM.with(|c| { let mut c = c.borrow_mut(); if let Some(v) = c.index.get(&key) { return *v; } let v = c.next; c.next += 1; c.index.insert(key, v); v });
    COMM.with(|c| c.borrow_mut().memo.insert(i, r));
    r
}
pub fn comm_equal(a: Id, b: Id) -> bool { a == b || comm_canon(a) == comm_canon(b) }
pub fn comm_reset() { COMM.with(|c| *c.borrow_mut() = Comm::default()); }


/// Decide a comparison in scalar mode: constants are evaluated, everything else follows the script
/// (default: true) and is recorded in the trace as part of the path condition.
pub fn decide(cond: Id) -> bool {
    match node(cond) {
        Node::True => return true,
        Node::False => return false,
        Node::Lt(a, b) => if let (Some(x), Some(y)) = (const_val(a), const_val(b)) { return x < y; },
        Node::Le(a, b) => if let (Some(x), Some(y)) = (const_val(a), const_val(b)) { return x <= y; },
        Node::Eq(a, b) => { if a == b { return true; } if let (Some(x), Some(y)) = (const_val(a), const_val(b)) { return x == y; } },
        _ => {}
    }
    match node(cond) {
        Node::Lt(a, b) => if let Some(v) = clearly(0, a, b) { return v; },
        Node::Le(a, b) => if let Some(v) = clearly(1, a, b) { return v; },
        Node::Eq(a, b) => if let Some(v) = clearly(2, a, b) { return v; },
        _ => {}
    }
    if let Some(v) = implied(cond) { return v; }
    // the same question with re-ordered operands (AC-canonical form) keeps the outcome it already has on this path
    let tr: Vec<(Id, bool)> = with(|a| a.trace.clone());
    if !tr.iter().any(|(c, _)| *c == cond) {
        let cc = canon(cond);
        if let Some((_, o)) = tr.iter().find(|(c, _)| canon(*c) == cc) { return *o; }
    }
    with(|a| {
        // a condition already decided on this path keeps its outcome
        if let Some((_, o)) = a.trace.iter().find(|(c, _)| *c == cond) { return *o; }
        let d = if a.pos < a.script.len() { a.script[a.pos] } else { a.script.push(true); true };
        a.pos += 1;
        a.trace.push((cond, d));
        d
    })
}

/// Outcome of `cond` when it follows from the order facts already decided on this path
/// (transitive closure of <, <=, = between the same terms). Pruning only: the returned outcome is
/// implied by the recorded path condition, so nothing is lost or assumed.
fn implied(cond: Id) -> Option<bool> {
    let (kind, x, y) = match node(cond) { Node::Lt(a, b) => (0, a, b), Node::Le(a, b) => (1, a, b), Node::Eq(a, b) => (2, a, b), _ => return None };
    // facts: le[a][b] (a <= b), lt[a][b] (a < b) over the ids that occur
    let facts: Vec<(Id, bool)> = with(|a| a.trace.clone());
    let mut ids: Vec<Id> = vec![x, y];
    let mut rel: Vec<(Id, Id, bool)> = Vec::new(); // (a, b, strict): a < b or a <= b
    let mut neq: Vec<(Id, Id)> = Vec::new();
    for (c, o) in facts {
        match (node(c), o) {
            (Node::Lt(a, b), true) => rel.push((a, b, true)),
            (Node::Lt(a, b), false) => rel.push((b, a, false)),
            (Node::Le(a, b), true) => rel.push((a, b, false)),
            (Node::Le(a, b), false) => rel.push((b, a, true)),
            (Node::Eq(a, b), true) => { rel.push((a, b, false)); rel.push((b, a, false)); }
            (Node::Eq(a, b), false) => neq.push((a, b)),
            _ => {}
        }
    }
    for (a, b, _) in &rel { if !ids.contains(a) { ids.push(*a); } if !ids.contains(b) { ids.push(*b); } }
    // constants are ordered among themselves
    let consts: Vec<(Id, f64)> = ids.iter().filter_map(|i| const_val(*i).map(|v| (*i, v))).collect();
    for (i, vi) in &consts { for (j, vj) in &consts { if i != j { if vi < vj { rel.push((*i, *j, true)); } else if vi == vj { rel.push((*i, *j, false)); } } } }
    let n = ids.len();
    if n > 64 { return None; }
    let ix = |i: Id| ids.iter().position(|k| *k == i).unwrap();
    let mut le = vec![vec![false; n]; n];
    let mut lt = vec![vec![false; n]; n];
    for i in 0..n { le[i][i] = true; }
    for (a, b, strict) in &rel { let (i, j) = (ix(*a), ix(*b)); le[i][j] = true; if *strict { lt[i][j] = true; } }
    for k in 0..n { for i in 0..n { for j in 0..n {
        if le[i][k] && le[k][j] { le[i][j] = true; if lt[i][k] || lt[k][j] { lt[i][j] = true; } }
    } } }
    let (i, j) = (ix(x), ix(y));
    let ne = neq.iter().any(|(a, b)| (*a == x && *b == y) || (*a == y && *b == x));
    match kind {
        0 => { if lt[i][j] || (le[i][j] && ne) { Some(true) } else if le[j][i] { Some(false) } else { None } }
        1 => { if le[i][j] { Some(true) } else if lt[j][i] { Some(false) } else { None } }
        _ => { if lt[i][j] || lt[j][i] || ne { Some(false) } else if le[i][j] && le[j][i] { Some(true) } else { None } }
    }
}

pub fn reset_run(script: Vec<bool>) {
    with(|a| {
        a.script = script; a.pos = 0; a.trace.clear(); a.vars.clear(); a.assumes.clear();
        a.ensures.clear(); a.outputs.clear(); a.identical.clear(); a.fresh = 0;
    })
}
pub fn reset_all() { with(|a| { *a = Arena::default(); }); canon_reset(); comm_reset(); }

fn esc(s: &str) -> String { s.replace('\\', "\\\\").replace('"', "\\\"") }

/// JSON of the sub-DAG reachable from `roots`.
pub fn dump_nodes(roots: &[Id]) -> String {
    let mut seen: Vec<Id> = Vec::new();
    let mut mark = std::collections::HashSet::new();
    let mut stack: Vec<Id> = roots.to_vec();
    while let Some(i) = stack.pop() {
        if !mark.insert(i) { continue; }
        seen.push(i);
        use Node::*;
        match node(i) {
            Var(_) | Const(_) | Pi | Tol(_, _) | True | False => {}
            Neg(a) | Abs(a) | Floor(a) | Ceil(a) | Round(a) | Sqrt(a) | Cbrt(a) | Exp(a) | Ln(a) | Sin(a) | Cos(a)
            | Tan(a) | Asin(a) | Acos(a) | Atan(a) | Not(a) => stack.push(a),
            Add(a, b) | Sub(a, b) | Mul(a, b) | Div(a, b) | Min(a, b) | Max(a, b) | Atan2(a, b) | Hypot(a, b)
            | Pow(a, b) | Lt(a, b) | Le(a, b) | Eq(a, b) | And(a, b) | Or(a, b) => { stack.push(a); stack.push(b); }
            Ite(c, a, b) => { stack.push(c); stack.push(a); stack.push(b); }
        }
    }
    seen.sort();
    let mut out = String::from("{");
    for (k, i) in seen.iter().enumerate() {
        if k > 0 { out.push(','); }
        use Node::*;
        let body = match node(*i) {
            Var(n) => format!("[\"var\",\"{}\"]", esc(&n)),
            Const(b) => {
                let v = f64::from_bits(b);
                // exact dyadic rational: mantissa * 2^exp
                let (m, e) = decompose(v);
                format!("[\"const\",\"{}\",{},\"{:e}\"]", m, e, v)
            }
            Pi => "[\"pi\"]".to_string(),
            Tol(r, f) => format!("[\"tol\",\"{:e}\",\"{:e}\"]", f64::from_bits(r), f64::from_bits(f)),
            True => "[\"true\"]".to_string(),
            False => "[\"false\"]".to_string(),
            Neg(a) => format!("[\"neg\",{}]", a), Abs(a) => format!("[\"abs\",{}]", a),
            Floor(a) => format!("[\"floor\",{}]", a), Ceil(a) => format!("[\"ceil\",{}]", a), Round(a) => format!("[\"round\",{}]", a),
            Sqrt(a) => format!("[\"sqrt\",{}]", a), Cbrt(a) => format!("[\"cbrt\",{}]", a), Exp(a) => format!("[\"exp\",{}]", a),
            Ln(a) => format!("[\"ln\",{}]", a), Sin(a) => format!("[\"sin\",{}]", a), Cos(a) => format!("[\"cos\",{}]", a),
            Tan(a) => format!("[\"tan\",{}]", a), Asin(a) => format!("[\"asin\",{}]", a), Acos(a) => format!("[\"acos\",{}]", a),
            Atan(a) => format!("[\"atan\",{}]", a), Not(a) => format!("[\"not\",{}]", a),
            Add(a, b) => format!("[\"add\",{},{}]", a, b), Sub(a, b) => format!("[\"sub\",{},{}]", a, b),
            Mul(a, b) => format!("[\"mul\",{},{}]", a, b), Div(a, b) => format!("[\"div\",{},{}]", a, b),
            Min(a, b) => format!("[\"min\",{},{}]", a, b), Max(a, b) => format!("[\"max\",{},{}]", a, b),
            Atan2(a, b) => format!("[\"atan2\",{},{}]", a, b), Hypot(a, b) => format!("[\"hypot\",{},{}]", a, b),
            Pow(a, b) => format!("[\"pow\",{},{}]", a, b),
            Lt(a, b) => format!("[\"lt\",{},{}]", a, b), Le(a, b) => format!("[\"le\",{},{}]", a, b), Eq(a, b) => format!("[\"eq\",{},{}]", a, b),
            And(a, b) => format!("[\"and\",{},{}]", a, b), Or(a, b) => format!("[\"or\",{},{}]", a, b),
            Ite(c, a, b) => format!("[\"ite\",{},{},{}]", c, a, b),
        };
        out.push_str(&format!("\"{}\":{}", i, body));
    }
    out.push('}');
    out
}

/// v == m * 2^e exactly, m an integer (as decimal string), e an integer
pub fn decompose(v: f64) -> (String, i32) {
    if v == 0.0 { return ("0".to_string(), 0); }
    let bits = v.to_bits();
    let sign = if (bits >> 63) != 0 { -1i128 } else { 1 };
    let exp = ((bits >> 52) & 0x7ff) as i32;
    let frac = (bits & ((1u64 << 52) - 1)) as i128;
    let (mut m, mut e) = if exp == 0 { (frac, -1074) } else { (frac | (1i128 << 52), exp - 1075) };
    while m % 2 == 0 && m != 0 { m /= 2; e += 1; }
    ((sign * m).to_string(), e)
}
