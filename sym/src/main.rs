//! pv_sym: verification-condition generator (engine S).
//!   --list                       programs and their modes
//!   --dump <prog>                one JSON line per (mode, path): variables, path condition, assumptions,
//!                                ensures, identity obligations, outputs, term DAG
//!   --eval <prog> <f64|f32> name=value ...   replay: run the real code concretely on a counterexample
mod lane;
mod logic;
mod num;
mod progs;
mod rnd;
mod specs;
mod term;

use logic::FRUN;
use term::*;

pub struct Prog {
    pub name: &'static str,
    pub prop: &'static str,
    /// functions of /repo under contract
    pub func: &'static str,
    pub desc: &'static str,
    pub tier: &'static str,
    pub run_s: Option<fn()>,
    pub run_v: Option<fn()>,
    pub run_f64: Option<fn()>,
    pub run_f32: Option<fn()>,
}

fn esc(s: &str) -> String { s.replace('\\', "\\\\").replace('"', "\\\"") }

const MAX_PATHS: usize = 20000;

fn dump_run(p: &Prog, mode: &str, path: usize) {
    let (vars, trace, assumes, ensures, identical, outputs) = with(|a| {
        (a.vars.clone(), a.trace.clone(), a.assumes.clone(), a.ensures.clone(), a.identical.clone(), a.outputs.clone())
    });
    let mut roots: Vec<Id> = Vec::new();
    for (_, id, _, _) in &vars { roots.push(*id); }
    for (c, _) in &trace { roots.push(*c); }
    for c in &assumes { roots.push(*c); }
    for (_, c) in &ensures { roots.push(*c); }
    for (_, a, b) in &identical { roots.push(*a); roots.push(*b); }
    for (_, c) in &outputs { roots.push(*c); }
    let nodes = dump_nodes(&roots);
    let vars_j: Vec<String> = vars.iter().map(|(n, id, lo, hi)| format!("[\"{}\",{},{:e},{:e}]", esc(n), id, lo, hi)).collect();
    let pc_j: Vec<String> = trace.iter().map(|(c, o)| format!("[{},{}]", c, o)).collect();
    let as_j: Vec<String> = assumes.iter().map(|c| c.to_string()).collect();
    let en_j: Vec<String> = ensures.iter().map(|(n, c)| format!("[\"{}\",{}]", esc(n), c)).collect();
    let id_j: Vec<String> = identical.iter().map(|(n, a, b)| format!("[\"{}\",{},{}]", esc(n), a, b)).collect();
    let out_j: Vec<String> = outputs.iter().map(|(n, c)| format!("[\"{}\",{}]", esc(n), c)).collect();
    println!("{{\"prog\":\"{}\",\"prop\":\"{}\",\"mode\":\"{}\",\"path\":{},\"vars\":[{}],\"pc\":[{}],\"assumes\":[{}],\"ensures\":[{}],\"identical\":[{}],\"outputs\":[{}],\"nodes\":{}}}",
        p.name, p.prop, mode, path, vars_j.join(","), pc_j.join(","), as_j.join(","), en_j.join(","), id_j.join(","), out_j.join(","), nodes);
}

fn enumerate(p: &Prog, f: fn(), mode: &str) {
    // depth-first enumeration of the decision scripts (binary counter over defaulted decisions).
    // In vector mode decisions only arise in scalar-typed parameter computations (T::Scalar has Mask = bool).
    reset_all();
    let mut script: Vec<bool> = Vec::new();
    let mut n = 0;
    loop {
        reset_run(script.clone());
        f();
        dump_run(p, mode, n);
        n += 1;
        if n >= MAX_PATHS { println!("{{\"prog\":\"{}\",\"error\":\"path limit {} reached\"}}", p.name, MAX_PATHS); break; }
        let mut s: Vec<bool> = with(|a| a.trace.iter().map(|(_, o)| *o).collect());
        while let Some(false) = s.last() { s.pop(); }
        if s.is_empty() { break; }
        let l = s.len();
        s[l - 1] = false;
        script = s;
    }
}

fn dump(p: &Prog) {
    if let Some(f) = p.run_s { enumerate(p, f, "S"); }
    if let Some(f) = p.run_v { enumerate(p, f, "V"); }
}

fn eval(p: &Prog, ty: &str, args: &[String]) {
    FRUN.with(|r| {
        let mut r = r.borrow_mut();
        *r = Default::default();
        for a in args {
            if let Some((k, v)) = a.split_once('=') { r.inputs.insert(k.to_string(), v.parse::<f64>().expect("value")); }
        }
    });
    let f = if ty == "f32" { p.run_f32 } else { p.run_f64 };
    match f {
        Some(f) => {
            let res = std::panic::catch_unwind(f);
            FRUN.with(|r| {
                let r = r.borrow();
                if !r.missing.is_empty() { println!("MISSING {}", r.missing.join(",")); }
                if r.assume_failed { println!("ASSUME-FAILED"); }
                for (n, v) in &r.outputs { println!("OUTPUT {} {:e}", n, v); }
                for (n, ok) in &r.results { println!("ENSURE {} {}", n, if *ok { "holds" } else { "VIOLATED" }); }
            });
            if res.is_err() { println!("PANIC the real code panicked on this input"); }
        }
        None => println!("NO-CONCRETE-INSTANTIATION"),
    }
}

fn main() {
    let args: Vec<String> = std::env::args().collect();
    let progs = progs::all();
    if args.len() >= 2 && args[1] == "--list" {
        for p in &progs {
            println!("{{\"prog\":\"{}\",\"prop\":\"{}\",\"tier\":\"{}\",\"func\":\"{}\",\"desc\":\"{}\",\"modes\":\"{}{}\",\"replay\":{}}}",
                p.name, p.prop, p.tier, esc(p.func), esc(p.desc),
                if p.run_s.is_some() { "S" } else { "" }, if p.run_v.is_some() { "V" } else { "" }, p.run_f64.is_some());
        }
        return;
    }
    if args.len() >= 3 && args[1] == "--dump" {
        std::panic::set_hook(Box::new(|i| { eprintln!("panic while extracting: {}", i); }));
        for p in &progs {
            if p.name == args[2] || args[2] == "all" || (args[2].ends_with('*') && p.name.starts_with(args[2].trim_end_matches('*'))) {
                let r = std::panic::catch_unwind(|| dump(p));
                if r.is_err() { println!("{{\"prog\":\"{}\",\"error\":\"extraction panicked\"}}", p.name); }
            }
        }
        return;
    }
    if args.len() >= 3 && args[1] == "--vars" {
        // the variables (name, lo, hi) a program declares, from one native run with defaulted inputs
        std::panic::set_hook(Box::new(|_| {}));
        if let Some(p) = progs.iter().find(|p| p.name == args[2]) {
            if let Some(f) = p.run_f64 {
                FRUN.with(|r| *r.borrow_mut() = Default::default());
                let _ = std::panic::catch_unwind(f);
                FRUN.with(|r| for (n, lo, hi) in &r.borrow().declared { println!("VAR {} {:e} {:e}", n, lo, hi); });
            }
        }
        return;
    }
    if args.len() >= 4 && args[1] == "--eval-batch" {
        // one input per stdin line ("name=value name=value ..."); prints "R <line index> <violated ensures|->" (replay side, real code)
        std::panic::set_hook(Box::new(|_| {}));
        let p = match progs.iter().find(|p| p.name == args[2]) { Some(p) => p, None => { println!("UNKNOWN-PROGRAM"); return; } };
        let f = if args[3] == "f32" { p.run_f32 } else { p.run_f64 };
        let f = match f { Some(f) => f, None => { println!("NO-CONCRETE-INSTANTIATION"); return; } };
        use std::io::BufRead;
        for (i, line) in std::io::stdin().lock().lines().enumerate() {
            let line = match line { Ok(l) => l, Err(_) => break };
            FRUN.with(|r| {
                let mut r = r.borrow_mut();
                *r = Default::default();
                for a in line.split_whitespace() { if let Some((k, v)) = a.split_once('=') { if let Ok(v) = v.parse::<f64>() { r.inputs.insert(k.to_string(), v); } } }
            });
            let res = std::panic::catch_unwind(f);
            FRUN.with(|r| {
                let r = r.borrow();
                if r.assume_failed || !r.missing.is_empty() { println!("R {} skip", i); return; }
                let mut bad: Vec<String> = r.results.iter().filter(|(_, ok)| !*ok).map(|(n, _)| n.clone()).collect();
                if res.is_err() { bad.push("PANIC".to_string()); }
                println!("R {} {}", i, if bad.is_empty() { "-".to_string() } else { bad.join(",") });
            });
        }
        return;
    }
    if args.len() >= 4 && args[1] == "--eval" {
        std::panic::set_hook(Box::new(|_| {}));
        for p in &progs { if p.name == args[2] { eval(p, &args[3], &args[4..]); return; } }
        println!("UNKNOWN-PROGRAM");
        return;
    }
    eprintln!("usage: pv_sym --list | --dump <prog|prefix*|all> | --eval <prog> <f64|f32> name=value ...");
    std::process::exit(2);
}
