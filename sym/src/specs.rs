//! Independent specification functions, transcribed from the publications (not from palette's code).
#![allow(dead_code)]
use crate::logic::*;

// ---- CIE 15: L*a*b*, L*u*v* ----
/// f(t) = t^(1/3) if t > (6/29)^3 else t * 841/108 + 4/29
pub fn cie_f<T: Num>(t: T) -> T {
    let eps = T::k(216.0 / 24389.0);
    T::ite(&T::p_lt(&eps, &t), t.cbrt(), t * T::k(841.0 / 108.0) + T::k(4.0 / 29.0))
}
/// inverse: t = f^3 if f > 6/29 else (f - 4/29) * 108/841
pub fn cie_f_inv<T: Num>(f: T) -> T {
    let d = T::k(6.0 / 29.0);
    T::ite(&T::p_lt(&d, &f), f * f * f, (f - T::k(4.0 / 29.0)) * T::k(108.0 / 841.0))
}
pub fn xyz_to_lab<T: Num>(x: T, y: T, z: T, w: (f64, f64, f64)) -> (T, T, T) {
    let (fx, fy, fz) = (cie_f(x / T::k(w.0)), cie_f(y / T::k(w.1)), cie_f(z / T::k(w.2)));
    (T::k(116.0) * fy - T::k(16.0), T::k(500.0) * (fx - fy), T::k(200.0) * (fy - fz))
}
pub fn lab_to_xyz<T: Num>(l: T, a: T, b: T, w: (f64, f64, f64)) -> (T, T, T) {
    let fy = (l + T::k(16.0)) / T::k(116.0);
    let fx = fy + a / T::k(500.0);
    let fz = fy - b / T::k(200.0);
    (T::k(w.0) * cie_f_inv(fx), T::k(w.1) * cie_f_inv(fy), T::k(w.2) * cie_f_inv(fz))
}
/// CIE 1976 L*u*v* (y > 0): L* as for Lab (with t^(1/3) written as the power the code uses), u* = 13 L* (u' - u'n)
pub fn xyz_to_luv<T: Num>(x: T, y: T, z: T, w: (f64, f64, f64)) -> (T, T, T) {
    let yr = y / T::k(w.1);
    let eps = T::k(216.0 / 24389.0);
    let l = T::ite(&T::p_lt(&eps, &yr), T::k(116.0) * palette::num::Powf::powf(yr, T::k(1.0 / 3.0)) - T::k(16.0), T::k(24389.0 / 27.0) * yr);
    let d = x + T::k(15.0) * y + T::k(3.0) * z;
    let dn = w.0 + 15.0 * w.1 + 3.0 * w.2;
    let (up, vp) = (T::k(4.0) * x / d, T::k(9.0) * y / d);
    let (un, vn) = (T::k(4.0 * w.0 / dn), T::k(9.0 * w.1 / dn));
    (l, T::k(13.0) * l * (up - un), T::k(13.0) * l * (vp - vn))
}

// ---- transfer functions (linear -> encoded and back) ----
pub fn srgb_encode<T: Num>(x: T) -> T {
    T::ite(&T::p_le(&x, &T::k(0.0031308)), T::k(12.92) * x, T::k(1.055) * palette::num::Powf::powf(x, T::k(1.0 / 2.4)) - T::k(0.055))
}
pub fn srgb_decode<T: Num>(v: T) -> T {
    T::ite(&T::p_le(&v, &T::k(0.04045)), v / T::k(12.92), palette::num::Powf::powf((v + T::k(0.055)) / T::k(1.055), T::k(2.4)))
}

// ---- hexcone models (Smith 1978; HWB: Smith & Lyons 1996) ----
pub fn max3<T: Num>(a: T, b: T, c: T) -> T { let m = T::ite(&T::p_le(&a, &b), b, a); T::ite(&T::p_le(&m, &c), c, m) }
pub fn min3<T: Num>(a: T, b: T, c: T) -> T { let m = T::ite(&T::p_le(&a, &b), a, b); T::ite(&T::p_le(&m, &c), m, c) }
/// hue in degrees as an un-normalised sextant formula; defined for max != min
pub fn hex_hue<T: Num>(r: T, g: T, b: T) -> T {
    let (mx, mn) = (max3(r, g, b), min3(r, g, b));
    let c = mx - mn;
    let hr = (g - b) / c;
    let hg = (b - r) / c + T::k(2.0);
    let hb = (r - g) / c + T::k(4.0);
    T::k(60.0) * T::ite(&T::p_eq(&mx, &r), hr, T::ite(&T::p_eq(&mx, &g), hg, hb))
}

// ---- Oklab (Ottosson 2020), XYZ D65 -> Oklab ----
pub const OK_M1: [[f64; 3]; 3] = [
    [0.8189330101, 0.3618667424, -0.1288597137],
    [0.0329845436, 0.9293118715, 0.0361456387],
    [0.0482003018, 0.2643662691, 0.6338517070],
];
pub const OK_M2: [[f64; 3]; 3] = [
    [0.2104542553, 0.7936177850, -0.0040720468],
    [1.9779984951, -2.4285922050, 0.4505937099],
    [0.0259040371, 0.7827717662, -0.8086757660],
];
pub fn mat_vec<T: Num>(m: &[[f64; 3]; 3], v: (T, T, T)) -> (T, T, T) {
    (T::k(m[0][0]) * v.0 + T::k(m[0][1]) * v.1 + T::k(m[0][2]) * v.2,
     T::k(m[1][0]) * v.0 + T::k(m[1][1]) * v.1 + T::k(m[1][2]) * v.2,
     T::k(m[2][0]) * v.0 + T::k(m[2][1]) * v.1 + T::k(m[2][2]) * v.2)
}
pub fn xyz_to_oklab<T: Num>(x: T, y: T, z: T) -> (T, T, T) {
    let (l, m, s) = mat_vec(&OK_M1, (x, y, z));
    mat_vec(&OK_M2, (l.cbrt(), m.cbrt(), s.cbrt()))
}

// ---- RGB <-> XYZ matrix from the published primaries (xy) and white point (XYZ, Y = 1) ----
/// returns M with XYZ = M * RGB, computed with T arithmetic (exact over the reals)
pub fn rgb_to_xyz_matrix<T: Num>(prim: [(f64, f64); 3], w: (f64, f64, f64)) -> [[T; 3]; 3] {
    // columns P_i = (x_i/y_i, 1, (1-x_i-y_i)/y_i); solve P * s = W by Cramer's rule
    let p = |i: usize| -> (T, T, T) { let (x, y) = prim[i]; (T::k(x) / T::k(y), T::k(1.0), (T::k(1.0) - T::k(x) - T::k(y)) / T::k(y)) };
    let (a, b, c) = (p(0), p(1), p(2));
    let det3 = |u: (T, T, T), v: (T, T, T), t: (T, T, T)| -> T {
        u.0 * (v.1 * t.2 - t.1 * v.2) - v.0 * (u.1 * t.2 - t.1 * u.2) + t.0 * (u.1 * v.2 - v.1 * u.2)
    };
    let wv = (T::k(w.0), T::k(w.1), T::k(w.2));
    let d = det3(a, b, c);
    let (sr, sg, sb) = (det3(wv, b, c) / d, det3(a, wv, c) / d, det3(a, b, wv) / d);
    [[a.0 * sr, b.0 * sg, c.0 * sb], [a.1 * sr, b.1 * sg, c.1 * sb], [a.2 * sr, b.2 * sg, c.2 * sb]]
}
pub const SRGB_PRIM: [(f64, f64); 3] = [(0.64, 0.33), (0.30, 0.60), (0.15, 0.06)];
pub const ADOBE_PRIM: [(f64, f64); 3] = [(0.64, 0.33), (0.21, 0.71), (0.15, 0.06)];
pub const REC2020_PRIM: [(f64, f64); 3] = [(0.708, 0.292), (0.170, 0.797), (0.131, 0.046)];
pub const P3_PRIM: [(f64, f64); 3] = [(0.680, 0.320), (0.265, 0.690), (0.150, 0.060)];
pub const PROPHOTO_PRIM: [(f64, f64); 3] = [(0.7347, 0.2653), (0.1596, 0.8404), (0.0366, 0.0001)];
pub const W_D65: (f64, f64, f64) = (0.95047, 1.0, 1.08883);
pub const W_D50: (f64, f64, f64) = (0.96422, 1.0, 0.82521);

/// Ottosson's Oklab from LINEAR sRGB (blog post, revision of 2021-01-25)
pub const OK_SRGB_M1: [[f64; 3]; 3] = [
    [0.4122214708, 0.5363325363, 0.0514459929],
    [0.2119034982, 0.6806995451, 0.1073969566],
    [0.0883024619, 0.2817188376, 0.6299787005],
];
pub fn linear_srgb_to_oklab<T: Num>(r: T, g: T, b: T) -> (T, T, T) {
    let (l, m, s) = mat_vec(&OK_SRGB_M1, (r, g, b));
    mat_vec(&OK_M2, (l.cbrt(), m.cbrt(), s.cbrt()))
}

// ---- further transfer functions (published constants) ----
/// ITU-R BT.709 / BT.2020 OETF: V = 4.5 L for L < beta, alpha L^0.45 - (alpha - 1) otherwise
pub const REC_ALPHA: f64 = 1.09929682680944;
pub const REC_BETA: f64 = 0.018053968510807;
pub fn rec_encode<T: Num>(l: T) -> T {
    T::ite(&T::p_lt(&l, &T::k(REC_BETA)), T::k(4.5) * l, T::k(REC_ALPHA) * palette::num::Powf::powf(l, T::k(0.45)) - T::k(REC_ALPHA - 1.0))
}
pub fn rec_decode<T: Num>(v: T) -> T {
    T::ite(&T::p_lt(&v, &T::k(4.5 * REC_BETA)), v / T::k(4.5), palette::num::Powf::powf(v * T::k(1.0 / REC_ALPHA) + T::k(1.0 - 1.0 / REC_ALPHA), T::k(1.0 / 0.45)))   // (v + alpha - 1) / alpha, written with the reciprocal so that the rounded constants coincide
}
/// Adobe RGB (1998): pure power 563/256
pub fn adobe_encode<T: Num>(l: T) -> T { palette::num::Powf::powf(l, T::k(256.0 / 563.0)) }
pub fn adobe_decode<T: Num>(v: T) -> T { palette::num::Powf::powf(v, T::k(563.0 / 256.0)) }
/// DCI-P3: pure power 2.6
pub fn p3_gamma_encode<T: Num>(l: T) -> T { palette::num::Powf::powf(l, T::k(1.0 / 2.6)) }
pub fn p3_gamma_decode<T: Num>(v: T) -> T { palette::num::Powf::powf(v, T::k(2.6)) }
/// ROMM / ProPhoto RGB: 16 L below Et = 1/512, L^(1/1.8) above
pub fn prophoto_encode<T: Num>(l: T) -> T {
    T::ite(&T::p_lt(&l, &T::k(1.0 / 512.0)), T::k(16.0) * l, palette::num::Powf::powf(l, T::k(1.0 / 1.8)))
}
pub fn prophoto_decode<T: Num>(v: T) -> T {
    T::ite(&T::p_lt(&v, &T::k(16.0 / 512.0)), v / T::k(16.0), palette::num::Powf::powf(v, T::k(1.8)))
}

// ---- CIEDE2000: Sharma, Wu, Dalal (2005), eqs. (2)-(22), kL = kC = kH = 1 ----
/// The case analyses (h', delta h', mean hue) are Sharma's, decided with the component type's own comparisons so that
/// every combination of cases is a separate path of the contract program; the arithmetic is transcribed formula by
/// formula (operand order as in the usual statement of the equations).
pub fn ciede2000_sharma<T>(l1: T, a1: T, b1: T, l2: T, a2: T, b2: T) -> T
where T: Num + palette::bool_mask::HasBoolMask<Mask = bool> {
    use palette::num::{Abs, Exp, Hypot, PartialCmp, Sqrt, Trigonometry};
    let k = |v: f64| T::k(v);
    let rad = k(std::f64::consts::PI / 180.0);
    let p25_7 = k(6103515625.0);
    // (2),(3) C*ab and its mean
    let (c1, c2) = (a1.hypot(b1), a2.hypot(b2));
    let cb = (c1 + c2) / k(2.0);
    let cb7 = palette::num::Powi::powi(cb, 7);
    // (4) G
    let g = k(0.5) * (k(1.0) - (cb7 / (cb7 + p25_7)).sqrt());
    // (5),(6) a', C'
    let (a1p, a2p) = (a1 * (k(1.0) + g), a2 * (k(1.0) + g));
    let (c1p, c2p) = ((a1p * a1p + b1 * b1).sqrt(), (a2p * a2p + b2 * b2).sqrt());
    // (7) h' in [0, 360), 0 when b = a' = 0
    let hp = |b: T, ap: T| -> T {
        if PartialCmp::eq(&b, &k(0.0)) && PartialCmp::eq(&ap, &k(0.0)) { return k(0.0); }
        let r = palette::angle::RealAngle::radians_to_degrees(b.atan2(ap));
        if PartialCmp::lt(&r, &k(0.0)) { r + k(360.0) } else { r }
    };
    let (h1, h2) = (hp(b1, a1p), hp(b2, a2p));
    // (10) delta h'
    let d = h2 - h1;
    let achromatic = PartialCmp::eq(&c1p, &k(0.0)) || PartialCmp::eq(&c2p, &k(0.0));
    let within = PartialCmp::lt_eq(&d.abs(), &k(180.0));
    let dh = if achromatic { k(0.0) } else if within { d } else if PartialCmp::gt(&d, &k(180.0)) { d - k(360.0) } else { d + k(360.0) };
    // (11) delta H'
    let dbh = k(2.0) * (c1p * c2p).sqrt() * (dh / k(2.0) * rad).sin();
    // (14) mean hue
    let s = h1 + h2;
    let hb = if achromatic { s } else if within { s / k(2.0) } else if PartialCmp::lt(&s, &k(360.0)) { (s + k(360.0)) / k(2.0) } else { (s - k(360.0)) / k(2.0) };
    // (12),(13)
    let lb = (l1 + l2) / k(2.0);
    let cbp = (c1p + c2p) / k(2.0);
    // (15) T
    let t = k(1.0) - k(0.17) * ((hb - k(30.0)) * rad).cos() + k(0.24) * ((hb * k(2.0)) * rad).cos()
        + k(0.32) * ((hb * k(3.0) + k(6.0)) * rad).cos() - k(0.20) * ((hb * k(4.0) - k(63.0)) * rad).cos();
    // (16)-(21)
    let sl = k(1.0) + ((k(0.015) * (lb - k(50.0)) * (lb - k(50.0))) / ((lb - k(50.0)) * (lb - k(50.0)) + k(20.0)).sqrt());
    let sc = k(1.0) + k(0.045) * cbp;
    let sh = k(1.0) + k(0.015) * cbp * t;
    let dtheta = k(30.0) * (-(((hb - k(275.0)) / k(25.0)) * ((hb - k(275.0)) / k(25.0)))).exp();
    let cbp7 = palette::num::Powi::powi(cbp, 7);
    let rc = k(2.0) * (cbp7 / (cbp7 + p25_7)).sqrt();
    let rt = -rc * (k(2.0) * dtheta * rad).sin();
    // (22) with kL = kC = kH = 1
    let (kl, kc, kh) = (k(1.0), k(1.0), k(1.0));
    let (dl, dc) = (l2 - l1, c2p - c1p);
    ((dl / (kl * sl)) * (dl / (kl * sl)) + (dc / (kc * sc)) * (dc / (kc * sc)) + (dbh / (kh * sh)) * (dbh / (kh * sh))
        + (rt * dc * dbh) / (kc * sc * kh * sh)).sqrt()
}

// ---- CAM16 forward model: Li, Li, Wang, Zu, Luo, Cui, Melgosa, Brill, Pointer (2017), with XYZ on a 0..100 scale ----
/// xyz, white on the 0..1 scale (as palette stores them); la = adapting luminance, yb = background luminance factor (0..1),
/// surround = (c, F, N_c); D computed by the default formula. -> (J, C, h, Q, M, s)
pub struct Cam16Spec<T> { pub ra: T, pub ga: T, pub ba: T, pub a: T, pub b: T, pub h_rad: T, pub h: T, pub et: T, pub big_a: T, pub aw: T, pub t: T, pub j: T, pub c: T, pub q: T, pub m: T, pub s: T, pub fl: T, pub nbb: T, pub z: T, pub n: T, pub d: T }
pub fn cam16_forward<T: Num>(xyz: (T, T, T), white: (f64, f64, f64), la: T, yb: f64, surround: (f64, f64, f64)) -> (T, T, T, T, T, T) {
    let r = cam16_forward_cie(xyz, white, la, yb, surround);
    (r.j, r.c, r.h, r.q, r.m, r.s)
}
/// Viewing-condition dependent quantities of CAM16 (step 0 of the published model).
#[derive(Clone, Copy)]
pub struct Cam16Vc<T> { pub d_rgb: [T; 3], pub fl: T, pub fl4: T, pub n: T, pub nbb: T, pub ncb: T, pub nc: T, pub aw: T, pub c: T, pub z: T, pub d: T }
/// Step 0 of the published model (Li et al. 2017 / CIE 248:2022): white on the 0..1 scale, la = adapting luminance,
/// yb = background luminance factor (0..1), surround = (c, F, N_c); D by the default formula, clamped to [0, 1].
pub fn cam16_viewing_conditions<T: Num>(white: (f64, f64, f64), la: T, yb: f64, surround: (f64, f64, f64)) -> Cam16Vc<T> {
    use palette::num::{Exp, Powf, Sqrt};
    let k = |v: f64| T::k(v);
    let (c, f, nc) = surround;
    let (xw, yw, zw) = (k(white.0) * k(100.0), k(white.1) * k(100.0), k(white.2) * k(100.0));
    let (rw, gw, bw) = cam16_m16(xw, yw, zw);
    let d0 = k(f) * (k(1.0) - k(1.0) / k(3.6) * ((-la - k(42.0)) / k(92.0)).exp());
    let d = T::ite(&T::p_le(&d0, &k(0.0)), k(0.0), T::ite(&T::p_le(&k(1.0), &d0), k(1.0), d0));
    let dr = |cw: T| d * yw / cw + k(1.0) - d;
    let d_rgb = [dr(rw), dr(gw), dr(bw)];
    let kk = k(1.0) / (k(5.0) * la + k(1.0));
    let k4 = kk * kk * kk * kk;
    let fl = k(0.2) * k4 * (k(5.0) * la) + k(0.1) * (k(1.0) - k4) * (k(1.0) - k4) * (k(5.0) * la).powf(k(1.0) / k(3.0));
    let n = k(yb) * k(100.0) / yw;
    let z = k(1.48) + n.sqrt();
    // N_bb = 0.725 (1/n)^0.2, written with the negative exponent
    let nbb = k(0.725) * n.powf(k(-0.2));
    let fl4 = fl.powf(k(0.25));
    let (raw, gaw, baw) = (cam16_adapt(fl, d_rgb[0] * rw), cam16_adapt(fl, d_rgb[1] * gw), cam16_adapt(fl, d_rgb[2] * bw));
    let aw = (k(2.0) * raw + gaw + baw / k(20.0) - k(0.305)) * nbb;
    Cam16Vc { d_rgb, fl, fl4, n, nbb, ncb: nbb, nc: k(nc), aw, c: k(c), z, d }
}
pub fn cam16_m16<T: Num>(x: T, y: T, z: T) -> (T, T, T) {
    let k = |v: f64| T::k(v);
    (k(0.401288) * x + k(0.650173) * y - k(0.051461) * z,
     k(-0.250268) * x + k(1.204414) * y + k(0.045854) * z,
     k(-0.002079) * x + k(0.048952) * y + k(0.953127) * z)
}
/// post-adaptation cone response: 400 sign(x) (F_L |x| / 100)^0.42 / ((F_L |x| / 100)^0.42 + 27.13) + 0.1
pub fn cam16_adapt<T: Num>(fl: T, x: T) -> T {
    use palette::num::Powf;
    let k = |v: f64| T::k(v);
    let ax = T::ite(&T::p_le(&k(0.0), &x), x, -x);
    let p = (fl * ax / k(100.0)).powf(k(0.42));
    let v = k(400.0) * p / (p + k(27.13));
    T::ite(&T::p_le(&k(0.0), &x), v, -v) + k(0.1)
}
/// The published forward model, step by step (Li et al. 2017 / CIE 248:2022, steps 0-7), intermediates included.
/// e_t is evaluated on the radian hue angle atan2(b, a): the publication's cos(h * pi/180 + 2) with h = that angle in degrees
/// normalised to [0, 360) is the same number (cos has period 2 pi).
pub fn cam16_forward_cie<T: Num>(xyz: (T, T, T), white: (f64, f64, f64), la: T, yb: f64, surround: (f64, f64, f64)) -> Cam16Spec<T> {
    cam16_forward_cie_with(xyz, cam16_viewing_conditions(white, la, yb, surround))
}
/// Steps 1-7 for given viewing-condition quantities.
pub fn cam16_forward_cie_with<T: Num>(xyz: (T, T, T), vc: Cam16Vc<T>) -> Cam16Spec<T> {
    use palette::angle::RealAngle;
    use palette::num::{Powf, Sqrt, Trigonometry};
    let k = |v: f64| T::k(v);
    let Cam16Vc { d_rgb, fl, fl4, n, nbb, ncb, nc, aw, c, z, d } = vc;
    let (r, g, b) = cam16_m16(xyz.0 * k(100.0), xyz.1 * k(100.0), xyz.2 * k(100.0));
    let (ra, ga, ba) = (cam16_adapt(fl, d_rgb[0] * r), cam16_adapt(fl, d_rgb[1] * g), cam16_adapt(fl, d_rgb[2] * b));
    let a = ra - k(12.0) * ga / k(11.0) + ba / k(11.0);
    let bb = (ra + ga - k(2.0) * ba) / k(9.0);
    let h_rad = bb.atan2(a);
    let h0 = RealAngle::radians_to_degrees(h_rad);
    let h = T::ite(&T::p_lt(&h0, &k(0.0)), h0 + k(360.0), h0);
    let et = k(0.25) * ((h_rad + k(2.0)).cos() + k(3.8));
    let big_a = (k(2.0) * ra + ga + ba / k(20.0) - k(0.305)) * nbb;
    let j = k(100.0) * (big_a / aw).powf(c * z);
    let q = k(4.0) / c * (j / k(100.0)).sqrt() * (aw + k(4.0)) * fl4;
    let t = (k(50000.0) / k(13.0) * nc * ncb * et * (a * a + bb * bb).sqrt()) / (ra + ga + k(21.0) * ba / k(20.0));
    let cc = t.powf(k(0.9)) * (j / k(100.0)).sqrt() * (k(1.64) - k(0.29).powf(n)).powf(k(0.73));
    let m = cc * fl4;
    let s = k(100.0) * (m / q).sqrt();
    Cam16Spec { ra, ga, ba, a, b: bb, h_rad, h, et, big_a, aw, t, j, c: cc, q, m, s, fl, nbb, z, n, d }
}

// ---- Ottosson: Okhsl / Okhsv and the sRGB gamut helpers (ok_color.h, "Okhsv and Okhsl", 2021) ----
/// Transcription of Björn Ottosson's reference implementation (ok_color.h: compute_max_saturation, find_cusp,
/// find_gamut_intersection, to_ST, get_ST_mid, get_Cs, toe, toe_inv, okhsl_to_srgb / srgb_to_okhsl,
/// okhsv_to_srgb / srgb_to_okhsv, up to the Oklab side of each). Constants, signs, branch conditions and operand
/// roles are the reference's; comparisons use the component type's own operators so that in scalar symbolic mode every
/// case of the reference is a path. Hues are taken as the angle atan2(b, a) (the reference's 0.5 + 0.5 atan2(-b, -a)/pi
/// is the same angle in turns).
pub mod ok {
    use crate::logic::*;
    use palette::bool_mask::HasBoolMask;
    use palette::num::{Cbrt, MinMax, Sqrt};
    pub trait N: Num + HasBoolMask<Mask = bool> + PartialOrd {}
    impl<T: Num + HasBoolMask<Mask = bool> + PartialOrd> N for T {}

    pub fn oklab_to_linear_srgb<T: N>(l: T, a: T, b: T) -> (T, T, T) {
        let k = |v: f64| T::k(v);
        let l_ = l + k(0.3963377774) * a + k(0.2158037573) * b;
        let m_ = l - k(0.1055613458) * a - k(0.0638541728) * b;
        let s_ = l - k(0.0894841775) * a - k(1.2914855480) * b;
        let (l, m, s) = (l_ * l_ * l_, m_ * m_ * m_, s_ * s_ * s_);
        (k(4.0767416621) * l - k(3.3077115913) * m + k(0.2309699292) * s,
         k(-1.2684380046) * l + k(2.6097574011) * m - k(0.3413193965) * s,
         k(-0.0041960863) * l - k(0.7034186147) * m + k(1.7076147010) * s)
    }
    pub fn compute_max_saturation<T: N>(a: T, b: T) -> T {
        let k = |v: f64| T::k(v);
        let (k0, k1, k2, k3, k4, wl, wm, ws) = if k(-1.88170328) * a - k(0.80936493) * b > k(1.0) {
            (k(1.19086277), k(1.76576728), k(0.59662641), k(0.75515197), k(0.56771245), k(4.0767416621), k(-3.3077115913), k(0.2309699292))
        } else if k(1.81444104) * a - k(1.19445276) * b > k(1.0) {
            (k(0.73956515), k(-0.45954404), k(0.08285427), k(0.12541070), k(0.14503204), k(-1.2684380046), k(2.6097574011), k(-0.3413193965))
        } else {
            (k(1.35733652), k(-0.00915799), k(-1.15130210), k(-0.50559606), k(0.00692167), k(-0.0041960863), k(-0.7034186147), k(1.7076147010))
        };
        let s = k0 + k1 * a + k2 * b + k3 * a * a + k4 * a * b;
        let k_l = k(0.3963377774) * a + k(0.2158037573) * b;
        let k_m = k(-0.1055613458) * a - k(0.0638541728) * b;
        let k_s = k(-0.0894841775) * a - k(1.2914855480) * b;
        let (l_, m_, s_) = (k(1.0) + s * k_l, k(1.0) + s * k_m, k(1.0) + s * k_s);
        let (l, m, s3) = (l_ * l_ * l_, m_ * m_ * m_, s_ * s_ * s_);
        let (l_ds, m_ds, s_ds) = (k(3.0) * k_l * l_ * l_, k(3.0) * k_m * m_ * m_, k(3.0) * k_s * s_ * s_);
        let (l_ds2, m_ds2, s_ds2) = (k(6.0) * k_l * k_l * l_, k(6.0) * k_m * k_m * m_, k(6.0) * k_s * k_s * s_);
        let f = wl * l + wm * m + ws * s3;
        let f1 = wl * l_ds + wm * m_ds + ws * s_ds;
        let f2 = wl * l_ds2 + wm * m_ds2 + ws * s_ds2;
        s - f * f1 / (f1 * f1 - k(0.5) * f * f2)
    }
    /// -> (L_cusp, C_cusp)
    pub fn find_cusp<T: N>(a: T, b: T) -> (T, T) {
        let s_cusp = compute_max_saturation(a, b);
        let (r, g, bl) = oklab_to_linear_srgb(T::k(1.0), s_cusp * a, s_cusp * b);
        let l_cusp = (T::k(1.0) / MinMax::max(MinMax::max(r, g), bl)).cbrt();
        (l_cusp, l_cusp * s_cusp)
    }
    pub fn find_gamut_intersection<T: N>(a: T, b: T, l1: T, c1: T, l0: T, cusp: (T, T)) -> T {
        let k = |v: f64| T::k(v);
        let (cl, cc) = cusp;
        if ((l1 - l0) * cc - (cl - l0) * c1) <= k(0.0) {
            // lower half
            cc * l0 / (c1 * cl + cc * (l0 - l1))
        } else {
            // upper half: first intersect with the triangle, then one step of Halley's method
            let t = cc * (l0 - k(1.0)) / (c1 * (cl - k(1.0)) + cc * (l0 - l1));
            let (dl, dc) = (l1 - l0, c1);
            let k_l = k(0.3963377774) * a + k(0.2158037573) * b;
            let k_m = k(-0.1055613458) * a - k(0.0638541728) * b;
            let k_s = k(-0.0894841775) * a - k(1.2914855480) * b;
            let (l_dt, m_dt, s_dt) = (dl + dc * k_l, dl + dc * k_m, dl + dc * k_s);
            let lg = l0 * (k(1.0) - t) + t * l1;
            let c = t * c1;
            let (l_, m_, s_) = (lg + c * k_l, lg + c * k_m, lg + c * k_s);
            let (l, m, s) = (l_ * l_ * l_, m_ * m_ * m_, s_ * s_ * s_);
            let (ldt, mdt, sdt) = (k(3.0) * l_dt * l_ * l_, k(3.0) * m_dt * m_ * m_, k(3.0) * s_dt * s_ * s_);
            let (ldt2, mdt2, sdt2) = (k(6.0) * l_dt * l_dt * l_, k(6.0) * m_dt * m_dt * m_, k(6.0) * s_dt * s_dt * s_);
            let halley = |w: (f64, f64, f64)| -> T {
                let f = k(w.0) * l + k(w.1) * m + k(w.2) * s - k(1.0);
                let f1 = k(w.0) * ldt + k(w.1) * mdt + k(w.2) * sdt;
                let f2 = k(w.0) * ldt2 + k(w.1) * mdt2 + k(w.2) * sdt2;
                let u = f1 / (f1 * f1 - k(0.5) * f * f2);
                let step = -f * u;
                if u >= k(0.0) { step } else { k(10e5) }
            };
            let t_r = halley((4.0767416621, -3.3077115913, 0.2309699292));
            let t_g = halley((-1.2684380046, 2.6097574011, -0.3413193965));
            let t_b = halley((-0.0041960863, -0.7034186147, 1.7076147010));
            t + MinMax::min(t_r, MinMax::min(t_g, t_b))
        }
    }
    pub fn to_st<T: N>(cusp: (T, T)) -> (T, T) { (cusp.1 / cusp.0, cusp.1 / (T::k(1.0) - cusp.0)) }
    pub fn get_st_mid<T: N>(a: T, b: T) -> (T, T) {
        let k = |v: f64| T::k(v);
        let s = k(0.11516993) + k(1.0) / (k(7.44778970) + k(4.15901240) * b
            + a * (k(-2.19557347) + k(1.75198401) * b + a * (k(-2.13704948) - k(10.02301043) * b
            + a * (k(-4.24894561) + k(5.38770819) * b + k(4.69891013) * a))));
        let t = k(0.11239642) + k(1.0) / (k(1.61320320) - k(0.68124379) * b
            + a * (k(0.40370612) + k(0.90148123) * b + a * (k(-0.27087943) + k(0.61223990) * b
            + a * (k(0.00299215) - k(0.45399568) * b - k(0.14661872) * a))));
        (s, t)
    }
    /// -> (C_0, C_mid, C_max)
    pub fn get_cs<T: N>(l: T, a: T, b: T) -> (T, T, T) {
        let k = |v: f64| T::k(v);
        let cusp = find_cusp(a, b);
        let c_max = find_gamut_intersection(a, b, l, k(1.0), l, cusp);
        let st_max = to_st(cusp);
        let kk = c_max / MinMax::min(l * st_max.0, (k(1.0) - l) * st_max.1);
        let st_mid = get_st_mid(a, b);
        let (c_a, c_b) = (l * st_mid.0, (k(1.0) - l) * st_mid.1);
        let c_mid = k(0.9) * kk * (k(1.0) / (k(1.0) / (c_a * c_a * c_a * c_a) + k(1.0) / (c_b * c_b * c_b * c_b))).sqrt().sqrt();
        let (c_a, c_b) = (l * k(0.4), (k(1.0) - l) * k(0.8));
        let c_0 = (k(1.0) / (k(1.0) / (c_a * c_a) + k(1.0) / (c_b * c_b))).sqrt();
        (c_0, c_mid, c_max)
    }
    pub fn toe<T: N>(x: T) -> T {
        let k = |v: f64| T::k(v);
        let (k_1, k_2) = (k(0.206), k(0.03));
        let k_3 = (k(1.0) + k_1) / (k(1.0) + k_2);
        k(0.5) * (k_3 * x - k_1 + ((k_3 * x - k_1) * (k_3 * x - k_1) + k(4.0) * k_2 * k_3 * x).sqrt())
    }
    pub fn toe_inv<T: N>(x: T) -> T {
        let k = |v: f64| T::k(v);
        let (k_1, k_2) = (k(0.206), k(0.03));
        let k_3 = (k(1.0) + k_1) / (k(1.0) + k_2);
        (x * x + k_1 * x) / (k_3 * (x + k_2))
    }
    /// okhsl_to_srgb up to Oklab, 0 < l < 1; (a_, b_) is the unit hue vector -> (L, a, b)
    pub fn okhsl_to_oklab<T: N>(a_: T, b_: T, s: T, l: T) -> (T, T, T) {
        let k = |v: f64| T::k(v);
        let big_l = toe_inv(l);
        let (c_0, c_mid, c_max) = get_cs(big_l, a_, b_);
        let (mid, mid_inv) = (k(0.8), k(1.25));
        let c = if s < mid {
            let t = mid_inv * s;
            let k_1 = mid * c_0;
            let k_2 = k(1.0) - k_1 / c_mid;
            t * k_1 / (k(1.0) - k_2 * t)
        } else {
            let t = (s - mid) / (k(1.0) - mid);
            let k_0 = c_mid;
            let k_1 = (k(1.0) - mid) * c_mid * c_mid * mid_inv * mid_inv / c_0;
            let k_2 = k(1.0) - k_1 / (c_max - c_mid);
            k_0 + t * k_1 / (k(1.0) - k_2 * t)
        };
        (big_l, c * a_, c * b_)
    }
    /// srgb_to_okhsl from Oklab (chromatic colours, 0 < L < 1) -> (s, l)
    pub fn oklab_to_okhsl<T: N>(big_l: T, a: T, b: T) -> (T, T) {
        let k = |v: f64| T::k(v);
        let c = (a * a + b * b).sqrt();
        let (a_, b_) = (a / c, b / c);
        let (c_0, c_mid, c_max) = get_cs(big_l, a_, b_);
        let (mid, mid_inv) = (k(0.8), k(1.25));
        let s = if c < c_mid {
            let k_1 = mid * c_0;
            let k_2 = k(1.0) - k_1 / c_mid;
            let t = c / (k_1 + k_2 * c);
            t * mid
        } else {
            let k_0 = c_mid;
            let k_1 = (k(1.0) - mid) * c_mid * c_mid * mid_inv * mid_inv / c_0;
            let k_2 = k(1.0) - k_1 / (c_max - c_mid);
            let t = (c - k_0) / (k_1 + k_2 * (c - k_0));
            mid + (k(1.0) - mid) * t
        };
        (s, toe(big_l))
    }
    /// okhsv_to_srgb up to Oklab (s > 0, v > 0) -> (L, a, b)
    pub fn okhsv_to_oklab<T: N>(a_: T, b_: T, s: T, v: T) -> (T, T, T) {
        let k = |v: f64| T::k(v);
        let (s_max, t_max) = to_st(find_cusp(a_, b_));
        let s_0 = k(0.5);
        let kk = k(1.0) - s_0 / s_max;
        let l_v = k(1.0) - s * s_0 / (s_0 + t_max - t_max * kk * s);
        let c_v = s * t_max * s_0 / (s_0 + t_max - t_max * kk * s);
        let (l, c) = (v * l_v, v * c_v);
        let l_vt = toe_inv(l_v);
        let c_vt = c_v * l_vt / l_v;
        let l_new = toe_inv(l);
        let c = c * l_new / l;
        let l = l_new;
        let (r, g, bl) = oklab_to_linear_srgb(l_vt, a_ * c_vt, b_ * c_vt);
        let scale_l = (k(1.0) / MinMax::max(MinMax::max(r, g), MinMax::max(bl, k(0.0)))).cbrt();
        let (l, c) = (l * scale_l, c * scale_l);
        (l, c * a_, c * b_)
    }
    /// srgb_to_okhsv from Oklab (chromatic, L > 0) -> (s, v)
    pub fn oklab_to_okhsv<T: N>(big_l: T, a: T, b: T) -> (T, T) {
        let k = |v: f64| T::k(v);
        let c = (a * a + b * b).sqrt();
        let (a_, b_) = (a / c, b / c);
        let (s_max, t_max) = to_st(find_cusp(a_, b_));
        let s_0 = k(0.5);
        let kk = k(1.0) - s_0 / s_max;
        let t = t_max / (c + big_l * t_max);
        let (l_v, c_v) = (t * big_l, t * c);
        let l_vt = toe_inv(l_v);
        let c_vt = c_v * l_vt / l_v;
        let (r, g, bl) = oklab_to_linear_srgb(l_vt, a_ * c_vt, b_ * c_vt);
        let scale_l = (k(1.0) / MinMax::max(MinMax::max(r, g), MinMax::max(bl, k(0.0)))).cbrt();
        let l = big_l / scale_l;
        let l = toe(l);
        let v = l / l_v;
        let s = (s_0 + t_max) * c_v / ((t_max * s_0) + t_max * kk * c_v);
        (s, v)
    }
}
