//! Independent specification functions, transcribed from the publications (not from palette's code).
#![allow(dead_code)]
use crate::logic::*;

// ---- CIE 15: L*a*b*, L*u*v* ----
/// f(t) = t^(1/3) if t > (6/29)^3 else t * 841/108 + 4/29
pub fn cie_f<T: Num>(t: T) -> T {
    let eps = T::k(216.0 / 24389.0);
    T::ite(&T::p_lt(&eps, &t), t.cbrt(), t * T::k(841.0 / 108.0) + T::k(4.0 / 29.0))
}
/// inverse: t = f^3 if f > 6/29 else (f - 4/29) * 108/841
pub fn cie_f_inv<T: Num>(f: T) -> T {
    let d = T::k(6.0 / 29.0);
    T::ite(&T::p_lt(&d, &f), f * f * f, (f - T::k(4.0 / 29.0)) * T::k(108.0 / 841.0))
}
pub fn xyz_to_lab<T: Num>(x: T, y: T, z: T, w: (f64, f64, f64)) -> (T, T, T) {
    let (fx, fy, fz) = (cie_f(x / T::k(w.0)), cie_f(y / T::k(w.1)), cie_f(z / T::k(w.2)));
    (T::k(116.0) * fy - T::k(16.0), T::k(500.0) * (fx - fy), T::k(200.0) * (fy - fz))
}
pub fn lab_to_xyz<T: Num>(l: T, a: T, b: T, w: (f64, f64, f64)) -> (T, T, T) {
    let fy = (l + T::k(16.0)) / T::k(116.0);
    let fx = fy + a / T::k(500.0);
    let fz = fy - b / T::k(200.0);
    (T::k(w.0) * cie_f_inv(fx), T::k(w.1) * cie_f_inv(fy), T::k(w.2) * cie_f_inv(fz))
}
/// CIE 1976 L*u*v* (y > 0): L* as for Lab (with t^(1/3) written as the power the code uses), u* = 13 L* (u' - u'n)
pub fn xyz_to_luv<T: Num>(x: T, y: T, z: T, w: (f64, f64, f64)) -> (T, T, T) {
    let yr = y / T::k(w.1);
    let eps = T::k(216.0 / 24389.0);
    let l = T::ite(&T::p_lt(&eps, &yr), T::k(116.0) * palette::num::Powf::powf(yr, T::k(1.0 / 3.0)) - T::k(16.0), T::k(24389.0 / 27.0) * yr);
    let d = x + T::k(15.0) * y + T::k(3.0) * z;
    let dn = w.0 + 15.0 * w.1 + 3.0 * w.2;
    let (up, vp) = (T::k(4.0) * x / d, T::k(9.0) * y / d);
    let (un, vn) = (T::k(4.0 * w.0 / dn), T::k(9.0 * w.1 / dn));
    (l, T::k(13.0) * l * (up - un), T::k(13.0) * l * (vp - vn))
}

// ---- transfer functions (linear -> encoded and back) ----
pub fn srgb_encode<T: Num>(x: T) -> T {
    T::ite(&T::p_le(&x, &T::k(0.0031308)), T::k(12.92) * x, T::k(1.055) * palette::num::Powf::powf(x, T::k(1.0 / 2.4)) - T::k(0.055))
}
pub fn srgb_decode<T: Num>(v: T) -> T {
    T::ite(&T::p_le(&v, &T::k(0.04045)), v / T::k(12.92), palette::num::Powf::powf((v + T::k(0.055)) / T::k(1.055), T::k(2.4)))
}

// ---- hexcone models (Smith 1978; HWB: Smith & Lyons 1996) ----
pub fn max3<T: Num>(a: T, b: T, c: T) -> T { let m = T::ite(&T::p_le(&a, &b), b, a); T::ite(&T::p_le(&m, &c), c, m) }
pub fn min3<T: Num>(a: T, b: T, c: T) -> T { let m = T::ite(&T::p_le(&a, &b), a, b); T::ite(&T::p_le(&m, &c), m, c) }
/// hue in degrees as an un-normalised sextant formula; defined for max != min
pub fn hex_hue<T: Num>(r: T, g: T, b: T) -> T {
    let (mx, mn) = (max3(r, g, b), min3(r, g, b));
    let c = mx - mn;
    let hr = (g - b) / c;
    let hg = (b - r) / c + T::k(2.0);
    let hb = (r - g) / c + T::k(4.0);
    T::k(60.0) * T::ite(&T::p_eq(&mx, &r), hr, T::ite(&T::p_eq(&mx, &g), hg, hb))
}

// ---- Oklab (Ottosson 2020), XYZ D65 -> Oklab ----
pub const OK_M1: [[f64; 3]; 3] = [
    [0.8189330101, 0.3618667424, -0.1288597137],
    [0.0329845436, 0.9293118715, 0.0361456387],
    [0.0482003018, 0.2643662691, 0.6338517070],
];
pub const OK_M2: [[f64; 3]; 3] = [
    [0.2104542553, 0.7936177850, -0.0040720468],
    [1.9779984951, -2.4285922050, 0.4505937099],
    [0.0259040371, 0.7827717662, -0.8086757660],
];
pub fn mat_vec<T: Num>(m: &[[f64; 3]; 3], v: (T, T, T)) -> (T, T, T) {
    (T::k(m[0][0]) * v.0 + T::k(m[0][1]) * v.1 + T::k(m[0][2]) * v.2,
     T::k(m[1][0]) * v.0 + T::k(m[1][1]) * v.1 + T::k(m[1][2]) * v.2,
     T::k(m[2][0]) * v.0 + T::k(m[2][1]) * v.1 + T::k(m[2][2]) * v.2)
}
pub fn xyz_to_oklab<T: Num>(x: T, y: T, z: T) -> (T, T, T) {
    let (l, m, s) = mat_vec(&OK_M1, (x, y, z));
    mat_vec(&OK_M2, (l.cbrt(), m.cbrt(), s.cbrt()))
}

// ---- RGB <-> XYZ matrix from the published primaries (xy) and white point (XYZ, Y = 1) ----
/// returns M with XYZ = M * RGB, computed with T arithmetic (exact over the reals)
pub fn rgb_to_xyz_matrix<T: Num>(prim: [(f64, f64); 3], w: (f64, f64, f64)) -> [[T; 3]; 3] {
    // columns P_i = (x_i/y_i, 1, (1-x_i-y_i)/y_i); solve P * s = W by Cramer's rule
    let p = |i: usize| -> (T, T, T) { let (x, y) = prim[i]; (T::k(x) / T::k(y), T::k(1.0), (T::k(1.0) - T::k(x) - T::k(y)) / T::k(y)) };
    let (a, b, c) = (p(0), p(1), p(2));
    let det3 = |u: (T, T, T), v: (T, T, T), t: (T, T, T)| -> T {
        u.0 * (v.1 * t.2 - t.1 * v.2) - v.0 * (u.1 * t.2 - t.1 * u.2) + t.0 * (u.1 * v.2 - v.1 * u.2)
    };
    let wv = (T::k(w.0), T::k(w.1), T::k(w.2));
    let d = det3(a, b, c);
    let (sr, sg, sb) = (det3(wv, b, c) / d, det3(a, wv, c) / d, det3(a, b, wv) / d);
    [[a.0 * sr, b.0 * sg, c.0 * sb], [a.1 * sr, b.1 * sg, c.1 * sb], [a.2 * sr, b.2 * sg, c.2 * sb]]
}
pub const SRGB_PRIM: [(f64, f64); 3] = [(0.64, 0.33), (0.30, 0.60), (0.15, 0.06)];
pub const ADOBE_PRIM: [(f64, f64); 3] = [(0.64, 0.33), (0.21, 0.71), (0.15, 0.06)];
pub const REC2020_PRIM: [(f64, f64); 3] = [(0.708, 0.292), (0.170, 0.797), (0.131, 0.046)];
pub const P3_PRIM: [(f64, f64); 3] = [(0.680, 0.320), (0.265, 0.690), (0.150, 0.060)];
pub const PROPHOTO_PRIM: [(f64, f64); 3] = [(0.7347, 0.2653), (0.1596, 0.8404), (0.0366, 0.0001)];
pub const W_D65: (f64, f64, f64) = (0.95047, 1.0, 1.08883);
pub const W_D50: (f64, f64, f64) = (0.96422, 1.0, 0.82521);

/// Ottosson's Oklab from LINEAR sRGB (blog post, revision of 2021-01-25)
pub const OK_SRGB_M1: [[f64; 3]; 3] = [
    [0.4122214708, 0.5363325363, 0.0514459929],
    [0.2119034982, 0.6806995451, 0.1073969566],
    [0.0883024619, 0.2817188376, 0.6299787005],
];
pub fn linear_srgb_to_oklab<T: Num>(r: T, g: T, b: T) -> (T, T, T) {
    let (l, m, s) = mat_vec(&OK_SRGB_M1, (r, g, b));
    mat_vec(&OK_M2, (l.cbrt(), m.cbrt(), s.cbrt()))
}

// ---- further transfer functions (published constants) ----
/// ITU-R BT.709 / BT.2020 OETF: V = 4.5 L for L < beta, alpha L^0.45 - (alpha - 1) otherwise
pub const REC_ALPHA: f64 = 1.09929682680944;
pub const REC_BETA: f64 = 0.018053968510807;
pub fn rec_encode<T: Num>(l: T) -> T {
    T::ite(&T::p_lt(&l, &T::k(REC_BETA)), T::k(4.5) * l, T::k(REC_ALPHA) * palette::num::Powf::powf(l, T::k(0.45)) - T::k(REC_ALPHA - 1.0))
}
pub fn rec_decode<T: Num>(v: T) -> T {
    T::ite(&T::p_lt(&v, &T::k(4.5 * REC_BETA)), v / T::k(4.5), palette::num::Powf::powf(v * T::k(1.0 / REC_ALPHA) + T::k(1.0 - 1.0 / REC_ALPHA), T::k(1.0 / 0.45)))   // (v + alpha - 1) / alpha, written with the reciprocal so that the rounded constants coincide
}
/// Adobe RGB (1998): pure power 563/256
pub fn adobe_encode<T: Num>(l: T) -> T { palette::num::Powf::powf(l, T::k(256.0 / 563.0)) }
pub fn adobe_decode<T: Num>(v: T) -> T { palette::num::Powf::powf(v, T::k(563.0 / 256.0)) }
/// DCI-P3: pure power 2.6
pub fn p3_gamma_encode<T: Num>(l: T) -> T { palette::num::Powf::powf(l, T::k(1.0 / 2.6)) }
pub fn p3_gamma_decode<T: Num>(v: T) -> T { palette::num::Powf::powf(v, T::k(2.6)) }
/// ROMM / ProPhoto RGB: 16 L below Et = 1/512, L^(1/1.8) above
pub fn prophoto_encode<T: Num>(l: T) -> T {
    T::ite(&T::p_lt(&l, &T::k(1.0 / 512.0)), T::k(16.0) * l, palette::num::Powf::powf(l, T::k(1.0 / 1.8)))
}
pub fn prophoto_decode<T: Num>(v: T) -> T {
    T::ite(&T::p_lt(&v, &T::k(16.0 / 512.0)), v / T::k(16.0), palette::num::Powf::powf(v, T::k(1.8)))
}

// ---- CIEDE2000: Sharma, Wu, Dalal (2005), eqs. (2)-(22), kL = kC = kH = 1 ----
/// The case analyses (h', delta h', mean hue) are Sharma's, decided with the component type's own comparisons so that
/// every combination of cases is a separate path of the contract program; the arithmetic is transcribed formula by
/// formula (operand order as in the usual statement of the equations).
pub fn ciede2000_sharma<T>(l1: T, a1: T, b1: T, l2: T, a2: T, b2: T) -> T
where T: Num + palette::bool_mask::HasBoolMask<Mask = bool> {
    use palette::num::{Abs, Exp, Hypot, PartialCmp, Sqrt, Trigonometry};
    let k = |v: f64| T::k(v);
    let rad = k(std::f64::consts::PI / 180.0);
    let p25_7 = k(6103515625.0);
    // (2),(3) C*ab and its mean
    let (c1, c2) = (a1.hypot(b1), a2.hypot(b2));
    let cb = (c1 + c2) / k(2.0);
    let cb7 = palette::num::Powi::powi(cb, 7);
    // (4) G
    let g = k(0.5) * (k(1.0) - (cb7 / (cb7 + p25_7)).sqrt());
    // (5),(6) a', C'
    let (a1p, a2p) = (a1 * (k(1.0) + g), a2 * (k(1.0) + g));
    let (c1p, c2p) = ((a1p * a1p + b1 * b1).sqrt(), (a2p * a2p + b2 * b2).sqrt());
    // (7) h' in [0, 360), 0 when b = a' = 0
    let hp = |b: T, ap: T| -> T {
        if PartialCmp::eq(&b, &k(0.0)) && PartialCmp::eq(&ap, &k(0.0)) { return k(0.0); }
        let r = palette::angle::RealAngle::radians_to_degrees(b.atan2(ap));
        if PartialCmp::lt(&r, &k(0.0)) { r + k(360.0) } else { r }
    };
    let (h1, h2) = (hp(b1, a1p), hp(b2, a2p));
    // (10) delta h'
    let d = h2 - h1;
    let achromatic = PartialCmp::eq(&c1p, &k(0.0)) || PartialCmp::eq(&c2p, &k(0.0));
    let within = PartialCmp::lt_eq(&d.abs(), &k(180.0));
    let dh = if achromatic { k(0.0) } else if within { d } else if PartialCmp::gt(&d, &k(180.0)) { d - k(360.0) } else { d + k(360.0) };
    // (11) delta H'
    let dbh = k(2.0) * (c1p * c2p).sqrt() * (dh / k(2.0) * rad).sin();
    // (14) mean hue
    let s = h1 + h2;
    let hb = if achromatic { s } else if within { s / k(2.0) } else if PartialCmp::lt(&s, &k(360.0)) { (s + k(360.0)) / k(2.0) } else { (s - k(360.0)) / k(2.0) };
    // (12),(13)
    let lb = (l1 + l2) / k(2.0);
    let cbp = (c1p + c2p) / k(2.0);
    // (15) T
    let t = k(1.0) - k(0.17) * ((hb - k(30.0)) * rad).cos() + k(0.24) * ((hb * k(2.0)) * rad).cos()
        + k(0.32) * ((hb * k(3.0) + k(6.0)) * rad).cos() - k(0.20) * ((hb * k(4.0) - k(63.0)) * rad).cos();
    // (16)-(21)
    let sl = k(1.0) + ((k(0.015) * (lb - k(50.0)) * (lb - k(50.0))) / ((lb - k(50.0)) * (lb - k(50.0)) + k(20.0)).sqrt());
    let sc = k(1.0) + k(0.045) * cbp;
    let sh = k(1.0) + k(0.015) * cbp * t;
    let dtheta = k(30.0) * (-(((hb - k(275.0)) / k(25.0)) * ((hb - k(275.0)) / k(25.0)))).exp();
    let cbp7 = palette::num::Powi::powi(cbp, 7);
    let rc = k(2.0) * (cbp7 / (cbp7 + p25_7)).sqrt();
    let rt = -rc * (k(2.0) * dtheta * rad).sin();
    // (22) with kL = kC = kH = 1
    let (kl, kc, kh) = (k(1.0), k(1.0), k(1.0));
    let (dl, dc) = (l2 - l1, c2p - c1p);
    ((dl / (kl * sl)) * (dl / (kl * sl)) + (dc / (kc * sc)) * (dc / (kc * sc)) + (dbh / (kh * sh)) * (dbh / (kh * sh))
        + (rt * dc * dbh) / (kc * sc * kh * sh)).sqrt()
}

// ---- CAM16 forward model: Li, Li, Wang, Zu, Luo, Cui, Melgosa, Brill, Pointer (2017), with XYZ on a 0..100 scale ----
/// xyz, white on the 0..1 scale (as palette stores them); la = adapting luminance, yb = background luminance factor (0..1),
/// surround = (c, F, N_c); D computed by the default formula. -> (J, C, h, Q, M, s)
pub fn cam16_forward<T: Num>(xyz: (T, T, T), white: (f64, f64, f64), la: T, yb: f64, surround: (f64, f64, f64)) -> (T, T, T, T, T, T) {
    use palette::num::{Exp, Powf, Sqrt, Trigonometry};
    let k = |v: f64| T::k(v);
    let m16 = |x: T, y: T, z: T| -> (T, T, T) {
        (k(0.401288) * x + k(0.650173) * y - k(0.051461) * z,
         k(-0.250268) * x + k(1.204414) * y + k(0.045854) * z,
         k(-0.002079) * x + k(0.048952) * y + k(0.953127) * z)
    };
    let (c, f, nc) = surround;
    let (xw, yw, zw) = (k(white.0 * 100.0), k(white.1 * 100.0), k(white.2 * 100.0));
    let (rw, gw, bw) = m16(xw, yw, zw);
    let d0 = k(f) * (k(1.0) - k(1.0 / 3.6) * ((-la - k(42.0)) / k(92.0)).exp());
    let d = T::ite(&T::p_le(&d0, &k(0.0)), k(0.0), T::ite(&T::p_le(&k(1.0), &d0), k(1.0), d0));
    let dr = |cw: T| d * yw / cw + k(1.0) - d;
    let (dr_r, dr_g, dr_b) = (dr(rw), dr(gw), dr(bw));
    let kk = k(1.0) / (k(5.0) * la + k(1.0));
    let k4 = kk * kk * kk * kk;
    let fl = k(0.2) * k4 * (k(5.0) * la) + k(0.1) * (k(1.0) - k4) * (k(1.0) - k4) * (k(5.0) * la).powf(k(1.0 / 3.0));
    let n = k(yb * 100.0) / yw;
    let z = k(1.48) + n.sqrt();
    let nbb = k(0.725) * n.powf(k(-0.2));
    let ncb = nbb;
    let adapt = |x: T| -> T {
        let ax = T::ite(&T::p_le(&k(0.0), &x), x, -x);
        let p = (fl * ax / k(100.0)).powf(k(0.42));
        let v = k(400.0) * p / (p + k(27.13));
        T::ite(&T::p_le(&k(0.0), &x), v, -v) + k(0.1)
    };
    let (raw, gaw, baw) = (adapt(dr_r * rw), adapt(dr_g * gw), adapt(dr_b * bw));
    let aw = (k(2.0) * raw + gaw + baw / k(20.0) - k(0.305)) * nbb;
    let (r, g, b) = m16(xyz.0 * k(100.0), xyz.1 * k(100.0), xyz.2 * k(100.0));
    let (ra, ga, ba) = (adapt(dr_r * r), adapt(dr_g * g), adapt(dr_b * b));
    let a = ra - k(12.0) * ga / k(11.0) + ba / k(11.0);
    let bb = (ra + ga - k(2.0) * ba) / k(9.0);
    let h0 = bb.atan2(a) * k(180.0 / std::f64::consts::PI);
    let h = T::ite(&T::p_lt(&h0, &k(0.0)), h0 + k(360.0), h0);
    let et = k(0.25) * ((h * k(std::f64::consts::PI / 180.0) + k(2.0)).cos() + k(3.8));
    let big_a = (k(2.0) * ra + ga + ba / k(20.0) - k(0.305)) * nbb;
    let j = k(100.0) * (big_a / aw).powf(k(c) * z);
    let q = k(4.0 / c) * (j / k(100.0)).sqrt() * (aw + k(4.0)) * fl.powf(k(0.25));
    let t = (k(50000.0 / 13.0 * nc) * ncb * et * (a * a + bb * bb).sqrt()) / (ra + ga + k(21.0) * ba / k(20.0));
    let cc = t.powf(k(0.9)) * (j / k(100.0)).sqrt() * (k(1.64) - k(0.29).powf(n)).powf(k(0.73));
    let m = cc * fl.powf(k(0.25));
    let s = k(100.0) * (m / q).sqrt();
    (j, cc, h, q, m, s)
}
