//! Independent specification functions, transcribed from the publications (not from palette's code).
#![allow(dead_code)]
use crate::logic::*;

/// CIE 15: f(t) = t^(1/3) if t > (6/29)^3 else t * 841/108 + 4/29
pub fn cie_f<T: Num>(t: T) -> T {
    let eps = T::k(216.0 / 24389.0);
    T::ite(&T::p_lt(&eps, &t), t.cbrt(), t * T::k(841.0 / 108.0) + T::k(4.0 / 29.0))
}
/// inverse: t = f^3 if f > 6/29 else (f - 4/29) * 108/841
pub fn cie_f_inv<T: Num>(f: T) -> T {
    let d = T::k(6.0 / 29.0);
    T::ite(&T::p_lt(&d, &f), f * f * f, (f - T::k(4.0 / 29.0)) * T::k(108.0 / 841.0))
}
