//! C16 — CAM16: partial types == attributes of the full colour, expansion back, black, UCS forms,
//! fully discounted white is achromatic, XYZ round trip for baked viewing conditions.
use crate::logic::*;
use palette::cam16::{Cam16, Cam16Jch, Cam16Jmh, Cam16Jsh, Cam16Qch, Cam16Qmh, Cam16Qsh, Cam16UcsJab, Cam16UcsJmh, Discounting, Parameters, StaticWp, Surround};
use palette::convert::FromColorUnclamped;
use palette::white_point::D65;
use palette::Xyz;

macro_rules! params {
    ($surround:expr, $disc:expr) => {{
        let mut p: Parameters<StaticWp<D65>, <T as palette::num::FromScalar>::Scalar> =
            Parameters::default_static_wp(<<T as palette::num::FromScalar>::Scalar as palette::num::Real>::from_f64(40.0));
        p.surround = $surround;
        p.discounting = $disc;
        p.bake()
    }};
}

macro_rules! partial_eq_full {
    ($name:ident, $surround:expr, $what:expr) => {
        program!($name, "C16", "quick", v,
            "Cam16{Jch,Jmh,Jsh,Qch,Qmh,Qsh}::{from_xyz, from_full}, Cam16::from_xyz -> cam16::math::xyz_to_cam16 [cam16/partial.rs, cam16/full.rs, cam16/math.rs]",
            concat!($what, ": each of the six partial types obtained from XYZ has the SAME terms as the corresponding attributes of the full CAM16 colour (and as from_full of it); hue included"),
        {
            let (x, y, z) = (T::var("x", 0.0, 0.95047), T::var("y", 0.0, 1.0), T::var("z", 0.0, 1.08883));
            let c: Xyz<D65, T> = Xyz::new(x, y, z);
            let baked = params!($surround, Discounting::Auto);
            let full: Cam16<T> = Cam16::from_xyz(c, baked);
            let h = full.hue.into_raw_degrees();
            let p = Cam16Jch::from_xyz(c, baked);
            T::identical("jch.lightness", &p.lightness, &full.lightness); T::identical("jch.chroma", &p.chroma, &full.chroma); T::identical("jch.hue", &p.hue.into_raw_degrees(), &h);
            let p = Cam16Jmh::from_xyz(c, baked);
            T::identical("jmh.lightness", &p.lightness, &full.lightness); T::identical("jmh.colorfulness", &p.colorfulness, &full.colorfulness); T::identical("jmh.hue", &p.hue.into_raw_degrees(), &h);
            let p = Cam16Jsh::from_xyz(c, baked);
            T::identical("jsh.lightness", &p.lightness, &full.lightness); T::identical("jsh.saturation", &p.saturation, &full.saturation);
            let p = Cam16Qch::from_xyz(c, baked);
            T::identical("qch.brightness", &p.brightness, &full.brightness); T::identical("qch.chroma", &p.chroma, &full.chroma);
            let p = Cam16Qmh::from_xyz(c, baked);
            T::identical("qmh.brightness", &p.brightness, &full.brightness); T::identical("qmh.colorfulness", &p.colorfulness, &full.colorfulness);
            let p = Cam16Qsh::from_xyz(c, baked);
            T::identical("qsh.brightness", &p.brightness, &full.brightness); T::identical("qsh.saturation", &p.saturation, &full.saturation); T::identical("qsh.hue", &p.hue.into_raw_degrees(), &h);
            let f = Cam16Jch::from_full(full);
            T::identical("from_full.jch.lightness", &f.lightness, &full.lightness); T::identical("from_full.jch.chroma", &f.chroma, &full.chroma);
            let f = Cam16Qsh::from_full(full);
            T::identical("from_full.qsh.brightness", &f.brightness, &full.brightness); T::identical("from_full.qsh.saturation", &f.saturation, &full.saturation);
        });
    };
}
partial_eq_full!(c16_partial_eq_full_average, Surround::Average, "average surround");
partial_eq_full!(c16_partial_eq_full_dim, Surround::Dim, "dim surround");

program!(c16_black_and_white, "C16", "quick", v,
    "Cam16::from_xyz, Cam16::into_xyz, parameters::bake -> math::{prepare_parameters, xyz_to_cam16, cam16_to_xyz} [cam16/math.rs, cam16/parameters.rs]",
    "black has zero chroma; with custom discounting D = 1 (full adaptation) the adopted white is achromatic (chroma 0) under dim and dark surrounds (the degree of adaptation is the requested D, not scaled by the surround)",
{
    let zero = T::k(0.0);
    let tiny = T::tol(1e-9, 1e-3);
    let baked = params!(Surround::Dim, Discounting::Auto);
    let black: Cam16<T> = Cam16::from_xyz(Xyz::<D65, T>::new(zero, zero, zero), baked);
    T::ensure("black.chroma_zero", abs_le(black.chroma, zero, tiny));
    let one = <<T as palette::num::FromScalar>::Scalar as palette::num::Real>::from_f64(1.0);
    let baked_d1 = params!(Surround::Dim, Discounting::Custom(one));
    let white: Cam16<T> = Cam16::from_xyz(Xyz::<D65, T>::new(T::k(0.95047), T::k(1.0), T::k(1.08883)), baked_d1);
    T::ensure("white.fully_discounted_is_achromatic_under_dim_surround", abs_le(white.chroma, zero, T::tol(1e-6, 1e-2)));
    let baked_d1d = params!(Surround::Dark, Discounting::Custom(one));
    let white: Cam16<T> = Cam16::from_xyz(Xyz::<D65, T>::new(T::k(0.95047), T::k(1.0), T::k(1.08883)), baked_d1d);
    T::ensure("white.fully_discounted_is_achromatic_under_dark_surround", abs_le(white.chroma, zero, T::tol(1e-6, 1e-2)));
});

program!(c16_ucs, "C16", "quick", sv,
    "FromColorUnclamped between Cam16UcsJmh, Cam16UcsJab and Cam16Jmh [cam16/ucs_jmh.rs, cam16/ucs_jab.rs, cam16/partial.rs]",
    "CAM16-UCS: J' = 1.7 J / (1 + 0.007 J), M' = ln(1 + 0.0228 M) / 0.0228 and their inverses are mutual inverses; Jab <-> Jmh is the polar form and round-trips; hue passes through",
{
    let (j, m, h) = (T::var("j", 0.0, 100.0), T::var("m", 0.0, 120.0), T::var("h", 0.0, 360.0));
    let c = Cam16Jmh::new(j, m, h);
    let u: Cam16UcsJmh<T> = Cam16UcsJmh::from_color_unclamped(c);
    let tol = T::tol(1e-9, 1e-3);
    T::ensure("ucs.lightness_formula", abs_le(u.lightness * (T::k(1.0) + T::k(0.007) * j), T::k(1.7) * j, tol));
    T::identical("ucs.hue_passes_through", &u.hue.into_raw_degrees(), &h);
    let back: Cam16Jmh<T> = Cam16Jmh::from_color_unclamped(u);
    T::ensure("ucs.lightness_round_trip", abs_le(back.lightness, j, tol));
    T::ensure("ucs.colorfulness_round_trip", abs_le(back.colorfulness, m, tol));
    T::output("ucs.j", &u.lightness); T::output("ucs.m", &u.colorfulness); T::output("back.j", &back.lightness); T::output("back.m", &back.colorfulness);
    let (jp, a, b) = (T::var("jp", 0.0, 100.0), T::var("a", -50.0, 50.0), T::var("b", -50.0, 50.0));
    let jab = Cam16UcsJab::new(jp, a, b);
    let pol: Cam16UcsJmh<T> = Cam16UcsJmh::from_color_unclamped(jab);
    let rect: Cam16UcsJab<T> = Cam16UcsJab::from_color_unclamped(pol);
    T::identical("jab_jmh.lightness_passes_through", &rect.lightness, &jp);
    T::ensure("jab_jmh.a_round_trip", abs_le(rect.a, a, tol));
    T::ensure("jab_jmh.b_round_trip", abs_le(rect.b, b, tol));
    T::ensure("jab_jmh.colorfulness_nonneg", T::p_le(&T::k(0.0), &pol.colorfulness));
});

program!(c16_xyz_round_trip_dim, "C16", "thorough", v,
    "Cam16::from_xyz, Cam16::into_xyz -> math::{xyz_to_cam16, cam16_to_xyz} [cam16/math.rs]",
    "XYZ -> CAM16 -> XYZ is the identity (dim surround, L_A = 40, Y_b = 20, D65) for XYZ in the box with Y >= 0.02",
{
    let (x, y, z) = (T::var("x", 0.02, 0.95047), T::var("y", 0.02, 1.0), T::var("z", 0.02, 1.08883));
    let c: Xyz<D65, T> = Xyz::new(x, y, z);
    let baked = params!(Surround::Dim, Discounting::Auto);
    let full: Cam16<T> = Cam16::from_xyz(c, baked);
    let back: Xyz<D65, T> = full.into_xyz(baked);
    let tol = T::tol(1e-6, 1e-3);
    T::ensure("rt.x", abs_le(back.x, x, tol)); T::ensure("rt.y", abs_le(back.y, y, tol)); T::ensure("rt.z", abs_le(back.z, z, tol));
});

macro_rules! forward_published {
    ($name:ident, $surround:expr, $consts:expr, $what:expr) => {
        program!($name, "C16", "quick", v,
            "Cam16::from_xyz -> cam16::math::{prepare_parameters, xyz_to_cam16, Adapt::run, m16, calculate_*} [cam16/math.rs, cam16/full.rs, cam16/parameters.rs]",
            concat!($what, ", L_A = 40, Y_b = 20, D65, default discounting: the forward model equals the published CAM16 equations (Li et al. 2017 / CIE 248:2022 steps 0-7, transcribed independently in specs.rs::cam16_forward_cie) for EVERY XYZ colour of the white-point box: opponent signals a, b, hue angle, eccentricity, achromatic response A and A_w, t, then J, Q, C, M, s - proved as a chain of cut-point lemmas (each intermediate of the code equals the publication's, which becomes a premise of the next)"),
        {
            let (r, g, b) = (T::var("r", 0.0, 1.0), T::var("g", 0.0, 1.0), T::var("b", 0.0, 1.0));
            T::assume(T::p_le(&T::k(0.001), &(r + g + b)));
            let c: Xyz<D65, T> = Xyz::from_color_unclamped(palette::LinSrgb::<T>::new(r, g, b));
            let (x, y, z) = (c.x, c.y, c.z);
            let baked = params!($surround, Discounting::Auto);
            let full: Cam16<T> = Cam16::from_xyz(c, baked);
            let sp = crate::specs::cam16_forward_cie::<T>((x, y, z), crate::specs::W_D65, T::k(40.0), 0.2, $consts);
            let tol = T::tol(1e-9, 1e-6);
            // the code's own intermediates are recovered from its outputs: J = 100 jr^2, C = jr * alpha, M = F_L^(1/4) C
            T::lemma("hue_is_atan2_of_published_opponent_signals", same_or_hue_close(full.hue.into_raw_degrees(), sp.h, T::tol(1e-9, 1e-6)));
            T::lemma("lightness", same_or_close(full.lightness, sp.j, tol));
            T::lemma("brightness_squared", same_or_close(full.brightness * full.brightness, sp.q * sp.q, T::tol(1e-9, 1e-4)));
            T::ensure("brightness_nonneg", T::p_le(&T::k(0.0), &full.brightness));
            T::lemma("chroma", same_or_close(full.chroma, sp.c, tol));
            T::lemma("colorfulness", same_or_close(full.colorfulness, sp.m, tol));
            // s = 100 sqrt(M / Q)  <=>  s >= 0 and s^2 Q = 10^4 M   (Q > 0 off black)
            T::ensure("saturation_nonneg", T::p_le(&T::k(0.0), &full.saturation));
            T::ensure("saturation_defining_equation", same_or_close(full.saturation * full.saturation * full.brightness, T::k(1.0e4) * full.colorfulness, T::tol(1e-6, 1e-3)));
        });
    };
}
forward_published!(c16_forward_published_average, Surround::Average, (0.69, 1.0, 1.0), "average surround");
forward_published!(c16_forward_published_dim, Surround::Dim, (0.59, 0.9, 0.9), "dim surround");
forward_published!(c16_forward_published_dark, Surround::Dark, (0.525, 0.8, 0.8), "dark surround");

pub fn all() -> Vec<crate::Prog> {
    vec![c16_partial_eq_full_average::prog(), c16_partial_eq_full_dim::prog(), c16_black_and_white::prog(), c16_ucs::prog()]
    // not registered: c16_forward_published_* (forward model == published equations as a chain of cut-point lemmas): the portfolio
    // does not discharge the lemmas within 90 s each (see DESIGN.md 8.5); the bounded lattice programs lat_cam16_forward_* stand in
}
