//! C16 — CAM16: partial types == attributes of the full colour, expansion back, black, UCS forms,
//! fully discounted white is achromatic, XYZ round trip for baked viewing conditions.
use crate::logic::*;
use palette::cam16::{Cam16, Cam16Jch, Cam16Jmh, Cam16Jsh, Cam16Qch, Cam16Qmh, Cam16Qsh, Cam16UcsJab, Cam16UcsJmh, Discounting, Parameters, StaticWp, Surround};
use palette::convert::FromColorUnclamped;
use palette::white_point::D65;
use palette::Xyz;

macro_rules! params {
    ($surround:expr, $disc:expr) => {{
        let mut p: Parameters<StaticWp<D65>, <T as palette::num::FromScalar>::Scalar> =
            Parameters::default_static_wp(<<T as palette::num::FromScalar>::Scalar as palette::num::Real>::from_f64(40.0));
        p.surround = $surround;
        p.discounting = $disc;
        p.bake()
    }};
}

macro_rules! partial_eq_full {
    ($name:ident, $surround:expr, $what:expr) => {
        program!($name, "C16", "quick", v,
            "Cam16{Jch,Jmh,Jsh,Qch,Qmh,Qsh}::{from_xyz, from_full}, Cam16::from_xyz -> cam16::math::xyz_to_cam16 [cam16/partial.rs, cam16/full.rs, cam16/math.rs]",
            concat!($what, ": each of the six partial types obtained from XYZ has the SAME terms as the corresponding attributes of the full CAM16 colour (and as from_full of it); hue included"),
        {
            let (x, y, z) = (T::var("x", 0.0, 0.95047), T::var("y", 0.0, 1.0), T::var("z", 0.0, 1.08883));
            let c: Xyz<D65, T> = Xyz::new(x, y, z);
            let baked = params!($surround, Discounting::Auto);
            let full: Cam16<T> = Cam16::from_xyz(c, baked);
            let h = full.hue.into_raw_degrees();
            let p = Cam16Jch::from_xyz(c, baked);
            T::identical("jch.lightness", &p.lightness, &full.lightness); T::identical("jch.chroma", &p.chroma, &full.chroma); T::identical("jch.hue", &p.hue.into_raw_degrees(), &h);
            let p = Cam16Jmh::from_xyz(c, baked);
            T::identical("jmh.lightness", &p.lightness, &full.lightness); T::identical("jmh.colorfulness", &p.colorfulness, &full.colorfulness); T::identical("jmh.hue", &p.hue.into_raw_degrees(), &h);
            let p = Cam16Jsh::from_xyz(c, baked);
            T::identical("jsh.lightness", &p.lightness, &full.lightness); T::identical("jsh.saturation", &p.saturation, &full.saturation);
            let p = Cam16Qch::from_xyz(c, baked);
            T::identical("qch.brightness", &p.brightness, &full.brightness); T::identical("qch.chroma", &p.chroma, &full.chroma);
            let p = Cam16Qmh::from_xyz(c, baked);
            T::identical("qmh.brightness", &p.brightness, &full.brightness); T::identical("qmh.colorfulness", &p.colorfulness, &full.colorfulness);
            let p = Cam16Qsh::from_xyz(c, baked);
            T::identical("qsh.brightness", &p.brightness, &full.brightness); T::identical("qsh.saturation", &p.saturation, &full.saturation); T::identical("qsh.hue", &p.hue.into_raw_degrees(), &h);
            let f = Cam16Jch::from_full(full);
            T::identical("from_full.jch.lightness", &f.lightness, &full.lightness); T::identical("from_full.jch.chroma", &f.chroma, &full.chroma);
            let f = Cam16Qsh::from_full(full);
            T::identical("from_full.qsh.brightness", &f.brightness, &full.brightness); T::identical("from_full.qsh.saturation", &f.saturation, &full.saturation);
        });
    };
}
partial_eq_full!(c16_partial_eq_full_average, Surround::Average, "average surround");
partial_eq_full!(c16_partial_eq_full_dim, Surround::Dim, "dim surround");

program!(c16_black_and_white, "C16", "quick", v,
    "Cam16::from_xyz, Cam16::into_xyz, parameters::bake -> math::{prepare_parameters, xyz_to_cam16, cam16_to_xyz} [cam16/math.rs, cam16/parameters.rs]",
    "black has zero chroma; with custom discounting D = 1 (full adaptation) the adopted white is achromatic (chroma 0) under dim and dark surrounds (the degree of adaptation is the requested D, not scaled by the surround)",
{
    let zero = T::k(0.0);
    let tiny = T::tol(1e-9, 1e-3);
    let baked = params!(Surround::Dim, Discounting::Auto);
    let black: Cam16<T> = Cam16::from_xyz(Xyz::<D65, T>::new(zero, zero, zero), baked);
    T::ensure("black.chroma_zero", abs_le(black.chroma, zero, tiny));
    let one = <<T as palette::num::FromScalar>::Scalar as palette::num::Real>::from_f64(1.0);
    let baked_d1 = params!(Surround::Dim, Discounting::Custom(one));
    let white: Cam16<T> = Cam16::from_xyz(Xyz::<D65, T>::new(T::k(0.95047), T::k(1.0), T::k(1.08883)), baked_d1);
    T::ensure("white.fully_discounted_is_achromatic_under_dim_surround", abs_le(white.chroma, zero, T::tol(1e-6, 1e-2)));
    let baked_d1d = params!(Surround::Dark, Discounting::Custom(one));
    let white: Cam16<T> = Cam16::from_xyz(Xyz::<D65, T>::new(T::k(0.95047), T::k(1.0), T::k(1.08883)), baked_d1d);
    T::ensure("white.fully_discounted_is_achromatic_under_dark_surround", abs_le(white.chroma, zero, T::tol(1e-6, 1e-2)));
});

program!(c16_ucs, "C16", "quick", sv,
    "FromColorUnclamped between Cam16UcsJmh, Cam16UcsJab and Cam16Jmh [cam16/ucs_jmh.rs, cam16/ucs_jab.rs, cam16/partial.rs]",
    "CAM16-UCS: J' = 1.7 J / (1 + 0.007 J), M' = ln(1 + 0.0228 M) / 0.0228 and their inverses are mutual inverses; Jab <-> Jmh is the polar form and round-trips; hue passes through",
{
    let (j, m, h) = (T::var("j", 0.0, 100.0), T::var("m", 0.0, 120.0), T::var("h", 0.0, 360.0));
    let c = Cam16Jmh::new(j, m, h);
    let u: Cam16UcsJmh<T> = Cam16UcsJmh::from_color_unclamped(c);
    let tol = T::tol(1e-9, 1e-3);
    T::ensure("ucs.lightness_formula", abs_le(u.lightness * (T::k(1.0) + T::k(0.007) * j), T::k(1.7) * j, tol));
    T::identical("ucs.hue_passes_through", &u.hue.into_raw_degrees(), &h);
    let back: Cam16Jmh<T> = Cam16Jmh::from_color_unclamped(u);
    T::ensure("ucs.lightness_round_trip", abs_le(back.lightness, j, tol));
    T::ensure("ucs.colorfulness_round_trip", abs_le(back.colorfulness, m, tol));
    T::output("ucs.j", &u.lightness); T::output("ucs.m", &u.colorfulness); T::output("back.j", &back.lightness); T::output("back.m", &back.colorfulness);
    let (jp, a, b) = (T::var("jp", 0.0, 100.0), T::var("a", -50.0, 50.0), T::var("b", -50.0, 50.0));
    let jab = Cam16UcsJab::new(jp, a, b);
    let pol: Cam16UcsJmh<T> = Cam16UcsJmh::from_color_unclamped(jab);
    let rect: Cam16UcsJab<T> = Cam16UcsJab::from_color_unclamped(pol);
    T::identical("jab_jmh.lightness_passes_through", &rect.lightness, &jp);
    T::ensure("jab_jmh.a_round_trip", abs_le(rect.a, a, tol));
    T::ensure("jab_jmh.b_round_trip", abs_le(rect.b, b, tol));
    T::ensure("jab_jmh.colorfulness_nonneg", T::p_le(&T::k(0.0), &pol.colorfulness));
});

program!(c16_xyz_round_trip_dim, "C16", "thorough", v,
    "Cam16::from_xyz, Cam16::into_xyz -> math::{xyz_to_cam16, cam16_to_xyz} [cam16/math.rs]",
    "XYZ -> CAM16 -> XYZ is the identity (dim surround, L_A = 40, Y_b = 20, D65) for XYZ in the box with Y >= 0.02",
{
    let (x, y, z) = (T::var("x", 0.02, 0.95047), T::var("y", 0.02, 1.0), T::var("z", 0.02, 1.08883));
    let c: Xyz<D65, T> = Xyz::new(x, y, z);
    let baked = params!(Surround::Dim, Discounting::Auto);
    let full: Cam16<T> = Cam16::from_xyz(c, baked);
    let back: Xyz<D65, T> = full.into_xyz(baked);
    let tol = T::tol(1e-6, 1e-3);
    T::ensure("rt.x", abs_le(back.x, x, tol)); T::ensure("rt.y", abs_le(back.y, y, tol)); T::ensure("rt.z", abs_le(back.z, z, tol));
});

macro_rules! forward_published {
    ($name:ident, $surround:expr, $consts:expr, $what:expr) => {
        program!($name, "C16", "quick", v,
            "Cam16::from_xyz -> cam16::math::{prepare_parameters, xyz_to_cam16, Adapt::run, m16, calculate_*} [cam16/math.rs, cam16/full.rs, cam16/parameters.rs]",
            concat!($what, ", L_A = 40, Y_b = 20, D65, default discounting: the forward model equals the published CAM16 equations (Li et al. 2017 / CIE 248:2022 steps 0-7, transcribed independently in specs.rs::cam16_forward_cie) for EVERY XYZ colour of the white-point box: opponent signals a, b, hue angle, eccentricity, achromatic response A and A_w, t, then J, Q, C, M, s - proved as a chain of cut-point lemmas (each intermediate of the code equals the publication's, which becomes a premise of the next)"),
        {
            let (r, g, b) = (T::var("r", 0.0, 1.0), T::var("g", 0.0, 1.0), T::var("b", 0.0, 1.0));
            T::assume(T::p_le(&T::k(0.001), &(r + g + b)));
            let c: Xyz<D65, T> = Xyz::from_color_unclamped(palette::LinSrgb::<T>::new(r, g, b));
            let (x, y, z) = (c.x, c.y, c.z);
            let baked = params!($surround, Discounting::Auto);
            let full: Cam16<T> = Cam16::from_xyz(c, baked);
            let sp = crate::specs::cam16_forward_cie::<T>((x, y, z), crate::specs::W_D65, T::k(40.0), 0.2, $consts);
            let tol = T::tol(1e-9, 1e-6);
            // the code's own intermediates are recovered from its outputs: J = 100 jr^2, C = jr * alpha, M = F_L^(1/4) C
            T::lemma("hue_is_atan2_of_published_opponent_signals", same_or_hue_close(full.hue.into_raw_degrees(), sp.h, T::tol(1e-9, 1e-6)));
            T::lemma("lightness", same_or_close(full.lightness, sp.j, tol));
            T::lemma("brightness_squared", same_or_close(full.brightness * full.brightness, sp.q * sp.q, T::tol(1e-9, 1e-4)));
            T::ensure("brightness_nonneg", T::p_le(&T::k(0.0), &full.brightness));
            T::lemma("chroma", same_or_close(full.chroma, sp.c, tol));
            T::lemma("colorfulness", same_or_close(full.colorfulness, sp.m, tol));
            // s = 100 sqrt(M / Q)  <=>  s >= 0 and s^2 Q = 10^4 M   (Q > 0 off black)
            T::ensure("saturation_nonneg", T::p_le(&T::k(0.0), &full.saturation));
            T::ensure("saturation_defining_equation", same_or_close(full.saturation * full.saturation * full.brightness, T::k(1.0e4) * full.colorfulness, T::tol(1e-6, 1e-3)));
        });
    };
}
forward_published!(c16_forward_published_average, Surround::Average, (0.69, 1.0, 1.0), "average surround");
forward_published!(c16_forward_published_dim, Surround::Dim, (0.59, 0.9, 0.9), "dim surround");
forward_published!(c16_forward_published_dark, Surround::Dark, (0.525, 0.8, 0.8), "dark surround");

// ---- forward model == published equations, function by function (needs the cfg(palette_verif) hook of /repo) ----
macro_rules! parameters_published {
    ($name:ident, $surround:expr, $consts:expr, $what:expr) => {
        program!($name, "C16", "quick", v,
            "Parameters::bake -> cam16::math::prepare_parameters (incl. Adapt::run on the adapted white) [cam16/math.rs, cam16/parameters.rs]; read through the hook BakedParameters::verif_dependent",
            concat!($what, ", L_A = 40, Y_b = 20, D65, default discounting: every viewing-condition dependent quantity the code bakes equals step 0 of the published model (Li et al. 2017 / CIE 248:2022, specs.rs::cam16_viewing_conditions): D_R, D_G, D_B and their reciprocals, n, z = 1.48 + sqrt(n), N_bb = N_cb = 0.725 n^-0.2, N_c and c of the surround table, F_L, F_L^(1/4), A_w, and the constants of the inverse compression"),
        {
            let baked = params!($surround, Discounting::Auto);
            let f = baked.verif_dependent();
            let g = |i: usize| <T as palette::num::FromScalar>::from_scalar(f[i]);
            let vc = crate::specs::cam16_viewing_conditions::<T>(crate::specs::W_D65, T::k(40.0), 0.2, $consts);
            let tol = T::tol(1e-9, 1e-6);
            T::lemma("f_l", same_or_close(g(14), vc.fl, tol));
            T::ensure("d_r", same_or_close(g(0), vc.d_rgb[0], tol)); T::ensure("d_g", same_or_close(g(1), vc.d_rgb[1], tol)); T::ensure("d_b", same_or_close(g(2), vc.d_rgb[2], tol));
            T::ensure("d_r_inv", same_or_close(g(3) * vc.d_rgb[0], T::k(1.0), tol)); T::ensure("d_g_inv", same_or_close(g(4) * vc.d_rgb[1], T::k(1.0), tol)); T::ensure("d_b_inv", same_or_close(g(5) * vc.d_rgb[2], T::k(1.0), tol));
            T::ensure("n", same_or_close(g(6), vc.n, tol));
            T::ensure("n_bb", same_or_close(g(7), vc.nbb, tol));
            T::ensure("n_c", same_or_close(g(8), vc.nc, tol));
            T::ensure("n_cb", same_or_close(g(9), vc.ncb, tol));
            T::ensure("a_w", same_or_close(g(10), vc.aw, T::tol(1e-7, 1e-5)));
            T::ensure("c", same_or_close(g(11), vc.c, tol));
            T::ensure("z", same_or_close(g(12), vc.z, tol));
            T::ensure("f_l_4", same_or_close(g(13), vc.fl4, tol));
            // inverse compression: x = sign(y) (100 / F_L) (27.13 |y| / (400 - |y|))^(1/0.42): constant = 100 / F_L * 27.13^(1/0.42)
            T::ensure("unadapt_exponent", same_or_close(g(16) * T::k(0.42), T::k(1.0), tol));
            T::ensure("unadapt_constant", same_or_close(g(15) * vc.fl, T::k(100.0) * palette::num::Powf::powf(T::k(27.13), T::k(1.0) / T::k(0.42)), T::tol(1e-6, 1e-3)));
        });
    };
}
macro_rules! parameters_published_la {
    ($name:ident, $la:expr, $yb:expr, $what:expr) => {
        program!($name, "C16", "quick", v,
            "Parameters::bake -> cam16::math::prepare_parameters [cam16/math.rs, cam16/parameters.rs]; read through the hook BakedParameters::verif_dependent",
            concat!($what, ", average surround, D65, default discounting: the baked quantities that depend on the adapting and background luminance (D_RGB, F_L, F_L^(1/4), n, z, N_bb, A_w, inverse compression constant) equal step 0 of the published model"),
        {
            let sc = |v: f64| <<T as palette::num::FromScalar>::Scalar as palette::num::Real>::from_f64(v);
            let mut p: Parameters<StaticWp<D65>, <T as palette::num::FromScalar>::Scalar> = Parameters::default_static_wp(sc($la));
            p.background_luminance = sc($yb);
            let baked = p.bake();
            let f = baked.verif_dependent();
            let g = |i: usize| <T as palette::num::FromScalar>::from_scalar(f[i]);
            let vc = crate::specs::cam16_viewing_conditions::<T>(crate::specs::W_D65, T::k($la), $yb, (0.69, 1.0, 1.0));
            let tol = T::tol(1e-9, 1e-6);
            T::lemma("f_l", same_or_close(g(14), vc.fl, tol));
            T::ensure("d_r", same_or_close(g(0), vc.d_rgb[0], tol)); T::ensure("d_g", same_or_close(g(1), vc.d_rgb[1], tol)); T::ensure("d_b", same_or_close(g(2), vc.d_rgb[2], tol));
            T::ensure("n", same_or_close(g(6), vc.n, tol));
            T::ensure("n_bb", same_or_close(g(7), vc.nbb, tol));
            T::ensure("n_cb", same_or_close(g(9), vc.ncb, tol));
            T::ensure("a_w", same_or_close(g(10), vc.aw, T::tol(1e-7, 1e-5)));
            T::ensure("z", same_or_close(g(12), vc.z, tol));
            T::ensure("f_l_4", same_or_close(g(13), vc.fl4, tol));
            T::ensure("unadapt_constant", same_or_close(g(15) * vc.fl, T::k(100.0) * palette::num::Powf::powf(T::k(27.13), T::k(1.0) / T::k(0.42)), T::tol(1e-6, 1e-3)));
        });
    };
}
parameters_published_la!(c16_parameters_published_la4_yb10, 4.0, 0.1, "L_A = 4 cd/m^2, Y_b = 10");
parameters_published_la!(c16_parameters_published_la400_yb40, 400.0, 0.4, "L_A = 400 cd/m^2, Y_b = 40");
parameters_published!(c16_parameters_published_average, Surround::Average, (0.69, 1.0, 1.0), "average surround");
parameters_published!(c16_parameters_published_dim, Surround::Dim, (0.59, 0.9, 0.9), "dim surround");
parameters_published!(c16_parameters_published_dark, Surround::Dark, (0.525, 0.8, 0.8), "dark surround");

program!(c16_forward_published_given_vc, "C16", "quick", v,
    "Cam16::from_xyz -> cam16::math::{xyz_to_cam16, Adapt::run, m16, calculate_lightness / brightness / chroma / colorfulness / saturation} [cam16/math.rs, cam16/full.rs], run with explicitly given viewing-condition quantities through the hook BakedParameters::verif_from_dependent",
    "steps 1-7 of the published forward model for ARBITRARY viewing-condition quantities (D_RGB, F_L, n, N_bb, N_cb, N_c, A_w, c, z as universally quantified variables in their physical ranges) and every XYZ colour with positive cone responses: hue angle, J, Q (squared), C, M and the defining equation of s equal the published equations (specs.rs::cam16_forward_cie_with)",
{
    let v = |n: &str, lo: f64, hi: f64| T::var(n, lo, hi);
    let (x, y, z) = (v("x", 0.0, 1.0), v("y", 0.0, 1.0), v("z", 0.0, 1.1));
    let (dr, dg, db) = (v("d_r", 0.5, 2.0), v("d_g", 0.5, 2.0), v("d_b", 0.5, 2.0));
    let (fl, fl4) = (v("f_l", 0.001, 2.0), v("f_l_4", 0.1, 1.5));
    let (n, nbb, ncb, nc) = (v("n", 0.01, 1.0), v("n_bb", 0.5, 2.0), v("n_cb", 0.5, 2.0), v("n_c", 0.8, 1.0));
    let (aw, c, zz) = (v("a_w", 1.0, 100.0), v("c", 0.525, 0.69), v("zz", 1.5, 2.5));
    let one = T::k(1.0);
    let sc = |t: T| <T as ToScalar>::to_scalar(t);
    let fields = [sc(dr), sc(dg), sc(db), sc(one / dr), sc(one / dg), sc(one / db), sc(n), sc(nbb), sc(nc), sc(ncb), sc(aw), sc(c), sc(zz), sc(fl4), sc(fl), sc(one), sc(one)];
    let baked: palette::cam16::BakedParameters<StaticWp<D65>, <T as palette::num::FromScalar>::Scalar> = palette::cam16::BakedParameters::verif_from_dependent(fields);
    // positive cone responses (every colour inside the spectral locus), strictly brighter than black
    let (r0, g0, b0) = crate::specs::cam16_m16(x * T::k(100.0), y * T::k(100.0), z * T::k(100.0));
    T::assume(conj::<T>(&[T::p_le(&T::k(0.01), &r0), T::p_le(&T::k(0.01), &g0), T::p_le(&T::k(0.01), &b0)]));
    let full: Cam16<T> = Cam16::from_xyz(Xyz::<D65, T>::new(x, y, z), baked);
    let vc = crate::specs::Cam16Vc { d_rgb: [dr, dg, db], fl, fl4, n, nbb, ncb, nc, aw, c, z: zz, d: one };
    let sp = crate::specs::cam16_forward_cie_with::<T>((x, y, z), vc);
    let tol = T::tol(1e-9, 1e-6);
    // stepping stones: the REAL cone response compression (hook verif_adapt -> Adapt::run) against the published one, then the
    // published opponent signals, hue angle, eccentricity and t rebuilt from those real values. Each is a discharged lemma and a
    // premise of the next; they are facts about Adapt::run and the publication, whatever the internals of xyz_to_cam16 are.
    let k = |v: f64| T::k(v);
    // exact over the reals (tolerance 0), floating point tolerance only when a counterexample is replayed
    let ex = T::tol(0.0, 1e-6);
    let (ra_c, ga_c, ba_c) = (baked.verif_adapt(r0 * dr), baked.verif_adapt(g0 * dg), baked.verif_adapt(b0 * db));
    T::lemma("adapt_r", abs_le(ra_c + k(0.1), sp.ra, ex)); T::lemma("adapt_g", abs_le(ga_c + k(0.1), sp.ga, ex)); T::lemma("adapt_b", abs_le(ba_c + k(0.1), sp.ba, ex));
    let a_c = ra_c + (k(-12.0) * ga_c + ba_c) / k(11.0);
    let b_c = (ra_c + ga_c - k(2.0) * ba_c) / k(9.0);
    T::lemma("opponent_a", abs_le(a_c, sp.a, ex)); T::lemma("opponent_b", abs_le(b_c, sp.b, ex));
    let h_c = palette::num::Trigonometry::atan2(b_c, a_c);
    T::lemma("hue_angle", abs_le(h_c, sp.h_rad, ex));
    let et_c = k(0.25) * (palette::num::Trigonometry::cos(h_c + k(2.0)) + k(3.8));
    T::lemma("eccentricity", abs_le(et_c, sp.et, ex));
    let rad_c = palette::num::Sqrt::sqrt(a_c * a_c + b_c * b_c);
    T::lemma("opponent_radius", abs_le(rad_c, palette::num::Sqrt::sqrt(sp.a * sp.a + sp.b * sp.b), ex));
    let t_c = k(5e4) / k(13.0) * nc * ncb * et_c * rad_c / (ra_c + ga_c + k(1.05) * ba_c + k(0.305));
    T::lemma("t", abs_le(t_c, sp.t, T::tol(0.0, 1e-3)));
    T::lemma("hue", same_or_hue_close(full.hue.into_raw_degrees(), sp.h, tol));
    T::lemma("lightness", same_or_close(full.lightness, sp.j, tol));
    T::ensure("brightness_nonneg", T::p_le(&T::k(0.0), &full.brightness));
    T::lemma("brightness_squared", same_or_close(full.brightness * full.brightness, sp.q * sp.q, T::tol(1e-6, 1e-3)));
    T::lemma("chroma", same_or_close(full.chroma, sp.c, T::tol(1e-7, 1e-2)));
    T::lemma("colorfulness", same_or_close(full.colorfulness, sp.m, T::tol(1e-7, 1e-2)));
    T::ensure("saturation_nonneg", T::p_le(&T::k(0.0), &full.saturation));
    T::ensure("saturation_defining_equation", same_or_close(full.saturation * full.saturation * full.brightness, T::k(1.0e4) * full.colorfulness, T::tol(1e-6, 1e-1)));
});

pub fn all() -> Vec<crate::Prog> {
    vec![c16_partial_eq_full_average::prog(), c16_partial_eq_full_dim::prog(), c16_black_and_white::prog(), c16_ucs::prog(),
         c16_parameters_published_average::prog(), c16_parameters_published_dim::prog(), c16_parameters_published_dark::prog(), c16_forward_published_given_vc::prog(),
         c16_parameters_published_la4_yb10::prog(), c16_parameters_published_la400_yb40::prog()]
    // not registered: c16_forward_published_* (forward model == published equations as a chain of cut-point lemmas): the portfolio
    // does not discharge the lemmas within 90 s each (see DESIGN.md 8.5); the bounded lattice programs lat_cam16_forward_* stand in
}
