//! C05 (generic float curves) — for every RGB / luma standard the encode and decode functions reached through the
//! standard's `TransferFn` binding equal the published curve, are mutually inverse on [0, 1] away from the knee
//! band the published constants leave, and are monotone. (The integer fast paths are engine K / X obligations.)
use crate::logic::*;
use crate::specs;
use palette::encoding::{AdobeRgb, DciP3, DisplayP3, Linear, ProPhotoRgb, Rec2020, Rec709, Srgb};
use palette::luma::Luma;
use palette::rgb::Rgb;

macro_rules! curve {
    ($name:ident, $std:ty, $what:expr, $enc:path, $dec:path, knee $klo:expr, $khi:expr, luma $has_luma:tt, de $de:expr) => {
        program!($name, "C05,C02", "quick", sv,
            concat!("impl RgbStandard / LumaStandard for ", $what, " (TransferFn binding), IntoLinear<T,T> / FromLinear<T,T> of its transfer function [encoding/*.rs], Rgb::{into_linear, from_linear}, Luma::{into_linear, from_linear}"),
            concat!($what, ": decode and encode (through Rgb<", $what, "> and Luma<", $what, ">) == the published curve within 1e-9 on [0,1]; decode(encode(x)) == x and encode(decode(v)) == v outside the knee band; both monotone"),
        {
            let (x, y) = (T::var("x", 0.0, 1.0), T::var("y", 0.0, 1.0));
            let tol = T::tol(1e-9, 1e-5);
            let enc = |v: T| -> T { Rgb::<$std, T>::from_linear(Rgb::<Linear<<$std as palette::rgb::RgbStandard>::Space>, T>::new(v, v, v)).green };
            let dec = |v: T| -> T { Rgb::<$std, T>::new(v, v, v).into_linear().blue };
            let (ex, dx) = (enc(x), dec(x));
            T::ensure("rgb.encode_is_published_curve", abs_le(ex, $enc(x), tol));
            T::ensure("rgb.decode_is_published_curve", abs_le(dx, $dec(x), tol));
            curve!(@luma $has_luma, $std, x, tol, $enc, $dec);
            // mutual inverse away from the knee band (the published thresholds are mutually inconsistent by ~1e-7, so values
            // within the band may be decoded by one segment and re-encoded by the other: a step of ~1e-6, stated below)
            let away = T::p_or(T::p_le(&x, &T::k($klo - 1e-4)), T::p_le(&T::k($khi + 1e-4), &x));
            // (Rec.709/2020: decode multiplies by the ROUNDED reciprocal 1/alpha; over the reals alpha * fl(1/alpha) != 1 exactly, and the
            //  solver has no Lipschitz bound for pow, so decode(encode(x)) == x is left to code == curve + the curve's own inverse law)
            if $de { T::ensure("inverse.decode_encode", T::p_or(T::p_not(away.clone()), abs_le(dec(ex), x, T::tol(1e-9, 1e-5)))); }
            T::ensure("inverse.encode_decode", T::p_or(T::p_not(away), abs_le(enc(dx), x, T::tol(1e-9, 1e-5))));
            // monotone within a segment (the step across the knee is the separate ground obligation below)
            let seg = |k: f64| T::p_or(T::p_and(T::p_le(&x, &T::k(k - 1e-6)), T::p_le(&y, &T::k(k - 1e-6))), T::p_and(T::p_le(&T::k(k + 1e-6), &x), T::p_le(&T::k(k + 1e-6), &y)));
            let le_e = T::p_and(T::p_le(&x, &y), seg($klo));
            let le_d = T::p_and(T::p_le(&x, &y), seg(if $klo <= 1.0 { $khi } else { $klo }));
            T::ensure("monotone.encode", T::p_or(T::p_not(le_e), T::p_le(&ex, &(enc(y) + T::tol(1e-6, 1e-5)))));
            T::ensure("monotone.decode", T::p_or(T::p_not(le_d), T::p_le(&dx, &(dec(y) + T::tol(1e-6, 1e-5)))));
            // the published constants leave a step of less than 1e-6 where the segments meet (both one-sided limits of the published curve)
            if $klo <= 1.0 { T::ensure("knee.step_below_1e-6", abs_le($enc(T::k($klo - 1e-12)), $enc(T::k($klo + 1e-12)), T::tol(1e-6, 1e-6))); }
            T::ensure("range.encode", in_range(ex, -1e-9, 1.0 + 1e-9));
            T::ensure("range.decode", in_range(dx, -1e-9, 1.0 + 1e-9));
        });
    };
    (@luma yes, $std:ty, $x:ident, $tol:ident, $enc:path, $dec:path) => {
        let le: T = Luma::<$std, T>::from_linear(Luma::<Linear<<$std as palette::luma::LumaStandard>::WhitePoint>, T>::new($x)).luma;
        let ld: T = Luma::<$std, T>::new($x).into_linear().luma;
        T::ensure("luma.encode_is_published_curve", abs_le(le, $enc($x), $tol));
        T::ensure("luma.decode_is_published_curve", abs_le(ld, $dec($x), $tol));
    };
    (@luma no, $std:ty, $x:ident, $tol:ident, $enc:path, $dec:path) => {};
}
fn id<T: Num>(x: T) -> T { x }
curve!(c05_curve_srgb, Srgb, "Srgb", specs::srgb_encode::<T>, specs::srgb_decode::<T>, knee 0.0031308, 0.04045, luma yes, de true);
curve!(c05_curve_rec709, Rec709, "Rec709", specs::rec_encode::<T>, specs::rec_decode::<T>, knee 0.018053968510807, 0.081242858298635, luma yes, de false);
curve!(c05_curve_rec2020, Rec2020, "Rec2020", specs::rec_encode::<T>, specs::rec_decode::<T>, knee 0.018053968510807, 0.081242858298635, luma yes, de false);
curve!(c05_curve_adobe, AdobeRgb, "AdobeRgb", specs::adobe_encode::<T>, specs::adobe_decode::<T>, knee 2.0, -1.0, luma yes, de true);
curve!(c05_curve_dci_p3, DciP3, "DciP3", specs::p3_gamma_encode::<T>, specs::p3_gamma_decode::<T>, knee 2.0, -1.0, luma yes, de true);
curve!(c05_curve_display_p3, DisplayP3, "DisplayP3", specs::srgb_encode::<T>, specs::srgb_decode::<T>, knee 0.0031308, 0.04045, luma yes, de true);
curve!(c05_curve_prophoto, ProPhotoRgb, "ProPhotoRgb", specs::prophoto_encode::<T>, specs::prophoto_decode::<T>, knee 0.001953125, 0.03125, luma yes, de true);
curve!(c05_curve_linear, Linear<Srgb>, "Linear<Srgb>", id::<T>, id::<T>, knee 2.0, -1.0, luma no, de true);

pub fn all() -> Vec<crate::Prog> {
    vec![c05_curve_srgb::prog(), c05_curve_rec709::prog(), c05_curve_rec2020::prog(), c05_curve_adobe::prog(), c05_curve_dci_p3::prog(),
         c05_curve_display_p3::prog(), c05_curve_prophoto::prog(), c05_curve_linear::prog()]
}
