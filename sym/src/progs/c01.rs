//! C01 — conversions invert (edge round trips), direct == stepwise, alpha passes through.
//! Domains: the nominal box of the source space; where the target cannot represent part of the box
//! (Y = 0 with X > 0 has no xyY / L*u*v* representation) that part is excluded by an `assume`,
//! as the property statement allows ("any other space that can represent it").
use crate::logic::*;
use palette::convert::FromColorUnclamped;
use palette::encoding::{Linear, Srgb};
use palette::white_point::D65;
use palette::{Alpha, Hsl, Hsv, Hwb, Lab, Lch, Lchuv, LinSrgb, Luv, Oklab, Oklch, Xyz, Yxy};

macro_rules! rt3 {
    ($a:expr, $b:expr, $tol:expr, [$($n:literal : $x:expr, $y:expr);*]) => {
        $( T::ensure($n, abs_le($x, $y, $tol)); )*
    };
}

program!(c01_xyz_lab_xyz, "C01", "quick", sv,
    "FromColorUnclamped<Xyz> for Lab [lab.rs], FromColorUnclamped<Lab> for Xyz [xyz.rs]",
    "E-rt: Xyz -> Lab -> Xyz is the identity on the white-point box, |d| <= 1e-9 per component",
{
    let (x, y, z) = (T::var("x", 0.0, 0.95047), T::var("y", 0.0, 1.0), T::var("z", 0.0, 1.08883));
    let c: Xyz<D65, T> = Xyz::new(x, y, z);
    let lab: Lab<D65, T> = Lab::from_color_unclamped(c);
    let back: Xyz<D65, T> = Xyz::from_color_unclamped(lab);
    T::output("lab.l", &lab.l); T::output("lab.a", &lab.a); T::output("lab.b", &lab.b); T::output("back.x", &back.x); T::output("back.y", &back.y); T::output("back.z", &back.z);
    let tol = T::tol(1e-9, 1e-5);
    T::ensure("rt.x", abs_le(back.x, x, tol));
    T::ensure("rt.y", abs_le(back.y, y, tol));
    T::ensure("rt.z", abs_le(back.z, z, tol));
});

program!(c01_lab_xyz_lab, "C01", "quick", sv,
    "FromColorUnclamped<Lab> for Xyz [xyz.rs], FromColorUnclamped<Xyz> for Lab [lab.rs]",
    "E-rt: Lab -> Xyz -> Lab is the identity on the nominal Lab box, |d| <= 1e-6",
{
    let (l, a, b) = (T::var("l", 0.0, 100.0), T::var("a", -128.0, 127.0), T::var("b", -128.0, 127.0));
    let c: Lab<D65, T> = Lab::new(l, a, b);
    let xyz: Xyz<D65, T> = Xyz::from_color_unclamped(c);
    let back: Lab<D65, T> = Lab::from_color_unclamped(xyz);
    T::output("xyz.x", &xyz.x); T::output("xyz.y", &xyz.y); T::output("xyz.z", &xyz.z); T::output("back.l", &back.l); T::output("back.a", &back.a); T::output("back.b", &back.b);
    let tol = T::tol(1e-6, 1e-3);
    T::ensure("rt.l", abs_le(back.l, l, tol));
    T::ensure("rt.a", abs_le(back.a, a, tol));
    T::ensure("rt.b", abs_le(back.b, b, tol));
});

program!(c01_xyz_luv_xyz, "C01", "quick", s,
    "FromColorUnclamped<Xyz> for Luv [luv.rs], FromColorUnclamped<Luv> for Xyz [xyz.rs]",
    "E-rt: Xyz -> Luv -> Xyz is the identity on the white-point box with Y >= 1e-6 (below, L*u*v* collapses to black), |d| <= 1e-9",
{
    let (x, y, z) = (T::var("x", 0.0, 0.95047), T::var("y", 0.000001, 1.0), T::var("z", 0.0, 1.08883));
    let c: Xyz<D65, T> = Xyz::new(x, y, z);
    let luv: Luv<D65, T> = Luv::from_color_unclamped(c);
    let back: Xyz<D65, T> = Xyz::from_color_unclamped(luv);
    T::output("luv.l", &luv.l); T::output("luv.u", &luv.u); T::output("luv.v", &luv.v); T::output("back.x", &back.x); T::output("back.y", &back.y); T::output("back.z", &back.z);
    let tol = T::tol(1e-9, 1e-5);
    T::ensure("rt.x", abs_le(back.x, x, tol));
    T::ensure("rt.y", abs_le(back.y, y, tol));
    T::ensure("rt.z", abs_le(back.z, z, tol));
});

program!(c01_xyz_yxy_xyz, "C01", "quick", sv,
    "FromColorUnclamped<Xyz> for Yxy [yxy.rs], FromColorUnclamped<Yxy> for Xyz [xyz.rs]",
    "E-rt: Xyz -> Yxy -> Xyz is the identity on the white-point box with Y > 0 (Y = 0 has no chromaticity), |d| <= 1e-9",
{
    let (x, y, z) = (T::var("x", 0.0, 0.95047), T::var("y", 0.0, 1.0), T::var("z", 0.0, 1.08883));
    T::assume(T::p_lt(&T::k(0.0), &y));
    let c: Xyz<D65, T> = Xyz::new(x, y, z);
    let yxy: Yxy<D65, T> = Yxy::from_color_unclamped(c);
    let back: Xyz<D65, T> = Xyz::from_color_unclamped(yxy);
    T::output("yxy.x", &yxy.x); T::output("yxy.y", &yxy.y); T::output("back.x", &back.x); T::output("back.z", &back.z);
    let tol = T::tol(1e-9, 1e-5);
    T::ensure("rt.x", abs_le(back.x, x, tol));
    T::ensure("rt.y", abs_le(back.y, y, tol));
    T::ensure("rt.z", abs_le(back.z, z, tol));
});

program!(c01_linsrgb_xyz_linsrgb, "C01", "quick", sv,
    "FromColorUnclamped<Rgb> for Xyz [xyz.rs], FromColorUnclamped<Xyz> for Rgb [rgb/rgb.rs], Srgb::{rgb_to_xyz_matrix, xyz_to_rgb_matrix} [encoding/srgb.rs]",
    "E-rt: linear sRGB -> Xyz -> linear sRGB is the identity on [0,1]^3 within 1e-6 (7-digit hard-coded matrices)",
{
    let (r, g, b) = (T::var("r", 0.0, 1.0), T::var("g", 0.0, 1.0), T::var("b", 0.0, 1.0));
    let c: LinSrgb<T> = LinSrgb::new(r, g, b);
    let xyz: Xyz<D65, T> = Xyz::from_color_unclamped(c);
    let back: LinSrgb<T> = LinSrgb::from_color_unclamped(xyz);
    let tol = T::tol(1e-6, 1e-5);
    T::ensure("rt.r", abs_le(back.red, r, tol));
    T::ensure("rt.g", abs_le(back.green, g, tol));
    T::ensure("rt.b", abs_le(back.blue, b, tol));
});

program!(c01_srgb_transfer_rt, "C01", "quick", sv,
    "Rgb::into_linear / Rgb::from_linear -> Srgb::{into_linear, from_linear} [rgb/rgb.rs, encoding/srgb.rs]",
    "E-rt: encoded sRGB -> linear -> encoded is the identity on [0,1] outside the knee band (0.0404, 0.0405), where the published constants leave a step (that step is engine X's exact ground obligation)",
{
    let v = T::var("v", 0.0, 1.0);
    T::assume(T::p_or(T::p_le(&v, &T::k(0.0404)), T::p_le(&T::k(0.0405), &v)));
    let c: palette::Srgb<T> = palette::Srgb::new(v, v, v);
    let lin: LinSrgb<T> = c.into_linear();
    let back: palette::Srgb<T> = palette::Srgb::from_linear(lin);
    T::ensure("rt.v", abs_le(back.red, v, T::tol(1e-9, 1e-5)));
    T::ensure("lin.range", in_range(lin.red, 0.0, 1.0));
});

program!(c01_rgb_hsv_rgb, "C01", "quick", sv,
    "FromColorUnclamped<Rgb> for Hsv [hsv.rs], FromColorUnclamped<Hsv> for Rgb [rgb/rgb.rs]",
    "E-rt: Rgb -> Hsv -> Rgb is the identity on [0,1]^3, |d| <= 1e-9",
{
    let (r, g, b) = (T::var("r", 0.0, 1.0), T::var("g", 0.0, 1.0), T::var("b", 0.0, 1.0));
    let c: palette::rgb::Rgb<Srgb, T> = palette::rgb::Rgb::new(r, g, b);
    let hsv: Hsv<Srgb, T> = Hsv::from_color_unclamped(c);
    let back: palette::rgb::Rgb<Srgb, T> = palette::rgb::Rgb::from_color_unclamped(hsv);
    T::output("hsv.h", &hsv.hue.into_raw_degrees()); T::output("hsv.s", &hsv.saturation); T::output("hsv.v", &hsv.value); T::output("back.r", &back.red); T::output("back.g", &back.green); T::output("back.b", &back.blue);
    let tol = T::tol(1e-9, 1e-5);
    T::ensure("rt.r", abs_le(back.red, r, tol));
    T::ensure("rt.g", abs_le(back.green, g, tol));
    T::ensure("rt.b", abs_le(back.blue, b, tol));
});

program!(c01_rgb_hsl_rgb, "C01", "quick", s,
    "FromColorUnclamped<Rgb> for Hsl [hsl.rs], FromColorUnclamped<Hsl> for Rgb [rgb/rgb.rs]",
    "E-rt: Rgb -> Hsl -> Rgb is the identity on [0,1]^3, |d| <= 1e-9",
{
    let (r, g, b) = (T::var("r", 0.0, 1.0), T::var("g", 0.0, 1.0), T::var("b", 0.0, 1.0));
    let c: palette::rgb::Rgb<Srgb, T> = palette::rgb::Rgb::new(r, g, b);
    let hsl: Hsl<Srgb, T> = Hsl::from_color_unclamped(c);
    let back: palette::rgb::Rgb<Srgb, T> = palette::rgb::Rgb::from_color_unclamped(hsl);
    T::output("hsl.h", &hsl.hue.into_raw_degrees()); T::output("hsl.s", &hsl.saturation); T::output("hsl.l", &hsl.lightness); T::output("back.r", &back.red); T::output("back.g", &back.green); T::output("back.b", &back.blue);
    let tol = T::tol(1e-9, 1e-5);
    T::ensure("rt.r", abs_le(back.red, r, tol));
    T::ensure("rt.g", abs_le(back.green, g, tol));
    T::ensure("rt.b", abs_le(back.blue, b, tol));
});

program!(c01_hsv_hwb_hsv, "C01", "quick", sv,
    "FromColorUnclamped<Hsv> for Hwb [hwb.rs], FromColorUnclamped<Hwb> for Hsv [hsv.rs]",
    "E-rt: Hsv -> Hwb -> Hsv is the identity for s in [0,1], v in (0,1] (v = 0 has no saturation), hue passed through unchanged",
{
    let (h, s, v) = (T::var("h", -360.0, 720.0), T::var("s", 0.0, 1.0), T::var("v", 0.0, 1.0));
    T::assume(T::p_lt(&T::k(0.0), &v));
    let c: Hsv<Srgb, T> = Hsv::new(h, s, v);
    let hwb: Hwb<Srgb, T> = Hwb::from_color_unclamped(c);
    let back: Hsv<Srgb, T> = Hsv::from_color_unclamped(hwb);
    T::output("hwb.w", &hwb.whiteness); T::output("hwb.b", &hwb.blackness); T::output("back.s", &back.saturation); T::output("back.v", &back.value);
    let tol = T::tol(1e-9, 1e-5);
    T::ensure("rt.s", abs_le(back.saturation, s, tol));
    T::ensure("rt.v", abs_le(back.value, v, tol));
    T::identical("hue_passes_through", &back.hue.into_raw_degrees(), &h);
    T::ensure("hwb.in_bounds", conj::<T>(&[in_range(hwb.whiteness, -1e-12, 1.0 + 1e-12), in_range(hwb.blackness, -1e-12, 1.0 + 1e-12),
        T::p_le(&(hwb.whiteness + hwb.blackness), &T::k(1.0 + 1e-9))]));
});

program!(c01_hsv_hsl_hsv, "C01", "quick", sv,
    "FromColorUnclamped<Hsv> for Hsl [hsl.rs], FromColorUnclamped<Hsl> for Hsv [hsv.rs]",
    "E-rt: Hsv -> Hsl -> Hsv is the identity for s in [0,1], v in (0,1] , hue passed through unchanged",
{
    let (h, s, v) = (T::var("h", -360.0, 720.0), T::var("s", 0.0, 1.0), T::var("v", 0.0, 1.0));
    T::assume(T::p_lt(&T::k(0.0), &v));
    let c: Hsv<Srgb, T> = Hsv::new(h, s, v);
    let hsl: Hsl<Srgb, T> = Hsl::from_color_unclamped(c);
    let back: Hsv<Srgb, T> = Hsv::from_color_unclamped(hsl);
    T::output("hsl.s", &hsl.saturation); T::output("hsl.l", &hsl.lightness); T::output("back.s", &back.saturation); T::output("back.v", &back.value);
    let tol = T::tol(1e-9, 1e-5);
    T::ensure("rt.s", abs_le(back.saturation, s, tol));
    T::ensure("rt.v", abs_le(back.value, v, tol));
    T::identical("hue_passes_through", &back.hue.into_raw_degrees(), &h);
    T::ensure("hsl.in_bounds", conj::<T>(&[in_range(hsl.saturation, -1e-12, 1.0 + 1e-9), in_range(hsl.lightness, -1e-12, 1.0 + 1e-12)]));
});

program!(c01_xyz_oklab_xyz, "C01", "quick", sv,
    "FromColorUnclamped<Xyz> for Oklab [oklab.rs], FromColorUnclamped<Oklab> for Xyz [xyz.rs], oklab::{m1, m2, m1_inv, m2_inv}",
    "E-rt: Xyz -> Oklab -> Xyz is the identity on the D65 box within 1e-6 (published 10-digit matrices and their inverses)",
{
    let (x, y, z) = (T::var("x", 0.0, 0.95047), T::var("y", 0.0, 1.0), T::var("z", 0.0, 1.08883));
    let c: Xyz<D65, T> = Xyz::new(x, y, z);
    let ok: Oklab<T> = Oklab::from_color_unclamped(c);
    let back: Xyz<D65, T> = Xyz::from_color_unclamped(ok);
    T::output("ok.l", &ok.l); T::output("ok.a", &ok.a); T::output("ok.b", &ok.b); T::output("back.x", &back.x);
    let tol = T::tol(1e-6, 1e-5);
    T::ensure("rt.x", abs_le(back.x, x, tol));
    T::ensure("rt.y", abs_le(back.y, y, tol));
    T::ensure("rt.z", abs_le(back.z, z, tol));
});

program!(c01_lab_lch_lab, "C01", "quick", sv,
    "FromColorUnclamped<Lab> for Lch [lch.rs], FromColorUnclamped<Lch> for Lab [lab.rs], LabHue::{from_cartesian, into_cartesian} [hues.rs]",
    "E-rt: Lab -> Lch -> Lab is the identity on the nominal Lab box (polar form), |d| <= 1e-9; l passes through",
{
    let (l, a, b) = (T::var("l", 0.0, 100.0), T::var("a", -128.0, 127.0), T::var("b", -128.0, 127.0));
    let c: Lab<D65, T> = Lab::new(l, a, b);
    let lch: Lch<D65, T> = Lch::from_color_unclamped(c);
    let back: Lab<D65, T> = Lab::from_color_unclamped(lch);
    T::output("lch.chroma", &lch.chroma); T::output("lch.hue", &lch.hue.into_raw_degrees()); T::output("back.a", &back.a); T::output("back.b", &back.b);
    let tol = T::tol(1e-9, 1e-3);
    T::identical("l_passes_through", &back.l, &l);
    T::ensure("rt.a", abs_le(back.a, a, tol));
    T::ensure("rt.b", abs_le(back.b, b, tol));
    T::ensure("chroma.nonneg", T::p_le(&T::k(0.0), &lch.chroma));
});

program!(c01_luv_lchuv_luv, "C01", "quick", sv,
    "FromColorUnclamped<Luv> for Lchuv [lchuv.rs], FromColorUnclamped<Lchuv> for Luv [luv.rs]",
    "E-rt: Luv -> Lchuv -> Luv is the identity on the nominal Luv box, |d| <= 1e-9",
{
    let (l, u, v) = (T::var("l", 0.0, 100.0), T::var("u", -84.0, 176.0), T::var("v", -135.0, 108.0));
    let c: Luv<D65, T> = Luv::new(l, u, v);
    let p: Lchuv<D65, T> = Lchuv::from_color_unclamped(c);
    let back: Luv<D65, T> = Luv::from_color_unclamped(p);
    T::output("p.chroma", &p.chroma); T::output("p.hue", &p.hue.into_raw_degrees()); T::output("back.u", &back.u); T::output("back.v", &back.v);
    let tol = T::tol(1e-9, 1e-3);
    T::identical("l_passes_through", &back.l, &l);
    T::ensure("rt.u", abs_le(back.u, u, tol));
    T::ensure("rt.v", abs_le(back.v, v, tol));
});

program!(c01_oklab_oklch_oklab, "C01", "quick", sv,
    "FromColorUnclamped<Oklab> for Oklch [oklch.rs], FromColorUnclamped<Oklch> for Oklab [oklab.rs]",
    "E-rt: Oklab -> Oklch -> Oklab is the identity for l in [0,1], a,b in [-0.5,0.5], |d| <= 1e-9",
{
    let (l, a, b) = (T::var("l", 0.0, 1.0), T::var("a", -0.5, 0.5), T::var("b", -0.5, 0.5));
    let c: Oklab<T> = Oklab::new(l, a, b);
    let p: Oklch<T> = Oklch::from_color_unclamped(c);
    let back: Oklab<T> = Oklab::from_color_unclamped(p);
    T::output("p.chroma", &p.chroma); T::output("back.a", &back.a); T::output("back.b", &back.b);
    let tol = T::tol(1e-9, 1e-5);
    T::identical("l_passes_through", &back.l, &l);
    T::ensure("rt.a", abs_le(back.a, a, tol));
    T::ensure("rt.b", abs_le(back.b, b, tol));
});

// ---- direct conversion == stepwise conversion (the derive-chosen route), alpha pass-through ----
program!(c01_direct_vs_stepwise, "C01", "quick", v,
    "derive(FromColorUnclamped) routes [palette_derive/src/convert], FromColorUnclamped for Lab/Hsv/Hwb/Yxy from Rgb",
    "E-comp: a direct conversion yields the SAME terms as converting step by step along the conversion tree: Rgb->Lab == Rgb->Xyz->Lab, Rgb->Hwb == Rgb->Hsv->Hwb, Hsl->Xyz == Hsl->Rgb->Xyz, Rgb->Yxy == Rgb->Xyz->Yxy, Lch->Xyz == Lch->Lab->Xyz",
{
    let (r, g, b) = (T::var("r", 0.0, 1.0), T::var("g", 0.0, 1.0), T::var("b", 0.0, 1.0));
    let c: LinSrgb<T> = LinSrgb::new(r, g, b);
    let direct: Lab<D65, T> = Lab::from_color_unclamped(c);
    let via: Lab<D65, T> = Lab::from_color_unclamped(Xyz::<D65, T>::from_color_unclamped(c));
    T::identical("rgb_lab.l", &direct.l, &via.l);
    T::identical("rgb_lab.a", &direct.a, &via.a);
    T::identical("rgb_lab.b", &direct.b, &via.b);
    let dy: Yxy<D65, T> = Yxy::from_color_unclamped(c);
    let vy: Yxy<D65, T> = Yxy::from_color_unclamped(Xyz::<D65, T>::from_color_unclamped(c));
    T::identical("rgb_yxy.x", &dy.x, &vy.x);
    T::identical("rgb_yxy.y", &dy.y, &vy.y);
    T::identical("rgb_yxy.luma", &dy.luma, &vy.luma);
    let dw: Hwb<Linear<Srgb>, T> = Hwb::from_color_unclamped(c);
    let vw: Hwb<Linear<Srgb>, T> = Hwb::from_color_unclamped(Hsv::<Linear<Srgb>, T>::from_color_unclamped(c));
    T::identical("rgb_hwb.w", &dw.whiteness, &vw.whiteness);
    T::identical("rgb_hwb.b", &dw.blackness, &vw.blackness);
    T::identical("rgb_hwb.h", &dw.hue.into_raw_degrees(), &vw.hue.into_raw_degrees());
    let hsl: Hsl<Linear<Srgb>, T> = Hsl::new(T::var("h", 0.0, 360.0), T::var("s", 0.0, 1.0), T::var("li", 0.0, 1.0));
    let dx: Xyz<D65, T> = Xyz::from_color_unclamped(hsl);
    let vx: Xyz<D65, T> = Xyz::from_color_unclamped(LinSrgb::<T>::from_color_unclamped(hsl));
    T::identical("hsl_xyz.x", &dx.x, &vx.x);
    T::identical("hsl_xyz.y", &dx.y, &vx.y);
    T::identical("hsl_xyz.z", &dx.z, &vx.z);
    let lch: Lch<D65, T> = Lch::new(T::var("ll", 0.0, 100.0), T::var("cc", 0.0, 128.0), T::var("hh", 0.0, 360.0));
    let dl: Xyz<D65, T> = Xyz::from_color_unclamped(lch);
    let vl: Xyz<D65, T> = Xyz::from_color_unclamped(Lab::<D65, T>::from_color_unclamped(lch));
    T::identical("lch_xyz.x", &dl.x, &vl.x);
    T::identical("lch_xyz.y", &dl.y, &vl.y);
    T::identical("lch_xyz.z", &dl.z, &vl.z);
});

program!(c01_alpha_passthrough, "C01", "quick", sv,
    "impl FromColorUnclamped<Alpha<C1,T>> / <C1> for Alpha<C2,T> [alpha/alpha.rs]",
    "E-alpha: converting a colour with alpha yields the SAME colour terms as converting the bare colour, and the alpha term is the input alpha; bare -> Alpha gets max_intensity",
{
    let (r, g, b, a) = (T::var("r", 0.0, 1.0), T::var("g", 0.0, 1.0), T::var("b", 0.0, 1.0), T::var("alpha", 0.0, 1.0));
    let bare: LinSrgb<T> = LinSrgb::new(r, g, b);
    let with: Alpha<LinSrgb<T>, T> = Alpha { color: bare, alpha: a };
    let lab: Lab<D65, T> = Lab::from_color_unclamped(bare);
    let laba: Alpha<Lab<D65, T>, T> = Alpha::from_color_unclamped(with);
    T::identical("lab.l", &laba.color.l, &lab.l);
    T::identical("lab.a", &laba.color.a, &lab.a);
    T::identical("lab.b", &laba.color.b, &lab.b);
    T::identical("lab.alpha", &laba.alpha, &a);
    let hsv: Hsv<Linear<Srgb>, T> = Hsv::from_color_unclamped(bare);
    let hsva: Alpha<Hsv<Linear<Srgb>, T>, T> = Alpha::from_color_unclamped(with);
    T::identical("hsv.h", &hsva.color.hue.into_raw_degrees(), &hsv.hue.into_raw_degrees());
    T::identical("hsv.s", &hsva.color.saturation, &hsv.saturation);
    T::identical("hsv.v", &hsva.color.value, &hsv.value);
    T::identical("hsv.alpha", &hsva.alpha, &a);
    // dropping alpha: Alpha<Rgb> -> bare Lab
    let dropped: Lab<D65, T> = Lab::from_color_unclamped(with);
    T::identical("drop.l", &dropped.l, &lab.l);
    T::identical("drop.a", &dropped.a, &lab.a);
    // attaching: bare -> Alpha<Lab> is opaque
    let attached: Alpha<Lab<D65, T>, T> = Alpha::from_color_unclamped(bare);
    T::identical("attach.l", &attached.color.l, &lab.l);
    T::ensure("attach.alpha_is_opaque", T::p_eq(&attached.alpha, &T::k(1.0)));
});

program!(c01_cross_standard, "C01", "quick", v,
    "FromColorUnclamped<Hsl<S1>> for Hsl<S2>, <Hsv<S1>> for Hsv<S2>, <Hwb<S1>> for Hwb<S2>, <Rgb<S1>> for Rgb<S2> (TypeId shortcuts) [hsl.rs, hsv.rs, hwb.rs, rgb/rgb.rs]",
    "E-comp across RGB standards: a direct cylinder-to-cylinder conversion between two standards yields the SAME terms as going through Rgb<S1> -> Rgb<S2>; between identical standards it is the identity (same terms); Srgb <-> Linear<Srgb> differ only by the transfer function",
{
    use palette::encoding::Rec2020;
    let (h, s, l) = (T::var("h", 0.0, 360.0), T::var("s", 0.0, 1.0), T::var("l", 0.0, 1.0));
    let a: Hsl<Srgb, T> = Hsl::new(h, s, l);
    let d: Hsl<Linear<Srgb>, T> = Hsl::from_color_unclamped(a);
    let via: Hsl<Linear<Srgb>, T> = Hsl::from_color_unclamped(palette::rgb::Rgb::<Linear<Srgb>, T>::from_color_unclamped(palette::rgb::Rgb::<Srgb, T>::from_color_unclamped(a)));
    T::identical("hsl.srgb_to_linear.h", &d.hue.into_raw_degrees(), &via.hue.into_raw_degrees());
    T::identical("hsl.srgb_to_linear.s", &d.saturation, &via.saturation);
    T::identical("hsl.srgb_to_linear.l", &d.lightness, &via.lightness);
    let same: Hsl<Srgb, T> = Hsl::from_color_unclamped(a);
    T::identical("hsl.same_standard_identity.s", &same.saturation, &s);
    T::identical("hsl.same_standard_identity.l", &same.lightness, &l);
    let d2: Hsl<Rec2020, T> = Hsl::from_color_unclamped(a);
    let via2: Hsl<Rec2020, T> = Hsl::from_color_unclamped(palette::rgb::Rgb::<Rec2020, T>::from_color_unclamped(palette::rgb::Rgb::<Srgb, T>::from_color_unclamped(a)));
    T::identical("hsl.srgb_to_rec2020.s", &d2.saturation, &via2.saturation);
    T::identical("hsl.srgb_to_rec2020.l", &d2.lightness, &via2.lightness);
    let v: Hsv<Srgb, T> = Hsv::new(h, s, l);
    let dv: Hsv<Linear<Srgb>, T> = Hsv::from_color_unclamped(v);
    let viav: Hsv<Linear<Srgb>, T> = Hsv::from_color_unclamped(palette::rgb::Rgb::<Linear<Srgb>, T>::from_color_unclamped(palette::rgb::Rgb::<Srgb, T>::from_color_unclamped(v)));
    T::identical("hsv.srgb_to_linear.s", &dv.saturation, &viav.saturation);
    T::identical("hsv.srgb_to_linear.v", &dv.value, &viav.value);
    let r: palette::rgb::Rgb<Srgb, T> = palette::rgb::Rgb::new(s, l, T::var("b", 0.0, 1.0));
    let lin: palette::rgb::Rgb<Linear<Srgb>, T> = palette::rgb::Rgb::from_color_unclamped(r);
    T::identical("rgb.srgb_to_linear_is_transfer_function_only", &lin.red, &r.into_linear().red);
    let same_rgb: palette::rgb::Rgb<Srgb, T> = palette::rgb::Rgb::from_color_unclamped(r);
    T::identical("rgb.same_standard_identity", &same_rgb.green, &l);
});

pub fn all() -> Vec<crate::Prog> {
    vec![c01_xyz_lab_xyz::prog(), c01_lab_xyz_lab::prog(), c01_xyz_luv_xyz::prog(), c01_xyz_yxy_xyz::prog(),
         c01_linsrgb_xyz_linsrgb::prog(), c01_srgb_transfer_rt::prog(), c01_rgb_hsv_rgb::prog(), c01_rgb_hsl_rgb::prog(),
         c01_hsv_hwb_hsv::prog(), c01_hsv_hsl_hsv::prog(), c01_xyz_oklab_xyz::prog(), c01_lab_lch_lab::prog(),
         c01_luv_lchuv_luv::prog(), c01_oklab_oklch_oklab::prog(), c01_direct_vs_stepwise::prog(), c01_alpha_passthrough::prog(), c01_cross_standard::prog()]
}
