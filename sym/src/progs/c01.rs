//! C01 — conversions invert (edge round trips).
use crate::logic::*;
use crate::specs;
use palette::convert::FromColorUnclamped;
use palette::white_point::D65;
use palette::{Lab, Xyz};

program!(c01_xyz_lab_xyz, "C01", "quick", sv,
    "FromColorUnclamped<Xyz> for Lab [lab.rs], FromColorUnclamped<Lab> for Xyz [xyz.rs]",
    "E-rt: Xyz -> Lab -> Xyz is the identity on the white-point box, |d| <= 1e-9 per component",
{
    let x = T::var("x", 0.0, 0.95047);
    let y = T::var("y", 0.0, 1.0);
    let z = T::var("z", 0.0, 1.08883);
    let c: Xyz<D65, T> = Xyz::new(x, y, z);
    let lab: Lab<D65, T> = Lab::from_color_unclamped(c);
    let back: Xyz<D65, T> = Xyz::from_color_unclamped(lab);
    let tol = T::tol(1e-9, 1e-6);
    T::ensure("rt.x", abs_le(back.x, x, tol));
    T::ensure("rt.y", abs_le(back.y, y, tol));
    T::ensure("rt.z", abs_le(back.z, z, tol));
    T::output("l", &lab.l);
    let _ = specs::cie_f::<T>;
});

pub fn all() -> Vec<crate::Prog> {
    vec![c01_xyz_lab_xyz::prog()]
}
