//! C15 — gamut-bounded cylinders: HSL, HSV, HWB stay inside the RGB cube for every hue and every in-bounds
//! saturation/value/lightness/whiteness/blackness, and in-gamut RGB lands within the cylinder's bounds.
//! (Okhsl/Okhsv/Okhwb/HSLuv: numerical gamut approximants - not decided by this family, see DESIGN.)
use crate::logic::*;
use palette::convert::FromColorUnclamped;
use palette::encoding::Srgb;
use palette::{Hsl, Hsv, Hwb};
type Rgb<T> = palette::rgb::Rgb<Srgb, T>;

program!(c15_hsv_in_gamut, "C15", "quick", s,
    "FromColorUnclamped<Hsv> for Rgb [rgb/rgb.rs], FromColorUnclamped<Rgb> for Hsv [hsv.rs]",
    "for all hues and all s, v in [0,1]: every RGB component in [0,1]; for all RGB in [0,1]^3: s, v in [0,1]",
{
    let (h, s, v) = (T::var("h", -360.0, 720.0), T::var("s", 0.0, 1.0), T::var("v", 0.0, 1.0));
    let c: Rgb<T> = Rgb::from_color_unclamped(Hsv::<Srgb, T>::new(h, s, v));
    T::ensure("rgb_in_unit_cube", conj::<T>(&[in_range(c.red, -1e-9, 1.0 + 1e-9), in_range(c.green, -1e-9, 1.0 + 1e-9), in_range(c.blue, -1e-9, 1.0 + 1e-9)]));
    let (r, g, b) = (T::var("r", 0.0, 1.0), T::var("g", 0.0, 1.0), T::var("b", 0.0, 1.0));
    let k: Hsv<Srgb, T> = Hsv::from_color_unclamped(Rgb::<T>::new(r, g, b));
    T::output("s", &k.saturation); T::output("v", &k.value); T::output("h", &k.hue.into_raw_degrees());
    T::ensure("hsv_within_bounds", T::p_and(in_range(k.saturation, -1e-9, 1.0 + 1e-9), in_range(k.value, -1e-9, 1.0 + 1e-9)));
});

program!(c15_hsl_in_gamut, "C15", "quick", s,
    "FromColorUnclamped<Hsl> for Rgb [rgb/rgb.rs], FromColorUnclamped<Rgb> for Hsl [hsl.rs]",
    "for all hues and all s, l in [0,1]: every RGB component in [0,1]; for all RGB in [0,1]^3: s, l in [0,1]",
{
    let (h, s, l) = (T::var("h", -360.0, 720.0), T::var("s", 0.0, 1.0), T::var("l", 0.0, 1.0));
    let c: Rgb<T> = Rgb::from_color_unclamped(Hsl::<Srgb, T>::new(h, s, l));
    T::ensure("rgb_in_unit_cube", conj::<T>(&[in_range(c.red, -1e-9, 1.0 + 1e-9), in_range(c.green, -1e-9, 1.0 + 1e-9), in_range(c.blue, -1e-9, 1.0 + 1e-9)]));
    let (r, g, b) = (T::var("r", 0.0, 1.0), T::var("g", 0.0, 1.0), T::var("b", 0.0, 1.0));
    let k: Hsl<Srgb, T> = Hsl::from_color_unclamped(Rgb::<T>::new(r, g, b));
    T::output("s", &k.saturation); T::output("l", &k.lightness);
    T::ensure("hsl_within_bounds", T::p_and(in_range(k.saturation, -1e-9, 1.0 + 1e-9), in_range(k.lightness, -1e-9, 1.0 + 1e-9)));
});

program!(c15_hwb_in_gamut, "C15", "quick", s,
    "FromColorUnclamped<Hwb> for Hsv -> Rgb, FromColorUnclamped<Rgb> -> Hsv -> Hwb [hsv.rs, hwb.rs, rgb/rgb.rs]",
    "for all hues and all w, b >= 0 with w + b <= 1: every RGB component in [0,1]; for all RGB in [0,1]^3: w, b >= 0 and w + b <= 1; and back to the same RGB",
{
    let (h, w, b) = (T::var("h", -360.0, 720.0), T::var("w", 0.0, 1.0), T::var("b", 0.0, 1.0));
    T::assume(T::p_le(&(w + b), &T::k(1.0)));
    let c: Rgb<T> = Rgb::from_color_unclamped(Hwb::<Srgb, T>::new(h, w, b));
    T::ensure("rgb_in_unit_cube", conj::<T>(&[in_range(c.red, -1e-9, 1.0 + 1e-9), in_range(c.green, -1e-9, 1.0 + 1e-9), in_range(c.blue, -1e-9, 1.0 + 1e-9)]));
    let (r, g, bl) = (T::var("r", 0.0, 1.0), T::var("g", 0.0, 1.0), T::var("bl", 0.0, 1.0));
    let k: Hwb<Srgb, T> = Hwb::from_color_unclamped(Rgb::<T>::new(r, g, bl));
    T::output("w", &k.whiteness); T::output("b", &k.blackness);
    T::ensure("hwb_within_bounds", conj::<T>(&[T::p_le(&T::k(-1e-9), &k.whiteness), T::p_le(&T::k(-1e-9), &k.blackness), T::p_le(&(k.whiteness + k.blackness), &T::k(1.0 + 1e-9))]));
    let back: Rgb<T> = Rgb::from_color_unclamped(k);
    let tol = T::tol(1e-9, 1e-5);
    T::ensure("rgb_hwb_rgb", conj::<T>(&[abs_le(back.red, r, tol), abs_le(back.green, g, tol), abs_le(back.blue, bl, tol)]));
});

pub fn all() -> Vec<crate::Prog> {
    vec![c15_hsv_in_gamut::prog(), c15_hsl_in_gamut::prog(), c15_hwb_in_gamut::prog()]
}
