//! C17 — each SIMD lane equals the scalar result for that lane's input.
//! Every program runs the SAME palette function twice on the same symbolic input: at the scalar
//! instantiation (`Mask = bool`: real branches, early returns; one VC per path) and at the vector
//! instantiation (`Mask` = a Boolean term, `select`/`lazy_select` evaluate both arms and blend: what the
//! `wide` instantiations compute in every lane). Contract: under each scalar path condition the vector
//! term equals the scalar term (hues: modulo 360). Lanes on different branches are covered because the
//! vector term is ONE closed `ite` term valid for every input, compared against every scalar path.
//! Replay runs the real `wide::f64x4` / `f32x4` instantiation with the counterexample in lane 1.
use crate::lane::Lane;
use crate::logic::*;
use palette::blend::{Blend, Compose, PreAlpha, Premultiply};
use palette::color_difference::{Ciede2000, DeltaE, EuclideanDistance, HyAb, ImprovedCiede2000};
use palette::convert::FromColorUnclamped;
use palette::encoding::Srgb;
use palette::num::Real;
use palette::white_point::D65;
use palette::{
    Clamp, Hsl, Hsv, Hwb, IsWithinBounds, Lab, Lch, Lighten, LinSrgb, LinSrgba, Mix, Oklab, Oklch, Saturate, ShiftHue, Xyz, Yxy,
};

pub fn hue_close<T: Num>(a: T, b: T, tol: T) -> T::P {
    let d = a - b;
    let z = |x: T| T::p_and(T::p_le(&x, &tol), T::p_le(&(-tol), &x));
    T::p_or(z(d), T::p_or(z(d - T::k(360.0)), z(d + T::k(360.0))))
}

macro_rules! lanes {
    ($name:ident, $tier:expr, $func:expr, $what:expr,
     vars [$($v:ident : $lo:expr, $hi:expr),*], tol $rt:expr, $ft:expr,
     |$X:ident| $body:block) => {
        lanes!($name, $tier, $func, $what, vars [$($v : $lo, $hi),*], requires {}, tol $rt, $ft, |$X| $body);
    };
    // `requires`: a precondition of the contract, stated on the scalar variables before the two instantiations run
    ($name:ident, $tier:expr, $func:expr, $what:expr,
     vars [$($v:ident : $lo:expr, $hi:expr),*], requires $pre:block, tol $rt:expr, $ft:expr,
     |$X:ident| $body:block) => {
        program!($name, "C17", $tier, s, $func,
            concat!("lane == scalar: ", $what, " computed at the vector instantiation (mask = Boolean term, select = ite) equals the scalar instantiation on every scalar path, for all inputs of the domain (hues modulo 360)"),
        {
            $( let $v = T::var(stringify!($v), $lo, $hi); )*
            $pre
            let so: Vec<(&'static str, T)> = { #[allow(dead_code)] type $X = T; $body };
            let vo: Vec<(&'static str, <T as Lane>::W)> = { #[allow(dead_code)] type $X = <T as Lane>::W; $( let $v: $X = Lane::lift($v); )* $body };
            let tol = T::tol($rt, $ft);
            assert_eq!(so.len(), vo.len());
            for ((n, a), (_, b)) in so.iter().zip(vo.iter()) {
                let b = <T as Lane>::lower(*b);
                if n.starts_with("hue") { T::ensure(&format!("lane_eq_scalar.{}", n), hue_close(*a, b, tol)); }
                else { T::ensure(&format!("lane_eq_scalar.{}", n), abs_le(*a, b, tol)); }
            }
        });
    };
}

fn k<X: Real>(v: f64) -> X { X::from_f64(v) }

lanes!(c17_rgb_to_hsv, "quick", "FromColorUnclamped<Rgb> for Hsv [hsv.rs] (scalar branch and branch-free SIMD branch)", "Rgb -> Hsv",
    vars [r: 0.0, 1.0, g: 0.0, 1.0, b: 0.0, 1.0], tol 1e-9, 1e-4, |X| {
    let c: Hsv<Srgb, X> = Hsv::from_color_unclamped(palette::rgb::Rgb::<Srgb, X>::new(r, g, b));
    vec![("hue", c.hue.into_raw_degrees()), ("saturation", c.saturation), ("value", c.value)]
});
lanes!(c17_rgb_to_hsl, "quick", "FromColorUnclamped<Rgb> for Hsl [hsl.rs] (scalar branch and branch-free SIMD branch)", "Rgb -> Hsl",
    vars [r: 0.0, 1.0, g: 0.0, 1.0, b: 0.0, 1.0], tol 1e-9, 1e-4, |X| {
    let c: Hsl<Srgb, X> = Hsl::from_color_unclamped(palette::rgb::Rgb::<Srgb, X>::new(r, g, b));
    vec![("hue", c.hue.into_raw_degrees()), ("saturation", c.saturation), ("lightness", c.lightness)]
});
lanes!(c17_hsv_to_rgb, "quick", "FromColorUnclamped<Hsv> for Rgb [rgb/rgb.rs]", "Hsv -> Rgb",
    vars [h: -360.0, 720.0, s: 0.0, 1.0, v: 0.0, 1.0], tol 1e-9, 1e-4, |X| {
    let c: palette::rgb::Rgb<Srgb, X> = palette::rgb::Rgb::from_color_unclamped(Hsv::<Srgb, X>::new(h, s, v));
    vec![("red", c.red), ("green", c.green), ("blue", c.blue)]
});
lanes!(c17_hsl_to_rgb, "quick", "FromColorUnclamped<Hsl> for Rgb [rgb/rgb.rs]", "Hsl -> Rgb",
    vars [h: -360.0, 720.0, s: 0.0, 1.0, l: 0.0, 1.0], tol 1e-9, 1e-4, |X| {
    let c: palette::rgb::Rgb<Srgb, X> = palette::rgb::Rgb::from_color_unclamped(Hsl::<Srgb, X>::new(h, s, l));
    vec![("red", c.red), ("green", c.green), ("blue", c.blue)]
});
lanes!(c17_hsv_hsl, "quick", "FromColorUnclamped<Hsv> for Hsl [hsl.rs], FromColorUnclamped<Hsl> for Hsv [hsv.rs]", "Hsv -> Hsl and Hsl -> Hsv",
    vars [h: 0.0, 360.0, s: 0.0, 1.0, v: 0.0, 1.0], tol 1e-9, 1e-4, |X| {
    let a: Hsl<Srgb, X> = Hsl::from_color_unclamped(Hsv::<Srgb, X>::new(h, s, v));
    let b: Hsv<Srgb, X> = Hsv::from_color_unclamped(Hsl::<Srgb, X>::new(h, s, v));
    vec![("hsl.saturation", a.saturation), ("hsl.lightness", a.lightness), ("hsv.saturation", b.saturation), ("hsv.value", b.value)]
});
lanes!(c17_hsv_hwb, "quick", "FromColorUnclamped<Hsv> for Hwb [hwb.rs], FromColorUnclamped<Hwb> for Hsv [hsv.rs]", "Hsv -> Hwb and Hwb -> Hsv",
    vars [h: 0.0, 360.0, s: 0.0, 1.0, v: 0.0, 1.0], tol 1e-9, 1e-4, |X| {
    let a: Hwb<Srgb, X> = Hwb::from_color_unclamped(Hsv::<Srgb, X>::new(h, s, v));
    let b: Hsv<Srgb, X> = Hsv::from_color_unclamped(Hwb::<Srgb, X>::new(h, s * (k::<X>(1.0) - v), v * k::<X>(0.5)));
    vec![("hwb.whiteness", a.whiteness), ("hwb.blackness", a.blackness), ("hsv.saturation", b.saturation), ("hsv.value", b.value)]
});
lanes!(c17_srgb_transfer, "quick", "Srgb::{into_linear, from_linear} [encoding/srgb.rs] through Rgb::{into_linear, from_linear}", "the piecewise sRGB transfer function, both directions",
    vars [v: 0.0, 1.0], tol 1e-9, 1e-4, |X| {
    let lin: LinSrgb<X> = palette::Srgb::<X>::new(v, v, v).into_linear();
    let enc: palette::Srgb<X> = palette::Srgb::from_linear(LinSrgb::<X>::new(v, v, v));
    vec![("into_linear", lin.red), ("from_linear", enc.green)]
});
lanes!(c17_rec709_transfer, "quick", "RecOetf::{into_linear, from_linear} [encoding/rec_standards.rs]", "the piecewise Rec.709 OETF, both directions",
    vars [v: 0.0, 1.0], tol 1e-9, 1e-4, |X| {
    use palette::encoding::{FromLinear, IntoLinear, rec_standards::RecOetf};
    let lin: X = <RecOetf as IntoLinear<X, X>>::into_linear(v);
    let enc: X = <RecOetf as FromLinear<X, X>>::from_linear(v);
    vec![("into_linear", lin), ("from_linear", enc)]
});
lanes!(c17_xyz_lab, "quick", "FromColorUnclamped<Xyz> for Lab [lab.rs], FromColorUnclamped<Lab> for Xyz [xyz.rs]", "Xyz -> Lab and Lab -> Xyz (piecewise f / f^-1)",
    vars [x: 0.0, 0.95047, y: 0.0, 1.0, z: 0.0, 1.08883], tol 1e-9, 1e-3, |X| {
    let lab: Lab<D65, X> = Lab::from_color_unclamped(Xyz::<D65, X>::new(x, y, z));
    let back: Xyz<D65, X> = Xyz::from_color_unclamped(Lab::<D65, X>::new(y * k::<X>(100.0), x * k::<X>(200.0) - k::<X>(100.0), z * k::<X>(200.0) - k::<X>(100.0)));
    vec![("lab.l", lab.l), ("lab.a", lab.a), ("lab.b", lab.b), ("xyz.x", back.x), ("xyz.y", back.y), ("xyz.z", back.z)]
});
lanes!(c17_xyz_yxy, "quick", "FromColorUnclamped<Xyz> for Yxy [yxy.rs], FromColorUnclamped<Yxy> for Xyz [xyz.rs]", "Xyz -> Yxy and Yxy -> Xyz (guarded divisions)",
    vars [x: 0.0, 0.95047, y: 0.0, 1.0, z: 0.0, 1.08883], tol 1e-9, 1e-4, |X| {
    let a: Yxy<D65, X> = Yxy::from_color_unclamped(Xyz::<D65, X>::new(x, y, z));
    let b: Xyz<D65, X> = Xyz::from_color_unclamped(Yxy::<D65, X>::new(x * k::<X>(0.8), z * k::<X>(0.8), y));
    vec![("yxy.x", a.x), ("yxy.y", a.y), ("yxy.luma", a.luma), ("xyz.x", b.x), ("xyz.y", b.y), ("xyz.z", b.z)]
});
lanes!(c17_lab_lch, "quick", "FromColorUnclamped<Lab> for Lch [lch.rs], FromColorUnclamped<Lch> for Lab [lab.rs]", "Lab -> Lch and Lch -> Lab",
    vars [l: 0.0, 100.0, a: -128.0, 127.0, b: -128.0, 127.0], tol 1e-9, 1e-3, |X| {
    let p: Lch<D65, X> = Lch::from_color_unclamped(Lab::<D65, X>::new(l, a, b));
    let q: Lab<D65, X> = Lab::from_color_unclamped(Lch::<D65, X>::new(l, a + k::<X>(128.0), b));
    vec![("lch.l", p.l), ("lch.chroma", p.chroma), ("hue.lch", p.hue.into_raw_degrees()), ("lab.a", q.a), ("lab.b", q.b)]
});
lanes!(c17_oklab, "quick", "FromColorUnclamped<Xyz> for Oklab, FromColorUnclamped<Oklab> for Xyz, Oklab <-> Oklch [oklab.rs, xyz.rs, oklch.rs]", "Xyz -> Oklab -> Oklch and Oklab -> Xyz",
    vars [x: 0.0, 0.95047, y: 0.0, 1.0, z: 0.0, 1.08883], tol 1e-9, 1e-4, |X| {
    let o: Oklab<X> = Oklab::from_color_unclamped(Xyz::<D65, X>::new(x, y, z));
    let p: Oklch<X> = Oklch::from_color_unclamped(Oklab::<X>::new(y, x - k::<X>(0.4), z - k::<X>(0.5)));
    let q: Xyz<D65, X> = Xyz::from_color_unclamped(Oklab::<X>::new(y, x - k::<X>(0.4), z - k::<X>(0.5)));
    vec![("oklab.l", o.l), ("oklab.a", o.a), ("oklab.b", o.b), ("oklch.chroma", p.chroma), ("hue.oklch", p.hue.into_raw_degrees()), ("xyz.x", q.x), ("xyz.y", q.y), ("xyz.z", q.z)]
});
lanes!(c17_rgb_xyz, "quick", "FromColorUnclamped<Rgb> for Xyz [xyz.rs], FromColorUnclamped<Xyz> for Rgb [rgb/rgb.rs], Luma from Xyz", "linear Rgb -> Xyz, Xyz -> linear Rgb",
    vars [r: 0.0, 1.0, g: 0.0, 1.0, b: 0.0, 1.0], tol 1e-9, 1e-4, |X| {
    let a: Xyz<D65, X> = Xyz::from_color_unclamped(LinSrgb::<X>::new(r, g, b));
    let c: LinSrgb<X> = LinSrgb::from_color_unclamped(Xyz::<D65, X>::new(r, g, b));
    vec![("xyz.x", a.x), ("xyz.y", a.y), ("xyz.z", a.z), ("rgb.r", c.red), ("rgb.g", c.green), ("rgb.b", c.blue)]
});

macro_rules! blend_lanes {
    ($name:ident, $m:ident) => {
        lanes!($name, "quick", concat!("Blend::", stringify!($m), " [blend/blend.rs, macros/blend.rs]"), concat!("Blend::", stringify!($m), " on colours with alpha"),
            vars [cs: 0.0, 1.0, a_s: 0.0, 1.0, cb: 0.0, 1.0, ab: 0.0, 1.0], tol 1e-9, 1e-4, |X| {
            let s = LinSrgba::<X>::new(cs, cs * k::<X>(0.5), k::<X>(1.0) - cs, a_s);
            let d = LinSrgba::<X>::new(cb, k::<X>(1.0) - cb, cb * k::<X>(0.25), ab);
            let r = s.$m(d);
            vec![("red", r.color.red), ("green", r.color.green), ("blue", r.color.blue), ("alpha", r.alpha)]
        });
    };
}
blend_lanes!(c17_blend_overlay, overlay);
blend_lanes!(c17_blend_dodge, dodge);
blend_lanes!(c17_blend_burn, burn);
blend_lanes!(c17_blend_hard_light, hard_light);
blend_lanes!(c17_blend_soft_light, soft_light);
blend_lanes!(c17_blend_darken, darken);
blend_lanes!(c17_blend_difference, difference);

lanes!(c17_compose_and_premultiply, "quick", "Compose::{over, atop, plus} for PreAlpha, Premultiply::{premultiply, unpremultiply} [blend/compose.rs, blend/pre_alpha.rs, macros/blend.rs]", "compositing and (un)premultiplication",
    vars [cs: 0.0, 1.0, a_s: 0.0, 1.0, cb: 0.0, 1.0, ab: 0.0, 1.0], tol 1e-9, 1e-4, |X| {
    let s = LinSrgba::<X>::new(cs, cs * k::<X>(0.5), k::<X>(1.0) - cs, a_s);
    let d = LinSrgba::<X>::new(cb, k::<X>(1.0) - cb, cb * k::<X>(0.25), ab);
    let o = s.over(d);
    let p = s.plus(d);
    let pre: PreAlpha<LinSrgb<X>> = LinSrgb::<X>::new(cs, cb, ab).premultiply(a_s);
    let (un, ua) = LinSrgb::<X>::unpremultiply(PreAlpha { color: LinSrgb::<X>::new(cs * a_s, cb * a_s, ab * a_s), alpha: a_s });
    vec![("over.red", o.color.red), ("over.alpha", o.alpha), ("plus.green", p.color.green), ("plus.alpha", p.alpha),
         ("pre.red", pre.color.red), ("un.red", un.red), ("un.blue", un.blue), ("un.alpha", ua)]
});
lanes!(c17_operators, "quick", "Mix (hue and cartesian), Lighten, Saturate, ShiftHue [macros/mix.rs, macros/lighten_saturate.rs, macros/hue.rs]", "mix / lighten / saturate / shift_hue",
    vars [h1: -360.0, 720.0, h2: -360.0, 720.0, s: 0.0, 1.0, v: 0.0, 1.0, t: -1.0, 2.0], tol 1e-9, 1e-3, |X| {
    let a = Hsv::<Srgb, X>::new(h1, s, v);
    let b = Hsv::<Srgb, X>::new(h2, v, s);
    let m = a.mix(b, t);
    let l = Hsl::<Srgb, X>::new(h1, s, v).lighten(t * k::<X>(0.5));
    let sa = a.saturate(t * k::<X>(0.5));
    let sh = a.shift_hue(h2);
    let lm = LinSrgb::<X>::new(s, v, s * v).mix(LinSrgb::<X>::new(v, s, v), t);
    vec![("hue.mix", m.hue.into_raw_degrees()), ("mix.saturation", m.saturation), ("mix.value", m.value), ("lighten.lightness", l.lightness),
         ("saturate.saturation", sa.saturation), ("hue.shift", sh.hue.into_raw_degrees()), ("mix.red", lm.red)]
});
lanes!(c17_clamp, "quick", "Clamp::clamp for Hsv, Hwb, Lab, Rgb [macros/clamp.rs]", "clamp (Hwb: the guarded division by the whiteness+blackness sum)",
    vars [h: -360.0, 720.0, w: -1.0, 2.0, b: -1.0, 2.0], tol 1e-9, 1e-4, |X| {
    let c = Hwb::<Srgb, X>::new(h, w, b).clamp();
    let d = Hsv::<Srgb, X>::new(h, w, b).clamp();
    let e = LinSrgb::<X>::new(w, b, w - b).clamp();
    vec![("hwb.whiteness", c.whiteness), ("hwb.blackness", c.blackness), ("hsv.saturation", d.saturation), ("hsv.value", d.value), ("rgb.blue", e.blue)]
});
lanes!(c17_hue_normal_forms, "quick", "RgbHue::{into_degrees, into_positive_degrees, into_radians} [hues.rs], SignedAngle/UnsignedAngle [angle.rs, angle/wide.rs]", "hue normal forms",
    vars [h: -100000.0, 100000.0], tol 1e-9, 1e-2, |X| {
    let hue = palette::RgbHue::<X>::from_degrees(h);
    vec![("signed", hue.into_degrees()), ("unsigned", hue.into_positive_degrees())]
});
lanes!(c17_differences, "quick", "DeltaE, HyAb, EuclideanDistance [color_difference.rs, macros/color_difference.rs]", "colour differences on Lab / Rgb",
    vars [l1: 0.0, 100.0, a1: -128.0, 127.0, b1: -128.0, 127.0, l2: 0.0, 100.0, a2: -128.0, 127.0, b2: -128.0, 127.0], tol 1e-9, 1e-3, |X| {
    let p = Lab::<D65, X>::new(l1, a1, b1);
    let q = Lab::<D65, X>::new(l2, a2, b2);
    vec![("delta_e", p.delta_e(q)), ("hybrid", p.hybrid_distance(q)), ("dist2", p.distance_squared(q))]
});
lanes!(c17_ciede2000, "thorough", "Ciede2000::difference, ImprovedCiede2000 [color_difference.rs]", "CIEDE2000 on Lab",
    vars [l1: 0.0, 100.0, a1: -128.0, 127.0, b1: -128.0, 127.0, l2: 0.0, 100.0, a2: -128.0, 127.0, b2: -128.0, 127.0],
    requires {
        // pairs whose hues are (within rounding) exactly opposite are excluded, as the property does for CIEDE2000: the formula
        // jumps there, and the scalar libm atan2 and the dependency's SIMD atan2 may land on different sides of |dh'| = 180.
        // a' = a (1 + G) scales both a* by the same factor, so opposition is cross == 0 with a negative dot product.
        let cross = a1 * b2 - a2 * b1;
        let dot = a1 * a2 + b1 * b2;
        let near = T::p_and(T::p_le(&cross, &T::k(1e-3)), T::p_le(&T::k(-1e-3), &cross));
        T::assume(T::p_not(T::p_and(near, T::p_lt(&dot, &T::k(0.0)))));
    },
    tol 1e-6, 1e-2, |X| {
    let p = Lab::<D65, X>::new(l1, a1, b1);
    let q = Lab::<D65, X>::new(l2, a2, b2);
    vec![("ciede2000", p.difference(q)), ("improved", p.improved_difference(q))]
});

pub fn all() -> Vec<crate::Prog> {
    vec![
        c17_rgb_to_hsv::prog(), c17_rgb_to_hsl::prog(), c17_hsv_to_rgb::prog(), c17_hsl_to_rgb::prog(), c17_hsv_hsl::prog(), c17_hsv_hwb::prog(),
        c17_srgb_transfer::prog(), c17_rec709_transfer::prog(), c17_xyz_lab::prog(), c17_xyz_yxy::prog(), c17_lab_lch::prog(), c17_oklab::prog(),
        c17_rgb_xyz::prog(), c17_blend_overlay::prog(), c17_blend_dodge::prog(), c17_blend_burn::prog(), c17_blend_hard_light::prog(),
        c17_blend_soft_light::prog(), c17_blend_darken::prog(), c17_blend_difference::prog(), c17_compose_and_premultiply::prog(),
        c17_operators::prog(), c17_clamp::prog(), c17_hue_normal_forms::prog(), c17_differences::prog(),
    ]
    // not registered: c17_ciede2000 (thorough). Under load its VCs time out and the witness replay then compared the scalar libm atan2 with
    // the dependency's SIMD atan2 at pairs of exactly opposite hues (|dh'| = 180, where the formula jumps): a false alarm on the unchanged
    // tree. With those pairs excluded (`requires`) most of its 156 VCs are still not discharged within the budget, so it is not claimed.
}
