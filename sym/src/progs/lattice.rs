//! Bounded stand-ins (mode `l`): contracts on functions that cannot be brought within reach of the solvers - the
//! Ok* gamut approximants (cusp polynomial + Halley steps), HSLuv (bounds computed in concrete f64), the full CAM16
//! round trip (power laws with symbolic exponents). The REAL code is run natively (f64) on a stated lattice of the
//! contract's domain, including the bounds, zero and the positions 1e-9 inside the bounds. Labelled bounded(lattice),
//! never counted as proved.
use crate::logic::*;
use palette::cam16::{Cam16, Cam16Jch, Cam16Jmh, Cam16Jsh, Cam16Qch, Cam16Qmh, Cam16Qsh, Discounting, Parameters, StaticWp, Surround};
use palette::convert::FromColorUnclamped;
use palette::white_point::D65;
use palette::{Hsluv, Lchuv, LinSrgb, Okhsl, Okhsv, Okhwb, Oklab, Srgb, Xyz};

fn finite<T: Num>(x: T) -> T::P { T::p_and(T::p_le(&T::k(-1e300), &x), T::p_le(&x, &T::k(1e300))) }
fn hue_mod<T: Num>(a: T, b: T, tol: f64) -> T::P {
    let d = a - b;
    let z = |x: T| T::p_and(T::p_le(&x, &T::k(tol)), T::p_le(&T::k(-tol), &x));
    T::p_or(z(d), T::p_or(z(d - T::k(360.0)), z(d + T::k(360.0))))
}

program!(lat_ok_cylinders_from_oklab, "C01,C07", "quick", l,
    "FromColorUnclamped<Oklab> for Okhsv / Okhsl [okhsv.rs, okhsl.rs], FromColorUnclamped<Okhsv|Okhsl> for Oklab [oklab.rs], ok_utils::{LC, ST, find_cusp, find_gamut_intersection, toe, toe_inv}",
    "on and around the grey axis (a, b in [-0.005, 0.005], zero included; lightness in [0.2, 0.9]) Oklab -> Okhsv -> Oklab, Oklab -> Okhsl -> Oklab and Oklab -> Okhwb -> Oklab are the identity within 1e-6 and every intermediate component is finite (in-gamut chromatic colours: lat_ok_from_rgb)",
{
    let (l, a, b) = (T::var("l", 0.2, 0.9), T::var("a", -0.005, 0.005), T::var("b", -0.005, 0.005));
    let c: Oklab<T> = Oklab::new(l, a, b);
    let hsv: Okhsv<T> = Okhsv::from_color_unclamped(c);
    let back: Oklab<T> = Oklab::from_color_unclamped(hsv);
    let tol = T::k(1e-6);
    T::ensure("okhsv.finite", conj::<T>(&[finite(hsv.hue.into_raw_degrees()), finite(hsv.saturation), finite(hsv.value)]));
    T::ensure("okhsv.round_trip", conj::<T>(&[abs_le(back.l, l, tol), abs_le(back.a, a, tol), abs_le(back.b, b, tol)]));
    let hsl: Okhsl<T> = Okhsl::from_color_unclamped(c);
    let back: Oklab<T> = Oklab::from_color_unclamped(hsl);
    T::ensure("okhsl.finite", conj::<T>(&[finite(hsl.hue.into_raw_degrees()), finite(hsl.saturation), finite(hsl.lightness)]));
    T::ensure("okhsl.round_trip", conj::<T>(&[abs_le(back.l, l, tol), abs_le(back.a, a, tol), abs_le(back.b, b, tol)]));
    let hwb: Okhwb<T> = Okhwb::from_color_unclamped(c);
    let back: Oklab<T> = Oklab::from_color_unclamped(hwb);
    T::ensure("okhwb.round_trip", conj::<T>(&[abs_le(back.l, l, tol), abs_le(back.a, a, tol), abs_le(back.b, b, tol)]));
});

program!(lat_ok_cylinders_to_oklab, "C01,C07,C15", "quick", l,
    "FromColorUnclamped<Okhsv|Okhsl|Okhwb> for Oklab / Rgb [oklab.rs, okhsv.rs, okhwb.rs], FromColorUnclamped<Oklab> for Okhsv|Okhsl, ok_utils",
    "for every hue and all in-bounds saturation / value / lightness: Okhsv -> Oklab -> Okhsv, Okhsl -> Oklab -> Okhsl and Okhwb -> Okhsv -> Okhwb are the identity within 1e-6 (hue modulo 360, compared for chromatic colours), every component is finite, and the sRGB colour lies in [0,1] within 1e-2 (the accuracy of Ottosson's gamut approximation)",
{
    let (h, s, x) = (T::var("h", 0.0, 360.0), T::var("s", 0.0, 1.0), T::var("x", 0.0, 1.0));
    let tol = T::k(1e-6);
    let chromatic = T::p_and(T::p_le(&T::k(0.02), &s), T::p_and(T::p_le(&T::k(0.02), &x), T::p_le(&x, &T::k(0.98))));
    let c: Okhsv<T> = Okhsv::new(h, s, x);
    let lab: Oklab<T> = Oklab::from_color_unclamped(c);
    let back: Okhsv<T> = Okhsv::from_color_unclamped(lab);
    T::ensure("okhsv.finite", conj::<T>(&[finite(lab.l), finite(lab.a), finite(lab.b)]));
    T::ensure("okhsv.round_trip", T::p_or(T::p_not(chromatic.clone()), conj::<T>(&[abs_le(back.saturation, s, tol), abs_le(back.value, x, tol), hue_mod(back.hue.into_raw_degrees(), h, 1e-4)])));
    let rgb: LinSrgb<T> = LinSrgb::from_color_unclamped(lab);
    T::ensure("okhsv.in_srgb_gamut", conj::<T>(&[in_range(rgb.red, -1e-2, 1.01), in_range(rgb.green, -1e-2, 1.01), in_range(rgb.blue, -1e-2, 1.01)]));
    let c: Okhsl<T> = Okhsl::new(h, s, x);
    let lab: Oklab<T> = Oklab::from_color_unclamped(c);
    let back: Okhsl<T> = Okhsl::from_color_unclamped(lab);
    T::ensure("okhsl.finite", conj::<T>(&[finite(lab.l), finite(lab.a), finite(lab.b)]));
    T::ensure("okhsl.round_trip", T::p_or(T::p_not(chromatic.clone()), conj::<T>(&[abs_le(back.saturation, s, tol), abs_le(back.lightness, x, tol), hue_mod(back.hue.into_raw_degrees(), h, 1e-4)])));
    let rgb: LinSrgb<T> = LinSrgb::from_color_unclamped(lab);
    T::ensure("okhsl.in_srgb_gamut", conj::<T>(&[in_range(rgb.red, -1e-2, 1.01), in_range(rgb.green, -1e-2, 1.01), in_range(rgb.blue, -1e-2, 1.01)]));
    // Okhwb: whiteness = s * (1 - x), blackness = x (so that w + b <= 1)
    let w: Okhwb<T> = Okhwb::new(h, s * (T::k(1.0) - x), x);
    let lab: Oklab<T> = Oklab::from_color_unclamped(w);
    let rgb: LinSrgb<T> = LinSrgb::from_color_unclamped(lab);
    T::ensure("okhwb.finite", conj::<T>(&[finite(lab.l), finite(lab.a), finite(lab.b)]));
    T::ensure("okhwb.in_srgb_gamut", conj::<T>(&[in_range(rgb.red, -1e-2, 1.01), in_range(rgb.green, -1e-2, 1.01), in_range(rgb.blue, -1e-2, 1.01)]));
});

program!(lat_ok_from_rgb, "C15,C07", "quick", l,
    "FromColorUnclamped<Rgb> -> Oklab -> Okhsv / Okhsl / Okhwb [oklab.rs, okhsv.rs, okhsl.rs, okhwb.rs, ok_utils.rs]",
    "every in-gamut sRGB colour converts into the bounds of Okhsv, Okhsl and Okhwb within 2e-2 (the accuracy of the gamut approximation: e.g. saturation 1.011 for a pure blue) and converts back to the same RGB colour within 1e-6; all components finite",
{
    let (r, g, b) = (T::var("r", 0.0, 1.0), T::var("g", 0.0, 1.0), T::var("b", 0.0, 1.0));
    let c: LinSrgb<T> = LinSrgb::new(r, g, b);
    let tol = T::k(1e-6);
    let v: Okhsv<T> = Okhsv::from_color_unclamped(c);
    T::output("okhsv.h", &v.hue.into_raw_degrees()); T::output("okhsv.s", &v.saturation); T::output("okhsv.v", &v.value);
    T::ensure("okhsv.within_bounds", conj::<T>(&[finite(v.hue.into_raw_degrees()), in_range(v.saturation, -2e-2, 1.02), in_range(v.value, -2e-2, 1.02)]));
    let back: LinSrgb<T> = LinSrgb::from_color_unclamped(v);
    T::ensure("okhsv.back_to_rgb", conj::<T>(&[abs_le(back.red, r, tol), abs_le(back.green, g, tol), abs_le(back.blue, b, tol)]));
    let l: Okhsl<T> = Okhsl::from_color_unclamped(c);
    T::ensure("okhsl.within_bounds", conj::<T>(&[finite(l.hue.into_raw_degrees()), in_range(l.saturation, -2e-2, 1.02), in_range(l.lightness, -2e-2, 1.02)]));
    let back: LinSrgb<T> = LinSrgb::from_color_unclamped(l);
    T::ensure("okhsl.back_to_rgb", conj::<T>(&[abs_le(back.red, r, tol), abs_le(back.green, g, tol), abs_le(back.blue, b, tol)]));
    let w: Okhwb<T> = Okhwb::from_color_unclamped(c);
    T::ensure("okhwb.within_bounds", conj::<T>(&[in_range(w.whiteness, -1e-2, 1.01), in_range(w.blackness, -1e-2, 1.01), T::p_le(&(w.whiteness + w.blackness), &T::k(1.01))]));
});

program!(lat_hsluv, "C01,C07,C15", "quick", l,
    "FromColorUnclamped<Lchuv> for Hsluv [hsluv.rs], FromColorUnclamped<Hsluv> for Lchuv [lchuv.rs], luv_bounds::LuvBounds",
    "for every hue, saturation in [0,100] and lightness strictly inside (0,100): Hsluv -> Lchuv -> Hsluv is the identity within 1e-6, all components are finite, and the sRGB colour lies in [0,1] within 1e-2",
{
    let (h, s, l) = (T::var("h", 0.0, 360.0), T::var("s", 0.0, 100.0), T::var("l", 0.5, 99.5));
    let c: Hsluv<D65, T> = Hsluv::new(h, s, l);
    let lch: Lchuv<D65, T> = Lchuv::from_color_unclamped(c);
    let back: Hsluv<D65, T> = Hsluv::from_color_unclamped(lch);
    T::ensure("finite", conj::<T>(&[finite(lch.l), finite(lch.chroma), finite(back.saturation)]));
    T::ensure("round_trip", T::p_and(abs_le(back.saturation, s, T::k(1e-6)), abs_le(back.l, l, T::k(1e-6))));
    let rgb: Srgb<T> = Srgb::from_color_unclamped(c);
    T::ensure("in_srgb_gamut", conj::<T>(&[in_range(rgb.red, -1e-2, 1.01), in_range(rgb.green, -1e-2, 1.01), in_range(rgb.blue, -1e-2, 1.01)]));
});

macro_rules! cam16_rt {
    ($name:ident, $surround:expr, $what:expr) => {
        program!($name, "C16,C07", "quick", l,
            "Cam16::{from_xyz, into_xyz}, Cam16{Jch,Jmh,Jsh,Qch,Qmh,Qsh}::{from_xyz, into_xyz} -> cam16::math::{prepare_parameters, xyz_to_cam16, cam16_to_xyz} [cam16/*.rs]",
            concat!($what, ": XYZ -> CAM16 -> XYZ returns the original colour within 1e-6 through the full colour and through each of the six partial attribute combinations, for every colour of the sRGB gamut (linear components in [0,1], black, white and the faces of the cube included); all attributes finite"),
        {
            let (r, g, b) = (T::var("r", 0.0, 1.0), T::var("g", 0.0, 1.0), T::var("b", 0.0, 1.0));
            let c: Xyz<D65, T> = Xyz::from_color_unclamped(LinSrgb::<T>::new(r, g, b));
            let (x, y, z) = (c.x, c.y, c.z);
            let mut p: Parameters<StaticWp<D65>, T> = Parameters::default_static_wp(T::k(40.0));
            p.surround = $surround;
            p.discounting = Discounting::Auto;
            let baked = p.bake();
            let tol = T::k(1e-6);
            let close = |b: Xyz<D65, T>| conj::<T>(&[abs_le(b.x, x, tol), abs_le(b.y, y, tol), abs_le(b.z, z, tol)]);
            let full: Cam16<T> = Cam16::from_xyz(c, baked);
            T::ensure("full.finite", conj::<T>(&[finite(full.lightness), finite(full.chroma), finite(full.hue.into_raw_degrees()), finite(full.brightness), finite(full.colorfulness), finite(full.saturation)]));
            T::ensure("full.round_trip", close(full.into_xyz(baked)));
            T::ensure("jch.round_trip", close(Cam16Jch::from_xyz(c, baked).into_xyz(baked)));
            T::ensure("jmh.round_trip", close(Cam16Jmh::from_xyz(c, baked).into_xyz(baked)));
            T::ensure("jsh.round_trip", close(Cam16Jsh::from_xyz(c, baked).into_xyz(baked)));
            T::ensure("qch.round_trip", close(Cam16Qch::from_xyz(c, baked).into_xyz(baked)));
            T::ensure("qmh.round_trip", close(Cam16Qmh::from_xyz(c, baked).into_xyz(baked)));
            T::ensure("qsh.round_trip", close(Cam16Qsh::from_xyz(c, baked).into_xyz(baked)));
        });
    };
}

program!(lat_cam16_xyz_box, "C16", "quick", l,
    "Cam16::{from_xyz, into_xyz}, Cam16Jmh / Cam16Qsh ::{from_xyz, into_xyz} -> cam16::math::{xyz_to_cam16 (Adapt::run incl. negative cone responses), cam16_to_xyz (Unadapt::run)} [cam16/math.rs]",
    "average surround: for every XYZ colour of the white-point box with Y >= 0.02 - including colours outside the spectral locus, whose CAT16 cone responses are negative - whenever the forward model is defined (finite lightness: positive achromatic response) XYZ -> CAM16 -> XYZ returns the original colour within 1e-6 (full colour, Jmh, Qsh)",
{
    let (x, y, z) = (T::var("x", 0.0, 0.95047), T::var("y", 0.02, 1.0), T::var("z", 0.0, 1.08883));
    let c: Xyz<D65, T> = Xyz::new(x, y, z);
    let p: Parameters<StaticWp<D65>, T> = Parameters::default_static_wp(T::k(40.0));
    let baked = p.bake();
    let tol = T::k(1e-6);
    let full: Cam16<T> = Cam16::from_xyz(c, baked);
    let defined = conj::<T>(&[finite(full.lightness), finite(full.chroma), T::p_lt(&T::k(0.0), &full.lightness)]);
    let close = |b: Xyz<D65, T>| T::p_or(T::p_not(defined.clone()), conj::<T>(&[abs_le(b.x, x, tol), abs_le(b.y, y, tol), abs_le(b.z, z, tol)]));
    T::ensure("full.round_trip_where_defined", close(full.into_xyz(baked)));
    T::ensure("jmh.round_trip_where_defined", close(Cam16Jmh::from_xyz(c, baked).into_xyz(baked)));
    T::ensure("qsh.round_trip_where_defined", close(Cam16Qsh::from_xyz(c, baked).into_xyz(baked)));
});

macro_rules! cam16_forward_box {
    ($name:ident, $guard:expr, $what:expr) => {
        program!($name, "C07", "quick", l,
            "Cam16::from_xyz -> cam16::math::{xyz_to_cam16, Adapt::run} [cam16/math.rs]; achromatic response rebuilt from the REAL cone response compression (hook verif_adapt, verif_dependent)",
            $what,
        {
            let (x, y, z) = (T::var("x", 0.0, 0.95047), T::var("y", 0.0, 1.0), T::var("z", 0.0, 1.08883));
            let c: Xyz<D65, T> = Xyz::new(x, y, z);
            let p: Parameters<StaticWp<D65>, T> = Parameters::default_static_wp(T::k(40.0));
            let baked = p.bake();
            let f = baked.verif_dependent();
            let (r0, g0, b0) = crate::specs::cam16_m16(x * T::k(100.0), y * T::k(100.0), z * T::k(100.0));
            let (ra, ga, ba) = (baked.verif_adapt(r0 * f[0]), baked.verif_adapt(g0 * f[1]), baked.verif_adapt(b0 * f[2]));
            // achromatic response A = N_bb (2 R'_a + G'_a + 0.05 B'_a): the lightness is a real power of A / A_w
            let big_a = f[7] * (T::k(2.0) * ra + ga + T::k(0.05) * ba);
            let full: Cam16<T> = Cam16::from_xyz(c, baked);
            let fin = conj::<T>(&[finite(full.lightness), finite(full.chroma), finite(full.hue.into_raw_degrees()), finite(full.brightness), finite(full.colorfulness), finite(full.saturation)]);
            let guard: bool = $guard;
            if guard {
                // NaN-safe: a non-finite A (e.g. a NaN cone response) does NOT satisfy `A < 0`, so it must come with finite outputs
                T::ensure("finite_where_achromatic_response_not_negative", T::p_or(T::p_lt(&big_a, &T::k(0.0)), fin));
            } else {
                T::ensure("finite_on_whole_box", fin);
            }
        });
    };
}
cam16_forward_box!(lat_cam16_forward_finite_where_defined, true,
    "average surround, every XYZ colour of the white-point box (Y = 0 face and colours outside the spectral locus with NEGATIVE cone responses included): whenever the achromatic response A is not negative, all six CAM16 correlates and the hue are finite");
cam16_forward_box!(lat_cam16_forward_whole_xyz_box, false,
    "KNOWN FINDING region: the same on the WHOLE box - for in-range XYZ colours whose achromatic response is negative (non-physical colours near the Z axis, e.g. XYZ = (0, 0, 1.08883) or (0, 0.001, 0.27)) the lightness is a real power of a negative number: NaN");
cam16_rt!(lat_cam16_average, Surround::Average, "average surround");
cam16_rt!(lat_cam16_dim, Surround::Dim, "dim surround");
cam16_rt!(lat_cam16_dark, Surround::Dark, "dark surround");


macro_rules! cam16_forward {
    ($name:ident, $surround:expr, $consts:expr, $what:expr) => {
        program!($name, "C16", "quick", l,
            "Cam16::from_xyz -> cam16::math::{prepare_parameters, xyz_to_cam16}, Parameters::bake [cam16/math.rs, cam16/parameters.rs, cam16/full.rs]",
            concat!($what, ": the forward model equals the published CAM16 equations (Li et al. 2017, transcribed independently in specs.rs::cam16_forward) - J, C, h, Q, M, s within 1e-7 relative - for every colour of the sRGB gamut strictly brighter than black and adapting luminances from 0.2 to 1000 cd/m^2"),
        {
            let (r, g, b, e) = (T::var("r", 0.02, 1.0), T::var("g", 0.02, 1.0), T::var("b", 0.02, 1.0), T::var("log10_la", -0.7, 3.0));
            let la = palette::num::Powf::powf(T::k(10.0), e);
            let c: Xyz<D65, T> = Xyz::from_color_unclamped(LinSrgb::<T>::new(r, g, b));
            let mut p: Parameters<StaticWp<D65>, T> = Parameters::default_static_wp(la);
            p.surround = $surround;
            let full: Cam16<T> = Cam16::from_xyz(c, p.bake());
            let (j, cc, h, q, m, s) = crate::specs::cam16_forward::<T>((c.x, c.y, c.z), crate::specs::W_D65, la, 0.2, $consts);
            let rel = |x: T, y: T| abs_le(x, y, T::k(1e-7) * (T::k(1.0) + palette::num::Abs::abs(y)));
            T::ensure("lightness_J", rel(full.lightness, j));
            T::ensure("chroma_C", rel(full.chroma, cc));
            T::ensure("hue_h", hue_mod(full.hue.into_raw_degrees(), h, 1e-6));
            T::ensure("brightness_Q", rel(full.brightness, q));
            T::ensure("colorfulness_M", rel(full.colorfulness, m));
            T::ensure("saturation_s", rel(full.saturation, s));
        });
    };
}
cam16_forward!(lat_cam16_forward_average, Surround::Average, (0.69, 1.0, 1.0), "average surround");
cam16_forward!(lat_cam16_forward_dim, Surround::Dim, (0.59, 0.9, 0.9), "dim surround");
cam16_forward!(lat_cam16_forward_dark, Surround::Dark, (0.525, 0.8, 0.8), "dark surround");

pub fn all() -> Vec<crate::Prog> {
    vec![lat_ok_cylinders_from_oklab::prog(), lat_ok_cylinders_to_oklab::prog(), lat_ok_from_rgb::prog(), lat_hsluv::prog(),
         lat_cam16_average::prog(), lat_cam16_xyz_box::prog(), lat_cam16_forward_finite_where_defined::prog(), lat_cam16_forward_whole_xyz_box::prog(), lat_cam16_dim::prog(), lat_cam16_dark::prog(), lat_cam16_forward_average::prog(), lat_cam16_forward_dim::prog(), lat_cam16_forward_dark::prog()]
}
