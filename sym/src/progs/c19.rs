//! C19 — random sampling respects the requested range and volume (feature `random`).
//! Draws are universally quantified (rand's contract, see rnd.rs). "Uniform with respect to volume" is
//! restated deductively as the inverse-CDF contract: for the cone  value^3 == r1, saturation^2 == r2; for
//! the bicone the piecewise cubic; that this implies volume-uniformity is the change-of-variables fact,
//! stated in DESIGN.md, not machine checked.
use crate::logic::*;
use crate::rnd;
use palette::encoding::Srgb;
use palette::white_point::D65;
use palette::{Hsl, Hsv, Hwb, Lab, LinSrgb, Okhsl, Okhsv, Okhwb, RgbHue};
use rand::distributions::uniform::Uniform;
use rand::Rng;

program!(c19_standard_cartesian, "C19", "quick", s,
    "impl Distribution<Rgb|Lab> for Standard, UniformRgb::{new, new_inclusive, sample} [macros/random.rs impl_rand_traits_cartesian!]",
    "a standard sample lies within the bounds of its space; a uniform sample between two colours has every component between the corresponding components of the two ends (half-open and inclusive forms)",
{
    let mut rng = rnd::rng();
    let c: LinSrgb<T> = rng.gen();
    T::ensure("standard.rgb_in_bounds", conj::<T>(&[in_range(c.red, 0.0, 1.0), in_range(c.green, 0.0, 1.0), in_range(c.blue, 0.0, 1.0)]));
    let l: Lab<D65, T> = rng.gen();
    T::ensure("standard.lab_in_bounds", conj::<T>(&[in_range(l.l, 0.0, 100.0), in_range(l.a, -128.0, 127.0), in_range(l.b, -128.0, 127.0)]));
    let (r1, g1, b1) = (T::var("r1", 0.0, 1.0), T::var("g1", 0.0, 1.0), T::var("b1", 0.0, 1.0));
    let (r2, g2, b2) = (T::var("r2", 0.0, 1.0), T::var("g2", 0.0, 1.0), T::var("b2", 0.0, 1.0));
    let u = Uniform::new(LinSrgb::<T>::new(r1, g1, b1), LinSrgb::<T>::new(r2, g2, b2));
    let s: LinSrgb<T> = rng.sample(&u);
    T::ensure("uniform.between_ends", conj::<T>(&[T::p_le(&r1, &s.red), T::p_le(&s.red, &r2), T::p_le(&g1, &s.green), T::p_le(&s.green, &g2), T::p_le(&b1, &s.blue), T::p_le(&s.blue, &b2)]));
    let ui = Uniform::new_inclusive(LinSrgb::<T>::new(r1, g1, b1), LinSrgb::<T>::new(r2, g2, b2));
    let si: LinSrgb<T> = rng.sample(&ui);
    T::ensure("uniform_inclusive.between_ends", conj::<T>(&[T::p_le(&r1, &si.red), T::p_le(&si.red, &r2), T::p_le(&b1, &si.blue), T::p_le(&si.blue, &b2)]));
});

macro_rules! cone {
    ($name:ident, $ty:ty, $what:expr, $val:ident, $sat:ident) => {
        program!($name, "C19", "quick", s,
            concat!("impl Distribution<", $what, "> for Standard [macros/random.rs impl_rand_traits_hsv_cone!, random_sampling/cone.rs sample_hsv]"),
            concat!($what, ": a standard sample is within bounds and is the inverse CDF of the cone volume: ", stringify!($val), "^3 == r1 and ", stringify!($sat), "^2 == r2 for the two draws (hue = 360 * draw)"),
        {
            let mut rng = rnd::rng();
            let c: $ty = rng.gen();
            T::ensure("standard.in_bounds", T::p_and(in_range(c.$val, 0.0, 1.0), in_range(c.$sat, 0.0, 1.0)));
            // the draws, in the order the sampler takes them: hue, then r1 (height), r2 (radius) - found as the
            // two draws d with value^3 == d, saturation^2 == d (either order of consumption)
            let (d0, d1, d2) = (T::var("draw0", 0.0, 1.0), T::var("draw1", 0.0, 1.0), T::var("draw2", 0.0, 1.0));
            let v3 = c.$val * c.$val * c.$val;
            let s2 = c.$sat * c.$sat;
            let tol = T::tol(1e-9, 1e-6);
            let is_one_of = |x: T| T::p_or(T::p_or(abs_le(x, d0, tol), abs_le(x, d1, tol)), abs_le(x, d2, tol));
            T::ensure("inverse_cdf.height_cubed_is_a_draw", is_one_of(v3));
            T::ensure("inverse_cdf.radius_squared_is_a_draw", is_one_of(s2));
            T::ensure("hue_is_full_circle_times_draw", in_range(c.hue.into_raw_degrees(), 0.0, 360.0));
        });
    };
}
cone!(c19_cone_hsv, Hsv<Srgb, T>, "Hsv", value, saturation);
cone!(c19_cone_okhsv, Okhsv<T>, "Okhsv", value, saturation);

program!(c19_bicone_hsl, "C19", "quick", s,
    "impl Distribution<Hsl|Okhsl> for Standard [macros/random.rs impl_rand_traits_hsl_bicone!, random_sampling/cone.rs sample_hsl]",
    "a standard HSL / Okhsl sample is within bounds; the lightness is the inverse CDF of the bicone height: r1 == 4 l^3 for l <= 1/2 and 1 + 4 (l - 1)^3 above; saturation^2 == r2",
{
    let mut rng = rnd::rng();
    let c: Hsl<Srgb, T> = rng.gen();
    T::ensure("standard.in_bounds", T::p_and(in_range(c.lightness, 0.0, 1.0), in_range(c.saturation, 0.0, 1.0)));
    let (d0, d1, d2) = (T::var("draw0", 0.0, 1.0), T::var("draw1", 0.0, 1.0), T::var("draw2", 0.0, 1.0));
    let l = c.lightness;
    let lm = l - T::k(1.0);
    let cdf = T::ite(&T::p_le(&l, &T::k(0.5)), T::k(4.0) * l * l * l, T::k(1.0) + T::k(4.0) * lm * lm * lm);
    let tol = T::tol(1e-9, 1e-6);
    let is_one_of = |x: T| T::p_or(T::p_or(abs_le(x, d0, tol), abs_le(x, d1, tol)), abs_le(x, d2, tol));
    T::ensure("inverse_cdf.bicone_height", is_one_of(cdf));
    let c2: Okhsl<T> = rng.gen();
    T::ensure("standard.okhsl_in_bounds", T::p_and(in_range(c2.lightness, 0.0, 1.0), in_range(c2.saturation, 0.0, 1.0)));
});

macro_rules! hwb_uniform {
    ($name:ident, $ty:ty, $hsv:ty, $what:expr) => {
        program!($name, "C19", "quick", s,
            concat!("Uniform", $what, "::{new, sample} [macros/random.rs impl_rand_traits_hwb_cone!]"),
            concat!($what, ": a uniform sample between two colours has its equivalent HSV saturation and value between those of the two ends - for EVERY pair of ends, also when whiteness grows while blackness shrinks; a standard sample is within bounds"),
        {
            use palette::convert::FromColorUnclamped;
            let mut rng = rnd::rng();
            let (w1, b1, w2, b2) = (T::var("w1", 0.0, 1.0), T::var("b1", 0.0, 0.99), T::var("w2", 0.0, 1.0), T::var("b2", 0.0, 0.99));
            T::assume(T::p_and(T::p_le(&(w1 + b1), &T::k(1.0)), T::p_le(&(w2 + b2), &T::k(1.0))));
            let lo: $ty = <$ty>::new(T::k(10.0), w1, b1);
            let hi: $ty = <$ty>::new(T::k(50.0), w2, b2);
            let u = Uniform::new(lo, hi);
            let s: $ty = rng.sample(&u);
            let (ls, hs, ss): ($hsv, $hsv, $hsv) = (<$hsv>::from_color_unclamped(lo), <$hsv>::from_color_unclamped(hi), <$hsv>::from_color_unclamped(s));
            let tol = T::tol(1e-9, 1e-6);
            let between = |x: T, a: T, b: T| T::p_or(T::p_and(T::p_le(&(a - tol), &x), T::p_le(&x, &(b + tol))), T::p_and(T::p_le(&(b - tol), &x), T::p_le(&x, &(a + tol))));
            T::ensure("uniform.hsv_value_between_ends", between(ss.value, ls.value, hs.value));
            T::ensure("uniform.hsv_saturation_between_ends", between(ss.saturation, ls.saturation, hs.saturation));
            let st: $ty = rng.gen();
            T::ensure("standard.in_bounds", conj::<T>(&[T::p_le(&T::k(-1e-12), &st.whiteness), T::p_le(&T::k(-1e-12), &st.blackness), T::p_le(&(st.whiteness + st.blackness), &T::k(1.0 + 1e-9))]));
        });
    };
}
hwb_uniform!(c19_uniform_hwb, Hwb<Srgb, T>, Hsv<Srgb, T>, "Hwb");
hwb_uniform!(c19_uniform_okhwb, Okhwb<T>, Okhsv<T>, "Okhwb");

program!(c19_hue_uniform, "C19", "quick", s,
    "impl Distribution<Hue> for Standard, Uniform{Rgb,..}Hue::{new, new_inclusive, sample} [hues.rs impl_uniform!]",
    "a uniform hue sample lies on the arc from the low hue to the high hue (in degrees, modulo 360), including arcs that wrap through 0 (low < high as raw angles) and the inclusive form; a standard hue is 360 * draw",
{
    let mut rng = rnd::rng();
    let (lo, hi) = (T::var("lo", -360.0, 720.0), T::var("hi", -360.0, 1080.0));
    T::assume(T::p_and(T::p_lt(&lo, &hi), T::p_le(&(hi - lo), &T::k(360.0))));
    let u = Uniform::new(RgbHue::<T>::from_degrees(lo), RgbHue::<T>::from_degrees(hi));
    let s: RgbHue<T> = rng.sample(&u);
    // on the arc: (sample - lo) is congruent modulo 360 to some offset in [0, hi - lo]
    let off = s.into_raw_degrees() - lo;
    let k = palette::num::Round::floor(off / T::k(360.0));
    let red = off - k * T::k(360.0);
    T::ensure("uniform.sample_on_the_arc_from_low_to_high", T::p_le(&red, &(hi - lo + T::tol(1e-9, 1e-6))));
    let ui = Uniform::new_inclusive(RgbHue::<T>::from_degrees(lo), RgbHue::<T>::from_degrees(hi));
    let si: RgbHue<T> = rng.sample(&ui);
    let off = si.into_raw_degrees() - lo;
    let k = palette::num::Round::floor(off / T::k(360.0));
    let red = off - k * T::k(360.0);
    T::ensure("uniform_inclusive.sample_on_the_arc", T::p_le(&red, &(hi - lo + T::tol(1e-9, 1e-6))));
    let st: RgbHue<T> = rng.gen();
    T::ensure("standard.hue_in_0_360", in_range(st.into_raw_degrees(), 0.0, 360.0));
});

pub fn all() -> Vec<crate::Prog> {
    vec![c19_standard_cartesian::prog(), c19_cone_hsv::prog(), c19_cone_okhsv::prog(), c19_bicone_hsl::prog(), c19_uniform_hwb::prog(), c19_uniform_okhwb::prog(), c19_hue_uniform::prog()]
}
