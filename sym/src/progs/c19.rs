//! C19 — random sampling respects the requested range and volume (feature `random`).
//! Draws are universally quantified (rand's contract, see rnd.rs). "Uniform with respect to volume" is
//! restated deductively as the inverse-CDF contract: for the cone  value^3 == r1, saturation^2 == r2; for
//! the bicone the piecewise cubic; that this implies volume-uniformity is the change-of-variables fact,
//! stated in DESIGN.md, not machine checked.
use crate::logic::*;
use crate::rnd;
use palette::encoding::Srgb;
use palette::white_point::D65;
use palette::{Hsl, Hsv, Hwb, Lab, LinSrgb, Okhsl, Okhsv, Okhwb, RgbHue};
use rand::distributions::uniform::Uniform;
use rand::Rng;

program!(c19_standard_cartesian, "C19", "quick", s,
    "impl Distribution<Rgb|Lab> for Standard, UniformRgb::{new, new_inclusive, sample} [macros/random.rs impl_rand_traits_cartesian!]",
    "a standard sample lies within the bounds of its space; a uniform sample between two colours has every component between the corresponding components of the two ends (half-open and inclusive forms)",
{
    let mut rng = rnd::rng();
    let c: LinSrgb<T> = rng.gen();
    T::ensure("standard.rgb_in_bounds", conj::<T>(&[in_range(c.red, 0.0, 1.0), in_range(c.green, 0.0, 1.0), in_range(c.blue, 0.0, 1.0)]));
    let l: Lab<D65, T> = rng.gen();
    T::ensure("standard.lab_in_bounds", conj::<T>(&[in_range(l.l, 0.0, 100.0), in_range(l.a, -128.0, 127.0), in_range(l.b, -128.0, 127.0)]));
    let (r1, g1, b1) = (T::var("r1", 0.0, 1.0), T::var("g1", 0.0, 1.0), T::var("b1", 0.0, 1.0));
    let (r2, g2, b2) = (T::var("r2", 0.0, 1.0), T::var("g2", 0.0, 1.0), T::var("b2", 0.0, 1.0));
    let u = Uniform::new(LinSrgb::<T>::new(r1, g1, b1), LinSrgb::<T>::new(r2, g2, b2));
    let s: LinSrgb<T> = rng.sample(&u);
    T::ensure("uniform.between_ends", conj::<T>(&[T::p_le(&r1, &s.red), T::p_le(&s.red, &r2), T::p_le(&g1, &s.green), T::p_le(&s.green, &g2), T::p_le(&b1, &s.blue), T::p_le(&s.blue, &b2)]));
    let ui = Uniform::new_inclusive(LinSrgb::<T>::new(r1, g1, b1), LinSrgb::<T>::new(r2, g2, b2));
    let si: LinSrgb<T> = rng.sample(&ui);
    T::ensure("uniform_inclusive.between_ends", conj::<T>(&[T::p_le(&r1, &si.red), T::p_le(&si.red, &r2), T::p_le(&b1, &si.blue), T::p_le(&si.blue, &b2)]));
});

macro_rules! cone {
    ($name:ident, $ty:ty, $what:expr, $val:ident, $sat:ident) => {
        program!($name, "C19", "quick", s,
            concat!("impl Distribution<", $what, "> for Standard [macros/random.rs impl_rand_traits_hsv_cone!, random_sampling/cone.rs sample_hsv]"),
            concat!($what, ": a standard sample is within bounds and is the inverse CDF of the cone volume: ", stringify!($val), "^3 == r1 and ", stringify!($sat), "^2 == r2 for the two draws (hue = 360 * draw)"),
        {
            let mut rng = rnd::rng();
            let c: $ty = rng.gen();
            T::ensure("standard.in_bounds", T::p_and(in_range(c.$val, 0.0, 1.0), in_range(c.$sat, 0.0, 1.0)));
            // the draws, in the order the sampler takes them: hue, then r1 (height), r2 (radius) - found as the
            // two draws d with value^3 == d, saturation^2 == d (either order of consumption)
            let (d0, d1, d2) = (T::var("draw0", 0.0, 1.0), T::var("draw1", 0.0, 1.0), T::var("draw2", 0.0, 1.0));
            let v3 = c.$val * c.$val * c.$val;
            let s2 = c.$sat * c.$sat;
            let tol = T::tol(1e-9, 1e-6);
            let is_one_of = |x: T| T::p_or(T::p_or(abs_le(x, d0, tol), abs_le(x, d1, tol)), abs_le(x, d2, tol));
            T::ensure("inverse_cdf.height_cubed_is_a_draw", is_one_of(v3));
            T::ensure("inverse_cdf.radius_squared_is_a_draw", is_one_of(s2));
            T::ensure("hue_is_full_circle_times_draw", in_range(c.hue.into_raw_degrees(), 0.0, 360.0));
        });
    };
}
cone!(c19_cone_hsv, Hsv<Srgb, T>, "Hsv", value, saturation);
cone!(c19_cone_okhsv, Okhsv<T>, "Okhsv", value, saturation);

program!(c19_bicone_hsl, "C19", "quick", s,
    "impl Distribution<Hsl|Okhsl> for Standard [macros/random.rs impl_rand_traits_hsl_bicone!, random_sampling/cone.rs sample_hsl]",
    "a standard HSL / Okhsl sample is within bounds; the lightness is the inverse CDF of the bicone height: r1 == 4 l^3 for l <= 1/2 and 1 + 4 (l - 1)^3 above; saturation^2 == r2",
{
    let mut rng = rnd::rng();
    let c: Hsl<Srgb, T> = rng.gen();
    T::ensure("standard.in_bounds", T::p_and(in_range(c.lightness, 0.0, 1.0), in_range(c.saturation, 0.0, 1.0)));
    let (d0, d1, d2) = (T::var("draw0", 0.0, 1.0), T::var("draw1", 0.0, 1.0), T::var("draw2", 0.0, 1.0));
    let l = c.lightness;
    let lm = l - T::k(1.0);
    let cdf = T::ite(&T::p_le(&l, &T::k(0.5)), T::k(4.0) * l * l * l, T::k(1.0) + T::k(4.0) * lm * lm * lm);
    let tol = T::tol(1e-9, 1e-6);
    let is_one_of = |x: T| T::p_or(T::p_or(abs_le(x, d0, tol), abs_le(x, d1, tol)), abs_le(x, d2, tol));
    T::ensure("inverse_cdf.bicone_height", is_one_of(cdf));
    let c2: Okhsl<T> = rng.gen();
    T::ensure("standard.okhsl_in_bounds", T::p_and(in_range(c2.lightness, 0.0, 1.0), in_range(c2.saturation, 0.0, 1.0)));
});

macro_rules! hwb_uniform {
    ($name:ident, $ty:ty, $hsv:ty, $what:expr) => {
        program!($name, "C19", "quick", s,
            concat!("Uniform", $what, "::{new, sample} [macros/random.rs impl_rand_traits_hwb_cone!]"),
            concat!($what, ": a uniform sample between two colours has its equivalent HSV saturation and value between those of the two ends - for EVERY pair of ends, also when whiteness grows while blackness shrinks; a standard sample is within bounds"),
        {
            use palette::convert::FromColorUnclamped;
            let mut rng = rnd::rng();
            let (w1, b1, w2, b2) = (T::var("w1", 0.0, 1.0), T::var("b1", 0.0, 0.99), T::var("w2", 0.0, 1.0), T::var("b2", 0.0, 0.99));
            T::assume(T::p_and(T::p_le(&(w1 + b1), &T::k(1.0)), T::p_le(&(w2 + b2), &T::k(1.0))));
            let lo: $ty = <$ty>::new(T::k(10.0), w1, b1);
            let hi: $ty = <$ty>::new(T::k(50.0), w2, b2);
            let u = Uniform::new(lo, hi);
            let s: $ty = rng.sample(&u);
            let (ls, hs, ss): ($hsv, $hsv, $hsv) = (<$hsv>::from_color_unclamped(lo), <$hsv>::from_color_unclamped(hi), <$hsv>::from_color_unclamped(s));
            let tol = T::tol(1e-9, 1e-6);
            let between = |x: T, a: T, b: T| T::p_or(T::p_and(T::p_le(&(a - tol), &x), T::p_le(&x, &(b + tol))), T::p_and(T::p_le(&(b - tol), &x), T::p_le(&x, &(a + tol))));
            T::ensure("uniform.hsv_value_between_ends", between(ss.value, ls.value, hs.value));
            T::ensure("uniform.hsv_saturation_between_ends", between(ss.saturation, ls.saturation, hs.saturation));
            let st: $ty = rng.gen();
            T::ensure("standard.in_bounds", conj::<T>(&[T::p_le(&T::k(-1e-12), &st.whiteness), T::p_le(&T::k(-1e-12), &st.blackness), T::p_le(&(st.whiteness + st.blackness), &T::k(1.0 + 1e-9))]));
        });
    };
}
hwb_uniform!(c19_uniform_hwb, Hwb<Srgb, T>, Hsv<Srgb, T>, "Hwb");
hwb_uniform!(c19_uniform_okhwb, Okhwb<T>, Okhsv<T>, "Okhwb");

program!(c19_hue_uniform, "C19", "quick", s,
    "impl Distribution<Hue> for Standard, Uniform{Rgb,..}Hue::{new, new_inclusive, sample} [hues.rs impl_uniform!]",
    "a uniform hue sample lies on the arc from the low hue to the high hue (in degrees, modulo 360), including arcs that wrap through 0 (low < high as raw angles) and the inclusive form; a standard hue is 360 * draw",
{
    let mut rng = rnd::rng();
    let (lo, hi) = (T::var("lo", -360.0, 720.0), T::var("hi", -360.0, 1080.0));
    T::assume(T::p_and(T::p_lt(&lo, &hi), T::p_le(&(hi - lo), &T::k(360.0))));
    let u = Uniform::new(RgbHue::<T>::from_degrees(lo), RgbHue::<T>::from_degrees(hi));
    let s: RgbHue<T> = rng.sample(&u);
    // on the arc: (sample - lo) is congruent modulo 360 to some offset in [0, hi - lo]
    let off = s.into_raw_degrees() - lo;
    let k = palette::num::Round::floor(off / T::k(360.0));
    let red = off - k * T::k(360.0);
    T::ensure("uniform.sample_on_the_arc_from_low_to_high", T::p_le(&red, &(hi - lo + T::tol(1e-9, 1e-6))));
    let ui = Uniform::new_inclusive(RgbHue::<T>::from_degrees(lo), RgbHue::<T>::from_degrees(hi));
    let si: RgbHue<T> = rng.sample(&ui);
    let off = si.into_raw_degrees() - lo;
    let k = palette::num::Round::floor(off / T::k(360.0));
    let red = off - k * T::k(360.0);
    T::ensure("uniform_inclusive.sample_on_the_arc", T::p_le(&red, &(hi - lo + T::tol(1e-9, 1e-6))));
    let st: RgbHue<T> = rng.gen();
    T::ensure("standard.hue_in_0_360", in_range(st.into_raw_degrees(), 0.0, 360.0));
});


program!(c19_hue_inclusive_equal_ends, "C19", "quick", s,
    "Uniform{Rgb,..}Hue::{new_inclusive, sample} [hues.rs impl_uniform!], UniformHsv::new_inclusive (hue part)",
    "inclusive range with EQUAL hue ends: the arc from a hue to itself is that single hue - the sample is congruent to it modulo 360 (not anywhere on the circle); also through a hue-carrying colour type",
{
    let mut rng = rnd::rng();
    let h = T::var("h", -360.0, 720.0);
    let u = Uniform::new_inclusive(RgbHue::<T>::from_degrees(h), RgbHue::<T>::from_degrees(h));
    let s: RgbHue<T> = rng.sample(&u);
    let q = (s.into_raw_degrees() - h) / T::k(360.0);
    T::ensure("hue.sample_is_the_single_hue_mod_360", abs_le(palette::num::Round::round(q), q, T::tol(1e-9, 1e-6)));
    let (s1, s2, v1, v2) = (T::var("s1", 0.0, 1.0), T::var("s2", 0.0, 1.0), T::var("v1", 0.0, 1.0), T::var("v2", 0.0, 1.0));
    let uc = Uniform::new_inclusive(Hsv::<Srgb, T>::new(h, s1, v1), Hsv::<Srgb, T>::new(h, s2, v2));
    let c: Hsv<Srgb, T> = rng.sample(&uc);
    let q = (c.hue.into_raw_degrees() - h) / T::k(360.0);
    T::ensure("hsv.sample_keeps_the_single_hue_mod_360", abs_le(palette::num::Round::round(q), q, T::tol(1e-9, 1e-6)));
});

// ---- every type with sampling support: standard sample within the documented bounds, uniform sample between the ends ----
macro_rules! sampler {
    ($name:ident, $ty:ty, $what:expr, $mac:expr, [$($f:ident : $lo:expr, $hi:expr),+], $ctor:expr $(, hue $hf:ident)?) => {
        program!($name, "C19", "quick", s,
            concat!("impl Distribution<", $what, "> for Standard, Uniform", $what, "::{new, new_inclusive, sample} [macros/random.rs ", $mac, " invocation for ", $what, "]"),
            concat!($what, ": a standard sample has every component within the documented bounds; a uniform sample between two colours has every component between the corresponding components of the two ends (half-open and inclusive forms)"),
        {
            let mut rng = rnd::rng();
            let c: $ty = rng.gen();
            $( T::ensure(concat!("standard.in_bounds.", stringify!($f)), in_range(c.$f, $lo - 1e-9, $hi + 1e-9)); )+
            $( T::ensure("standard.hue_in_0_360", in_range(c.$hf.into_raw_degrees(), 0.0, 360.0)); )?
            $( let $f = (T::var(concat!(stringify!($f), "1"), $lo, $hi), T::var(concat!(stringify!($f), "2"), $lo, $hi)); )+
            let mk = $ctor;
            let (lo, hi): ($ty, $ty) = (mk(T::k(30.0), $($f.0),+), mk(T::k(90.0), $($f.1),+));
            let u = Uniform::new(lo, hi);
            let s: $ty = rng.sample(&u);
            let tol = T::tol(1e-9, 1e-6);
            $( T::ensure(concat!("uniform.between_ends.", stringify!($f)), T::p_and(T::p_le(&($f.0 - tol), &s.$f), T::p_le(&s.$f, &($f.1 + tol)))); )+
            let ui = Uniform::new_inclusive(lo, hi);
            let si: $ty = rng.sample(&ui);
            $( T::ensure(concat!("uniform_inclusive.between_ends.", stringify!($f)), T::p_and(T::p_le(&($f.0 - tol), &si.$f), T::p_le(&si.$f, &($f.1 + tol)))); )+
        });
    };
}
sampler!(c19_s_xyz, palette::Xyz<D65, T>, "Xyz", "impl_rand_traits_cartesian!", [x: 0.0, 0.95047, y: 0.0, 1.0, z: 0.0, 1.08883], |_h: T, x, y, z| palette::Xyz::new(x, y, z));
sampler!(c19_s_yxy, palette::Yxy<D65, T>, "Yxy", "impl_rand_traits_cartesian!", [x: 0.0, 1.0, y: 0.0, 1.0, luma: 0.0, 1.0], |_h: T, x, y, l| palette::Yxy::new(x, y, l));
sampler!(c19_s_luv, palette::Luv<D65, T>, "Luv", "impl_rand_traits_cartesian!", [l: 0.0, 100.0, u: -84.0, 176.0, v: -135.0, 108.0], |_h: T, l, u, v| palette::Luv::new(l, u, v));
sampler!(c19_s_oklab, palette::Oklab<T>, "Oklab", "impl_rand_traits_cartesian!", [l: 0.0, 1.0, a: -2.0, 2.0, b: -2.0, 2.0], |_h: T, l, a, b| palette::Oklab::new(l, a, b));
sampler!(c19_s_luma, palette::luma::Luma<Srgb, T>, "Luma", "impl_rand_traits_cartesian!", [luma: 0.0, 1.0], |_h: T, l| palette::luma::Luma::new(l));
sampler!(c19_s_lab, Lab<D65, T>, "Lab", "impl_rand_traits_cartesian!", [l: 0.0, 100.0, a: -128.0, 127.0, b: -128.0, 127.0], |_h: T, l, a, b| Lab::new(l, a, b));
sampler!(c19_s_lch, palette::Lch<D65, T>, "Lch", "impl_rand_traits_cylinder!", [l: 0.0, 100.0, chroma: 0.0, 128.0], |h: T, l, c| palette::Lch::new(l, c, h), hue hue);
sampler!(c19_s_lchuv, palette::Lchuv<D65, T>, "Lchuv", "impl_rand_traits_cylinder!", [l: 0.0, 100.0, chroma: 0.0, 180.0], |h: T, l, c| palette::Lchuv::new(l, c, h), hue hue);
sampler!(c19_s_oklch, palette::Oklch<T>, "Oklch", "impl_rand_traits_cylinder!", [l: 0.0, 1.0, chroma: 0.0, 1.0], |h: T, l, c| palette::Oklch::new(l, c, h), hue hue);
sampler!(c19_s_hsv, Hsv<Srgb, T>, "Hsv", "impl_rand_traits_hsv_cone!", [saturation: 0.0, 1.0, value: 0.0, 1.0], |h: T, s, v| Hsv::new(h, s, v), hue hue);
sampler!(c19_s_okhsv, Okhsv<T>, "Okhsv", "impl_rand_traits_hsv_cone!", [saturation: 0.0, 1.0, value: 0.0, 1.0], |h: T, s, v| Okhsv::new(h, s, v), hue hue);
sampler!(c19_s_hsl, Hsl<Srgb, T>, "Hsl", "impl_rand_traits_hsl_bicone!", [saturation: 0.0, 1.0, lightness: 0.0, 1.0], |h: T, s, l| Hsl::new(h, s, l), hue hue);
sampler!(c19_s_okhsl, Okhsl<T>, "Okhsl", "impl_rand_traits_hsl_bicone!", [saturation: 0.0, 1.0, lightness: 0.0, 1.0], |h: T, s, l| Okhsl::new(h, s, l), hue hue);
sampler!(c19_s_hsluv, palette::Hsluv<D65, T>, "Hsluv", "impl_rand_traits_hsl_bicone!", [saturation: 0.0, 100.0, l: 0.0, 100.0], |h: T, s, l| palette::Hsluv::new(h, s, l), hue hue);

pub fn all() -> Vec<crate::Prog> {
    vec![c19_standard_cartesian::prog(), c19_cone_hsv::prog(), c19_cone_okhsv::prog(), c19_bicone_hsl::prog(), c19_uniform_hwb::prog(), c19_uniform_okhwb::prog(), c19_hue_uniform::prog(), c19_hue_inclusive_equal_ends::prog(), c19_s_xyz::prog(), c19_s_yxy::prog(), c19_s_luv::prog(), c19_s_oklab::prog(), c19_s_luma::prog(), c19_s_lab::prog(), c19_s_lch::prog(), c19_s_lchuv::prog(), c19_s_oklch::prog(), c19_s_hsv::prog(), c19_s_okhsv::prog(), c19_s_hsl::prog(), c19_s_okhsl::prog(), c19_s_hsluv::prog()]
}
