//! C10 — operator algebra and agreement of the by-value / assigning / Alpha-wrapped variants.
//! Variant agreement is a term-identity obligation: both forms must perform the SAME operations on
//! the same inputs (hash-consed DAG identity), which is what "exactly the same colour" means in floats.
use crate::logic::*;
use palette::encoding::{Linear, Srgb};
use palette::white_point::D65;
use palette::{
    Xyz,     Alpha, Clamp, ClampAssign, Darken, DarkenAssign, Desaturate, DesaturateAssign, Hsl, Hsv, Hwb, Lab, Lch, Lighten, LightenAssign,
    LinSrgb, Mix, MixAssign, Okhwb, Oklab, Oklch, Saturate, SaturateAssign, SetHue, ShiftHue, ShiftHueAssign, WithHue,
};

macro_rules! mix_cartesian {
    ($name:ident, $ty:ty, $what:expr, [$($f:ident: $lo:expr, $hi:expr),*], $ctor:expr) => {
        program!($name, "C10", "quick", sv,
            concat!("Mix::mix, MixAssign::mix_assign for ", $what, " [macros/mix.rs impl_mix!], Alpha forwarding [alpha/alpha.rs]"),
            "mix(a,b,0)==a, mix(a,b,1)==b, factors outside [0,1] act as the nearest end, result between the inputs component-wise; mix_assign and the Alpha-wrapped form are term-identical to the by-value form",
        {
            $( let $f = (T::var(concat!(stringify!($f), "1"), $lo, $hi), T::var(concat!(stringify!($f), "2"), $lo, $hi)); )*
            let t = T::var("t", -1.0, 2.0);
            let mk = $ctor;
            let a: $ty = mk($($f.0),*);
            let b: $ty = mk($($f.1),*);
            let m = a.mix(b, t);
            let m0 = a.mix(b, T::k(0.0));
            let m1 = a.mix(b, T::k(1.0));
            let tol = T::tol(1e-12, 1e-4);
            let tc = T::ite(&T::p_le(&t, &T::k(0.0)), T::k(0.0), T::ite(&T::p_le(&T::k(1.0), &t), T::k(1.0), t));
            $(
                T::ensure(concat!("factor0.", stringify!($f)), abs_le(m0.$f, $f.0, tol));
                T::ensure(concat!("factor1.", stringify!($f)), abs_le(m1.$f, $f.1, tol));
                T::ensure(concat!("linear_in_clamped_factor.", stringify!($f)), abs_le(m.$f, $f.0 + ($f.1 - $f.0) * tc, tol));
                let lo = T::ite(&T::p_le(&$f.0, &$f.1), $f.0, $f.1);
                let hi = T::ite(&T::p_le(&$f.0, &$f.1), $f.1, $f.0);
                T::ensure(concat!("between.", stringify!($f)), T::p_and(T::p_le(&(lo - tol), &m.$f), T::p_le(&m.$f, &(hi + tol))));
            )*
            let mut asg = a;
            asg.mix_assign(b, t);
            $( T::identical(concat!("assign.", stringify!($f)), &asg.$f, &m.$f); )*
            let (al1, al2) = (T::var("alpha1", 0.0, 1.0), T::var("alpha2", 0.0, 1.0));
            let wa = Alpha { color: a, alpha: al1 };
            let wb = Alpha { color: b, alpha: al2 };
            let wm = wa.mix(wb, t);
            $( T::identical(concat!("alpha_wrapped.", stringify!($f)), &wm.color.$f, &m.$f); )*
            T::ensure("alpha_wrapped.alpha_mixed_linearly", abs_le(wm.alpha, al1 + (al2 - al1) * tc, tol));
            let mut wasg = wa;
            wasg.mix_assign(wb, t);
            $( T::identical(concat!("alpha_wrapped_assign.", stringify!($f)), &wasg.color.$f, &m.$f); )*
            T::identical("alpha_wrapped_assign.alpha", &wasg.alpha, &wm.alpha);
        });
    };
}
mix_cartesian!(c10_mix_rgb, LinSrgb<T>, "Rgb", [red: 0.0, 1.0, green: 0.0, 1.0, blue: 0.0, 1.0], |r, g, b| LinSrgb::new(r, g, b));
mix_cartesian!(c10_mix_lab, Lab<D65, T>, "Lab", [l: 0.0, 100.0, a: -128.0, 127.0, b: -128.0, 127.0], |l, a, b| Lab::new(l, a, b));
mix_cartesian!(c10_mix_oklab, Oklab<T>, "Oklab", [l: 0.0, 1.0, a: -0.5, 0.5, b: -0.5, 0.5], |l, a, b| Oklab::new(l, a, b));

macro_rules! mix_hue {
    ($name:ident, $ty:ty, $what:expr, [$($f:ident: $lo:expr, $hi:expr),*], $ctor:expr) => {
        program!($name, "C10", "quick", sv,
            concat!("Mix::mix, MixAssign::mix_assign for ", $what, " [macros/mix.rs impl_mix_hue!]"),
            "hue-based mix: other components linear in the clamped factor; the hue moves by factor * (signed normal form of the hue difference), which lies in [-180,180] (the shorter way round) and is congruent to the difference modulo 360; factor 0 keeps the first hue, factor 1 reaches the second modulo 360; mix_assign and the Alpha form are term-identical",
        {
            let (h1, h2) = (T::var("h1", -360.0, 720.0), T::var("h2", -360.0, 720.0));
            $( let $f = (T::var(concat!(stringify!($f), "1"), $lo, $hi), T::var(concat!(stringify!($f), "2"), $lo, $hi)); )*
            let t = T::var("t", -1.0, 2.0);
            let mk = $ctor;
            let a: $ty = mk(h1, $($f.0),*);
            let b: $ty = mk(h2, $($f.1),*);
            let m = a.mix(b, t);
            let tol = T::tol(1e-9, 1e-3);
            let tc = T::ite(&T::p_le(&t, &T::k(0.0)), T::k(0.0), T::ite(&T::p_le(&T::k(1.0), &t), T::k(1.0), t));
            $( T::ensure(concat!("linear_in_clamped_factor.", stringify!($f)), abs_le(m.$f, $f.0 + ($f.1 - $f.0) * tc, tol)); )*
            // the hue step: m.hue == h1 + d * tc with d in [-180, 180], d == (h2 - h1) - 360 k
            let mh = m.hue.into_raw_degrees();
            let m1 = a.mix(b, T::k(1.0)).hue.into_raw_degrees();
            let d = m1 - h1;
            T::ensure("hue.shorter_way_round", in_range(d, -180.0 - 1e-9, 180.0 + 1e-9));
            let q = ((h2 - h1) - d) / T::k(360.0);
            T::ensure("hue.congruent_to_difference_mod_360", abs_le(palette::num::Round::round(q), q, T::tol(1e-12, 1e-6)));
            T::ensure("hue.linear_in_clamped_factor", abs_le(mh, h1 + d * tc, tol));
            T::ensure("hue.factor0_keeps_first", abs_le(a.mix(b, T::k(0.0)).hue.into_raw_degrees(), h1, tol));
            let mut asg = a;
            asg.mix_assign(b, t);
            T::identical("assign.hue", &asg.hue.into_raw_degrees(), &mh);
            $( T::identical(concat!("assign.", stringify!($f)), &asg.$f, &m.$f); )*
            let wa = Alpha { color: a, alpha: T::var("alpha1", 0.0, 1.0) };
            let wb = Alpha { color: b, alpha: T::var("alpha2", 0.0, 1.0) };
            let wm = wa.mix(wb, t);
            T::identical("alpha_wrapped.hue", &wm.color.hue.into_raw_degrees(), &mh);
            $( T::identical(concat!("alpha_wrapped.", stringify!($f)), &wm.color.$f, &m.$f); )*
        });
    };
}
mix_hue!(c10_mix_hsv, Hsv<Srgb, T>, "Hsv", [saturation: 0.0, 1.0, value: 0.0, 1.0], |h, s, v| Hsv::new(h, s, v));
mix_hue!(c10_mix_hsl, Hsl<Srgb, T>, "Hsl", [saturation: 0.0, 1.0, lightness: 0.0, 1.0], |h, s, l| Hsl::new(h, s, l));
mix_hue!(c10_mix_lch, Lch<D65, T>, "Lch", [l: 0.0, 100.0, chroma: 0.0, 128.0], |h, l, c| Lch::new(l, c, h));
mix_hue!(c10_mix_hwb, Hwb<Srgb, T>, "Hwb", [whiteness: 0.0, 1.0, blackness: 0.0, 1.0], |h, w, b| Hwb::new(h, w, b));
mix_hue!(c10_mix_oklch, Oklch<T>, "Oklch", [l: 0.0, 1.0, chroma: 0.0, 0.5], |h, l, c| Oklch::new(l, c, h));

macro_rules! increase {
    ($name:ident, $ty:ty, $what:expr, $comp:ident, $lo:expr, $hi:expr,
     $tr:ident :: $m:ident / $mfix:ident, $atr:ident :: $am:ident / $amfix:ident, $ntr:ident :: $nm:ident / $nmfix:ident, $natr:ident :: $nam:ident,
     others [$($o:ident),*], $ctor:expr) => {
        program!($name, "C10", "quick", sv,
            concat!(stringify!($tr), "/", stringify!($atr), "/", stringify!($ntr), " for ", $what, " [macros/lighten_saturate.rs _impl_increase_value_trait!, lib.rs blanket ", stringify!($ntr), "]"),
            concat!("factor in [0,1] moves `", stringify!($comp), "` monotonically toward its documented limit (factor 1 reaches it), never leaves the range, other components are the same terms; the negative forms equal the positive forms with the negated amount; assigning and Alpha-wrapped forms are term-identical"),
        {
            let c0 = T::var("c", $lo, $hi);
            let x1 = T::var("x1", 0.0, 1.0); let x2 = T::var("x2", 0.0, 1.0); let hh = T::var("h", -360.0, 720.0);
            let _ = (x1, x2, hh);
            let (f1, f2) = (T::var("f1", 0.0, 1.0), T::var("f2", 0.0, 1.0));
            let mk = $ctor;
            let c: $ty = mk(c0, x1, x2, hh);
            let tol = T::tol(1e-9, 1e-4);
            let up = c.$m(f1);
            T::ensure("toward_max.linear", abs_le(up.$comp, c0 + (T::k($hi) - c0) * f1, tol));
            T::ensure("toward_max.in_range", in_range(up.$comp, $lo - 1e-9, $hi + 1e-9));
            T::ensure("toward_max.factor1_reaches_limit", abs_le(c.$m(T::k(1.0)).$comp, T::k($hi), tol));
            let up2 = c.$m(f2);
            T::ensure("toward_max.monotone_in_factor", T::p_or(T::p_not(T::p_le(&f1, &f2)), T::p_le(&up.$comp, &(up2.$comp + tol))));
            let dn = c.$nm(f1);
            T::ensure("toward_min.linear", abs_le(dn.$comp, c0 - (c0 - T::k($lo)) * f1, tol));
            T::ensure("toward_min.in_range", in_range(dn.$comp, $lo - 1e-9, $hi + 1e-9));
            T::ensure("toward_min.factor1_reaches_limit", abs_le(c.$nm(T::k(1.0)).$comp, T::k($lo), tol));
            // the negative form is the positive form with the negated amount (blanket impl)
            T::identical("negative_form_is_negated_amount", &dn.$comp, &c.$m(-f1).$comp);
            T::identical("negative_fixed_form_is_negated_amount", &c.$nmfix(f1).$comp, &c.$mfix(-f1).$comp);
            $( T::identical(concat!("other_untouched.", stringify!($o)), &up.$o, &c.$o); )*
            $( T::identical(concat!("other_untouched_neg.", stringify!($o)), &dn.$o, &c.$o); )*
            let mut a = c; $atr::$am(&mut a, f1);
            T::identical("assign", &a.$comp, &up.$comp);
            let mut a = c; $atr::$amfix(&mut a, f1);
            T::identical("assign_fixed", &a.$comp, &c.$mfix(f1).$comp);
            let mut a = c; $natr::$nam(&mut a, f1);
            T::identical("negative_assign", &a.$comp, &dn.$comp);
            let w = Alpha { color: c, alpha: T::var("alpha", 0.0, 1.0) };
            let wu = w.$m(f1);
            T::identical("alpha_wrapped", &wu.color.$comp, &up.$comp);
            T::identical("alpha_wrapped.alpha_kept", &wu.alpha, &w.alpha);
            let mut wa = w; $atr::$am(&mut wa, f1);
            T::identical("alpha_wrapped_assign", &wa.color.$comp, &up.$comp);
        });
    };
}
increase!(c10_lighten_hsv, Hsv<Srgb, T>, "Hsv", value, 0.0, 1.0, Lighten::lighten/lighten_fixed, LightenAssign::lighten_assign/lighten_fixed_assign,
    Darken::darken/darken_fixed, DarkenAssign::darken_assign, others [saturation], |c, x1: T, _x2, h| Hsv::new(h, x1, c));
increase!(c10_lighten_hsl, Hsl<Srgb, T>, "Hsl", lightness, 0.0, 1.0, Lighten::lighten/lighten_fixed, LightenAssign::lighten_assign/lighten_fixed_assign,
    Darken::darken/darken_fixed, DarkenAssign::darken_assign, others [saturation], |c, x1: T, _x2, h| Hsl::new(h, x1, c));
increase!(c10_lighten_lab, Lab<D65, T>, "Lab", l, 0.0, 100.0, Lighten::lighten/lighten_fixed, LightenAssign::lighten_assign/lighten_fixed_assign,
    Darken::darken/darken_fixed, DarkenAssign::darken_assign, others [a, b], |c, x1: T, x2: T, _h| Lab::new(c, (x1 - T::k(0.5)) * T::k(200.0), (x2 - T::k(0.5)) * T::k(200.0)));
increase!(c10_lighten_lch, Lch<D65, T>, "Lch", l, 0.0, 100.0, Lighten::lighten/lighten_fixed, LightenAssign::lighten_assign/lighten_fixed_assign,
    Darken::darken/darken_fixed, DarkenAssign::darken_assign, others [chroma], |c, x1: T, _x2, h| Lch::new(c, x1 * T::k(100.0), h));
increase!(c10_lighten_oklab, Oklab<T>, "Oklab", l, 0.0, 1.0, Lighten::lighten/lighten_fixed, LightenAssign::lighten_assign/lighten_fixed_assign,
    Darken::darken/darken_fixed, DarkenAssign::darken_assign, others [a, b], |c, x1: T, x2: T, _h| Oklab::new(c, (x1 - T::k(0.5)) * T::k(0.8), (x2 - T::k(0.5)) * T::k(0.8)));
increase!(c10_saturate_hsv, Hsv<Srgb, T>, "Hsv", saturation, 0.0, 1.0, Saturate::saturate/saturate_fixed, SaturateAssign::saturate_assign/saturate_fixed_assign,
    Desaturate::desaturate/desaturate_fixed, DesaturateAssign::desaturate_assign, others [value], |c, x1: T, _x2, h| Hsv::new(h, c, x1));
increase!(c10_saturate_hsl, Hsl<Srgb, T>, "Hsl", saturation, 0.0, 1.0, Saturate::saturate/saturate_fixed, SaturateAssign::saturate_assign/saturate_fixed_assign,
    Desaturate::desaturate/desaturate_fixed, DesaturateAssign::desaturate_assign, others [lightness], |c, x1: T, _x2, h| Hsl::new(h, c, x1));

increase!(c10_lighten_xyz_x, Xyz<D65, T>, "Xyz (x)", x, 0.0, 0.95047, Lighten::lighten/lighten_fixed, LightenAssign::lighten_assign/lighten_fixed_assign,
    Darken::darken/darken_fixed, DarkenAssign::darken_assign, others [], |c, x1: T, x2: T, _h| Xyz::new(c, x1, x2));
increase!(c10_lighten_xyz_y, Xyz<D65, T>, "Xyz (y)", y, 0.0, 1.0, Lighten::lighten/lighten_fixed, LightenAssign::lighten_assign/lighten_fixed_assign,
    Darken::darken/darken_fixed, DarkenAssign::darken_assign, others [], |c, x1: T, x2: T, _h| Xyz::new(x1 * T::k(0.95), c, x2));
increase!(c10_lighten_xyz_z, Xyz<D65, T>, "Xyz (z)", z, 0.0, 1.08883, Lighten::lighten/lighten_fixed, LightenAssign::lighten_assign/lighten_fixed_assign,
    Darken::darken/darken_fixed, DarkenAssign::darken_assign, others [], |c, x1: T, x2: T, _h| Xyz::new(x1 * T::k(0.95), x2, c));
increase!(c10_lighten_rgb_r, LinSrgb<T>, "Rgb (red)", red, 0.0, 1.0, Lighten::lighten/lighten_fixed, LightenAssign::lighten_assign/lighten_fixed_assign,
    Darken::darken/darken_fixed, DarkenAssign::darken_assign, others [], |c, x1: T, x2: T, _h| LinSrgb::new(c, x1, x2));
increase!(c10_lighten_rgb_g, LinSrgb<T>, "Rgb (green)", green, 0.0, 1.0, Lighten::lighten/lighten_fixed, LightenAssign::lighten_assign/lighten_fixed_assign,
    Darken::darken/darken_fixed, DarkenAssign::darken_assign, others [], |c, x1: T, x2: T, _h| LinSrgb::new(x1, c, x2));
increase!(c10_lighten_rgb_b, LinSrgb<T>, "Rgb (blue)", blue, 0.0, 1.0, Lighten::lighten/lighten_fixed, LightenAssign::lighten_assign/lighten_fixed_assign,
    Darken::darken/darken_fixed, DarkenAssign::darken_assign, others [], |c, x1: T, x2: T, _h| LinSrgb::new(x1, x2, c));
increase!(c10_lighten_luma, palette::luma::Luma<Srgb, T>, "Luma", luma, 0.0, 1.0, Lighten::lighten/lighten_fixed, LightenAssign::lighten_assign/lighten_fixed_assign,
    Darken::darken/darken_fixed, DarkenAssign::darken_assign, others [], |c, _x1: T, _x2: T, _h| palette::luma::Luma::new(c));
increase!(c10_lighten_yxy, palette::Yxy<D65, T>, "Yxy", luma, 0.0, 1.0, Lighten::lighten/lighten_fixed, LightenAssign::lighten_assign/lighten_fixed_assign,
    Darken::darken/darken_fixed, DarkenAssign::darken_assign, others [x, y], |c, x1: T, x2: T, _h| palette::Yxy::new(x1 * T::k(0.7), x2 * T::k(0.7), c));
increase!(c10_lighten_luv, palette::Luv<D65, T>, "Luv", l, 0.0, 100.0, Lighten::lighten/lighten_fixed, LightenAssign::lighten_assign/lighten_fixed_assign,
    Darken::darken/darken_fixed, DarkenAssign::darken_assign, others [u, v], |c, x1: T, x2: T, _h| palette::Luv::new(c, (x1 - T::k(0.5)) * T::k(160.0), (x2 - T::k(0.5)) * T::k(200.0)));
increase!(c10_lighten_lchuv, palette::Lchuv<D65, T>, "Lchuv", l, 0.0, 100.0, Lighten::lighten/lighten_fixed, LightenAssign::lighten_assign/lighten_fixed_assign,
    Darken::darken/darken_fixed, DarkenAssign::darken_assign, others [chroma], |c, x1: T, _x2: T, h| palette::Lchuv::new(c, x1 * T::k(180.0), h));
increase!(c10_lighten_oklch, Oklch<T>, "Oklch", l, 0.0, 1.0, Lighten::lighten/lighten_fixed, LightenAssign::lighten_assign/lighten_fixed_assign,
    Darken::darken/darken_fixed, DarkenAssign::darken_assign, others [chroma], |c, x1: T, _x2: T, h| Oklch::new(c, x1 * T::k(0.4), h));
increase!(c10_lighten_okhsl, palette::Okhsl<T>, "Okhsl", lightness, 0.0, 1.0, Lighten::lighten/lighten_fixed, LightenAssign::lighten_assign/lighten_fixed_assign,
    Darken::darken/darken_fixed, DarkenAssign::darken_assign, others [saturation], |c, x1: T, _x2: T, h| palette::Okhsl::new(h, x1, c));
increase!(c10_lighten_okhsv, palette::Okhsv<T>, "Okhsv", value, 0.0, 1.0, Lighten::lighten/lighten_fixed, LightenAssign::lighten_assign/lighten_fixed_assign,
    Darken::darken/darken_fixed, DarkenAssign::darken_assign, others [saturation], |c, x1: T, _x2: T, h| palette::Okhsv::new(h, x1, c));
increase!(c10_lighten_hsluv, palette::Hsluv<D65, T>, "Hsluv", l, 0.0, 100.0, Lighten::lighten/lighten_fixed, LightenAssign::lighten_assign/lighten_fixed_assign,
    Darken::darken/darken_fixed, DarkenAssign::darken_assign, others [saturation], |c, x1: T, _x2: T, h| palette::Hsluv::new(h, x1 * T::k(100.0), c));
increase!(c10_lighten_cam16_jab, palette::cam16::Cam16UcsJab<T>, "Cam16UcsJab", lightness, 0.0, 100.0, Lighten::lighten/lighten_fixed, LightenAssign::lighten_assign/lighten_fixed_assign,
    Darken::darken/darken_fixed, DarkenAssign::darken_assign, others [a, b], |c, x1: T, x2: T, _h| palette::cam16::Cam16UcsJab::new(c, (x1 - T::k(0.5)) * T::k(100.0), (x2 - T::k(0.5)) * T::k(100.0)));
increase!(c10_lighten_cam16_jmh, palette::cam16::Cam16UcsJmh<T>, "Cam16UcsJmh", lightness, 0.0, 100.0, Lighten::lighten/lighten_fixed, LightenAssign::lighten_assign/lighten_fixed_assign,
    Darken::darken/darken_fixed, DarkenAssign::darken_assign, others [colorfulness], |c, x1: T, _x2: T, h| palette::cam16::Cam16UcsJmh::new(c, x1 * T::k(50.0), h));
increase!(c10_saturate_lch, Lch<D65, T>, "Lch", chroma, 0.0, 128.0, Saturate::saturate/saturate_fixed, SaturateAssign::saturate_assign/saturate_fixed_assign,
    Desaturate::desaturate/desaturate_fixed, DesaturateAssign::desaturate_assign, others [l], |c, x1: T, _x2: T, h| Lch::new(x1 * T::k(100.0), c, h));
increase!(c10_saturate_lchuv, palette::Lchuv<D65, T>, "Lchuv", chroma, 0.0, 180.0, Saturate::saturate/saturate_fixed, SaturateAssign::saturate_assign/saturate_fixed_assign,
    Desaturate::desaturate/desaturate_fixed, DesaturateAssign::desaturate_assign, others [l], |c, x1: T, _x2: T, h| palette::Lchuv::new(x1 * T::k(100.0), c, h));
increase!(c10_saturate_hsluv, palette::Hsluv<D65, T>, "Hsluv", saturation, 0.0, 100.0, Saturate::saturate/saturate_fixed, SaturateAssign::saturate_assign/saturate_fixed_assign,
    Desaturate::desaturate/desaturate_fixed, DesaturateAssign::desaturate_assign, others [l], |c, x1: T, _x2: T, h| palette::Hsluv::new(h, c, x1 * T::k(100.0)));
increase!(c10_saturate_okhsl, palette::Okhsl<T>, "Okhsl", saturation, 0.0, 1.0, Saturate::saturate/saturate_fixed, SaturateAssign::saturate_assign/saturate_fixed_assign,
    Desaturate::desaturate/desaturate_fixed, DesaturateAssign::desaturate_assign, others [lightness], |c, x1: T, _x2: T, h| palette::Okhsl::new(h, c, x1));
increase!(c10_saturate_okhsv, palette::Okhsv<T>, "Okhsv", saturation, 0.0, 1.0, Saturate::saturate/saturate_fixed, SaturateAssign::saturate_assign/saturate_fixed_assign,
    Desaturate::desaturate/desaturate_fixed, DesaturateAssign::desaturate_assign, others [value], |c, x1: T, _x2: T, h| palette::Okhsv::new(h, c, x1));
increase!(c10_saturate_cam16_jmh, palette::cam16::Cam16UcsJmh<T>, "Cam16UcsJmh", colorfulness, 0.0, 50.0, Saturate::saturate/saturate_fixed, SaturateAssign::saturate_assign/saturate_fixed_assign,
    Desaturate::desaturate/desaturate_fixed, DesaturateAssign::desaturate_assign, others [lightness], |c, x1: T, _x2: T, h| palette::cam16::Cam16UcsJmh::new(x1 * T::k(100.0), c, h));

macro_rules! lighten_hwb {
    ($name:ident, $ty:ty, $what:expr, $ctor:expr) => {
        program!($name, "C10", "quick", sv,
            concat!("Lighten/LightenAssign/Darken/DarkenAssign for ", $what, " [macros/lighten_saturate.rs impl_lighten_hwb!]"),
            "HWB lightening moves whiteness up and blackness down (darkening the reverse), linearly in the factor, within [0,1]; negative forms equal the positive forms with the negated amount; assigning and Alpha-wrapped forms are term-identical to the by-value form",
        {
            let (h, w, b) = (T::var("h", -360.0, 720.0), T::var("w", 0.0, 1.0), T::var("b", 0.0, 1.0));
            let f = T::var("f", 0.0, 1.0);
            let mk = $ctor;
            let c: $ty = mk(h, w, b);
            let tol = T::tol(1e-9, 1e-4);
            let up = c.lighten(f);
            T::ensure("lighten.whiteness_up", abs_le(up.whiteness, w + (T::k(1.0) - w) * f, tol));
            T::ensure("lighten.blackness_down", abs_le(up.blackness, b - b * f, tol));
            let dn = c.darken(f);
            T::ensure("darken.whiteness_down", abs_le(dn.whiteness, w - w * f, tol));
            T::ensure("darken.blackness_up", abs_le(dn.blackness, b + (T::k(1.0) - b) * f, tol));
            T::ensure("in_range", conj::<T>(&[in_range(up.whiteness, -1e-9, 1.0 + 1e-9), in_range(up.blackness, -1e-9, 1.0 + 1e-9), in_range(dn.whiteness, -1e-9, 1.0 + 1e-9), in_range(dn.blackness, -1e-9, 1.0 + 1e-9)]));
            T::identical("hue_untouched", &up.hue.into_raw_degrees(), &h);
            T::identical("darken_is_negated_lighten.w", &dn.whiteness, &c.lighten(-f).whiteness);
            T::identical("darken_is_negated_lighten.b", &dn.blackness, &c.lighten(-f).blackness);
            let mut a = c; a.lighten_assign(f);
            T::identical("lighten_assign.w", &a.whiteness, &up.whiteness);
            T::identical("lighten_assign.b", &a.blackness, &up.blackness);
            let mut a = c; a.darken_assign(f);
            T::identical("darken_assign.w", &a.whiteness, &dn.whiteness);
            T::identical("darken_assign.b", &a.blackness, &dn.blackness);
            let mut a = c; a.lighten_fixed_assign(f);
            T::identical("lighten_fixed_assign.w", &a.whiteness, &c.lighten_fixed(f).whiteness);
            T::identical("lighten_fixed_assign.b", &a.blackness, &c.lighten_fixed(f).blackness);
            let w4 = Alpha { color: c, alpha: T::var("alpha", 0.0, 1.0) };
            let wd = w4.darken(f);
            T::identical("alpha_wrapped.darken.w", &wd.color.whiteness, &dn.whiteness);
            T::identical("alpha_wrapped.darken.b", &wd.color.blackness, &dn.blackness);
            let mut wa = w4; wa.darken_assign(f);
            T::identical("alpha_wrapped.darken_assign.b", &wa.color.blackness, &dn.blackness);
            // clamp variants (the HWB clamp divides: by-value and assigning forms must be the same operations)
            let wide: $ty = mk(h, T::var("wo", -1.0, 3.0), T::var("bo", -1.0, 3.0));
            let k = wide.clamp();
            let mut ka = wide; ka.clamp_assign();
            T::identical("clamp_assign.w", &ka.whiteness, &k.whiteness);
            T::identical("clamp_assign.b", &ka.blackness, &k.blackness);
        });
    };
}
lighten_hwb!(c10_lighten_hwb, Hwb<Srgb, T>, "Hwb", |h, w, b| Hwb::new(h, w, b));
lighten_hwb!(c10_lighten_okhwb, Okhwb<T>, "Okhwb", |h, w, b| Okhwb::new(h, w, b));

program!(c10_hue_ops, "C10", "quick", sv,
    "ShiftHue/ShiftHueAssign/WithHue/SetHue [macros/hue.rs impl_hue_ops!], color_theory::{Complementary, Triadic, Tetradic, Analogous, SplitComplementary} [color_theory.rs, macros/color_theory.rs]",
    "hue shift adds the amount to the raw hue and leaves the other components as the same terms; set/with hue replace it; the colour-scheme helpers are hue shifts by the documented angles (a/b negation for Lab); assigning and Alpha forms term-identical",
{
    use palette::color_theory::{Analogous, Complementary, SplitComplementary, Tetradic, Triadic};
    let (h, s, v, d) = (T::var("h", -360.0, 720.0), T::var("s", 0.0, 1.0), T::var("v", 0.0, 1.0), T::var("d", -720.0, 720.0));
    let c: Hsv<Srgb, T> = Hsv::new(h, s, v);
    let sh = c.shift_hue(d);
    T::identical("shift.hue", &sh.hue.into_raw_degrees(), &(h + d));
    T::identical("shift.s", &sh.saturation, &s);
    T::identical("shift.v", &sh.value, &v);
    let mut a = c; a.shift_hue_assign(d);
    T::identical("shift_assign.hue", &a.hue.into_raw_degrees(), &sh.hue.into_raw_degrees());
    let wh = c.with_hue(d);
    T::identical("with_hue", &wh.hue.into_raw_degrees(), &d);
    T::identical("with_hue.s", &wh.saturation, &s);
    let mut a = c; a.set_hue(d);
    T::identical("set_hue", &a.hue.into_raw_degrees(), &d);
    let w = Alpha { color: c, alpha: T::var("alpha", 0.0, 1.0) };
    T::identical("alpha.shift.hue", &w.shift_hue(d).color.hue.into_raw_degrees(), &sh.hue.into_raw_degrees());
    T::identical("alpha.shift.alpha", &w.shift_hue(d).alpha, &w.alpha);
    let tol = T::tol(1e-12, 1e-3);
    T::ensure("complementary_is_180", abs_le(c.complementary().hue.into_raw_degrees(), h + T::k(180.0), tol));
    let (t1, t2) = c.triadic();
    T::ensure("triadic_is_120_240", T::p_and(abs_le(t1.hue.into_raw_degrees(), h + T::k(120.0), tol), abs_le(t2.hue.into_raw_degrees(), h + T::k(240.0), tol)));
    let (q1, q2, q3) = c.tetradic();
    T::ensure("tetradic_is_90_180_270", conj::<T>(&[abs_le(q1.hue.into_raw_degrees(), h + T::k(90.0), tol), abs_le(q2.hue.into_raw_degrees(), h + T::k(180.0), tol), abs_le(q3.hue.into_raw_degrees(), h + T::k(270.0), tol)]));
    let (a1, a2) = c.analogous();
    T::ensure("analogous_is_pm30", T::p_and(abs_le(a1.hue.into_raw_degrees(), h + T::k(330.0), tol), abs_le(a2.hue.into_raw_degrees(), h + T::k(30.0), tol)));
    let (s1, s2) = c.split_complementary();
    T::ensure("split_complementary_is_150_210", T::p_and(abs_le(s1.hue.into_raw_degrees(), h + T::k(150.0), tol), abs_le(s2.hue.into_raw_degrees(), h + T::k(210.0), tol)));
    T::identical("scheme_keeps_other_components", &t1.saturation, &s);
    let lab: Lab<D65, T> = Lab::new(T::var("l", 0.0, 100.0), T::var("a", -128.0, 127.0), T::var("b", -128.0, 127.0));
    let lc = lab.complementary();
    T::ensure("lab_complementary_negates_ab", T::p_and(abs_le(lc.a, -lab.a, tol), abs_le(lc.b, -lab.b, tol)));
    T::identical("lab_complementary_keeps_l", &lc.l, &lab.l);
});

program!(c10_arithmetic_variants, "C10", "quick", sv,
    "Add/Sub/Mul/Div and *Assign for Rgb, Hsv (+ scalar forms) [macros/arithmetics.rs], Alpha forwarding, Clamp/ClampAssign",
    "component arithmetic is component-wise; the assigning form and the Alpha-wrapped form are term-identical to the by-value form",
{
    let (r1, g1, b1) = (T::var("r1", 0.0, 1.0), T::var("g1", 0.0, 1.0), T::var("b1", 0.0, 1.0));
    let (r2, g2, b2) = (T::var("r2", 0.1, 1.0), T::var("g2", 0.1, 1.0), T::var("b2", 0.1, 1.0));
    let k = T::var("k", 0.1, 2.0);
    let a: LinSrgb<T> = LinSrgb::new(r1, g1, b1);
    let b: LinSrgb<T> = LinSrgb::new(r2, g2, b2);
    T::identical("add.r", &(a + b).red, &(r1 + r2)); T::identical("add.g", &(a + b).green, &(g1 + g2)); T::identical("add.b", &(a + b).blue, &(b1 + b2));
    T::identical("sub.r", &(a - b).red, &(r1 - r2)); T::identical("mul.g", &(a * b).green, &(g1 * g2)); T::identical("div.b", &(a / b).blue, &(b1 / b2));
    T::identical("add_scalar.r", &(a + k).red, &(r1 + k)); T::identical("mul_scalar.b", &(a * k).blue, &(b1 * k)); T::identical("div_scalar.g", &(a / k).green, &(g1 / k));
    let mut x = a; x += b; T::identical("add_assign.r", &x.red, &(a + b).red); T::identical("add_assign.b", &x.blue, &(a + b).blue);
    let mut x = a; x -= b; T::identical("sub_assign.g", &x.green, &(a - b).green);
    let mut x = a; x *= b; T::identical("mul_assign.r", &x.red, &(a * b).red);
    let mut x = a; x /= b; T::identical("div_assign.b", &x.blue, &(a / b).blue);
    let mut x = a; x *= k; T::identical("mul_assign_scalar.g", &x.green, &(a * k).green);
    let (al1, al2) = (T::var("alpha1", 0.0, 1.0), T::var("alpha2", 0.1, 1.0));
    let wa = Alpha { color: a, alpha: al1 }; let wb = Alpha { color: b, alpha: al2 };
    T::identical("alpha.add.r", &(wa + wb).color.red, &(a + b).red); T::identical("alpha.add.alpha", &(wa + wb).alpha, &(al1 + al2));
    T::identical("alpha.mul.g", &(wa * wb).color.green, &(a * b).green);
    let mut wx = wa; wx += wb; T::identical("alpha.add_assign.b", &wx.color.blue, &(a + b).blue);
    // clamp variants
    let wide: LinSrgb<T> = LinSrgb::new(T::var("wr", -2.0, 3.0), T::var("wg", -2.0, 3.0), T::var("wb", -2.0, 3.0));
    let kc = wide.clamp(); let mut ka = wide; ka.clamp_assign();
    T::identical("clamp_assign.r", &ka.red, &kc.red); T::identical("clamp_assign.g", &ka.green, &kc.green); T::identical("clamp_assign.b", &ka.blue, &kc.blue);
    let ww = Alpha { color: wide, alpha: T::var("walpha", -1.0, 2.0) };
    T::identical("alpha.clamp.r", &ww.clamp().color.red, &kc.red);
    let mut wk = ww; wk.clamp_assign(); T::identical("alpha.clamp_assign.alpha", &wk.alpha, &ww.clamp().alpha);
    let h1: Hsv<Linear<Srgb>, T> = Hsv::new(T::var("h1", 0.0, 360.0), r1, g1);
    let h2: Hsv<Linear<Srgb>, T> = Hsv::new(T::var("h2", 0.0, 360.0), r2, g2);
    T::identical("hsv.add.hue", &(h1 + h2).hue.into_raw_degrees(), &(h1.hue.into_raw_degrees() + h2.hue.into_raw_degrees()));
    T::identical("hsv.add.s", &(h1 + h2).saturation, &(r1 + r2));
    let mut hx = h1; hx += h2; T::identical("hsv.add_assign.hue", &hx.hue.into_raw_degrees(), &(h1 + h2).hue.into_raw_degrees());
});

pub fn all() -> Vec<crate::Prog> {
    vec![c10_lighten_xyz_x::prog(), c10_lighten_xyz_y::prog(), c10_lighten_xyz_z::prog(), c10_lighten_rgb_r::prog(), c10_lighten_rgb_g::prog(), c10_lighten_rgb_b::prog(), c10_lighten_luma::prog(), c10_lighten_yxy::prog(), c10_lighten_luv::prog(), c10_lighten_lchuv::prog(), c10_lighten_oklch::prog(), c10_lighten_okhsl::prog(), c10_lighten_okhsv::prog(), c10_lighten_hsluv::prog(), c10_lighten_cam16_jab::prog(), c10_lighten_cam16_jmh::prog(), c10_saturate_lch::prog(), c10_saturate_lchuv::prog(), c10_saturate_hsluv::prog(), c10_saturate_okhsl::prog(), c10_saturate_okhsv::prog(), c10_saturate_cam16_jmh::prog(), c10_mix_rgb::prog(), c10_mix_lab::prog(), c10_mix_oklab::prog(), c10_mix_hsv::prog(), c10_mix_hsl::prog(), c10_mix_lch::prog(),
         c10_mix_hwb::prog(), c10_mix_oklch::prog(), c10_lighten_hsv::prog(), c10_lighten_hsl::prog(), c10_lighten_lab::prog(),
         c10_lighten_lch::prog(), c10_lighten_oklab::prog(), c10_saturate_hsv::prog(), c10_saturate_hsl::prog(),
         c10_lighten_hwb::prog(), c10_lighten_okhwb::prog(), c10_hue_ops::prog(), c10_arithmetic_variants::prog()]
}
