//! C02 (and C01/C15 through it) - Okhsl / Okhsv against Ottosson's reference implementation (specs.rs::ok), for every
//! path of the real code: max-saturation region (red / green / blue first at zero), lower / upper half of the gamut
//! triangle, which Halley steps are valid, the two saturation segments of Okhsl. The contract is decided as equality
//! of the code's term and the reference's term modulo associativity / commutativity (term::ac_equal) - no solver.
use crate::logic::*;
use crate::specs::ok;
use palette::convert::FromColorUnclamped;
use palette::{Okhsl, Okhsv, Oklab, OklabHue};

program!(c02_okhsl_to_oklab_ottosson, "C02,C15", "quick", s,
    "FromColorUnclamped<Okhsl> for Oklab [oklab.rs] -> ok_utils::{toe_inv, ChromaValues::from_normalized (get_Cs), LC::find_cusp, LC::max_saturation, find_gamut_intersection, ST::from, ST::mid} [ok_utils.rs], oklab::oklab_to_linear_srgb",
    "Okhsl -> Oklab equals Ottosson's okhsl_to_srgb (up to its Oklab stage) for every hue, every saturation and every lightness strictly between 0 and 1, on every path (max-saturation region, lower / upper half of the gamut triangle, validity of each Halley step, s below / above 0.8)",
{
    let (h, s, l) = (T::var("h", 0.0, 360.0), T::var("s", 0.0, 1.0), T::var("l", 0.001, 0.999));
    let lab: Oklab<T> = Oklab::from_color_unclamped(Okhsl::new(h, s, l));
    let (a_, b_) = OklabHue::from_degrees(h).into_cartesian();
    let (sl, sa, sb) = ok::okhsl_to_oklab::<T>(a_, b_, s, l);
    let tol = T::tol(1e-9, 1e-6);
    T::ensure("ottosson.l", same_or_close(lab.l, sl, tol));
    T::ensure("ottosson.a", same_or_close(lab.a, sa, tol));
    T::ensure("ottosson.b", same_or_close(lab.b, sb, tol));
});

program!(c02_oklab_to_okhsl_ottosson, "C02,C15", "quick", s,
    "FromColorUnclamped<Oklab> for Okhsl [okhsl.rs] -> ok_utils::{toe, ChromaValues::from_normalized, LC::find_cusp, LC::max_saturation, find_gamut_intersection, ST::from, ST::mid}",
    "Oklab -> Okhsl equals Ottosson's srgb_to_okhsl (from its Oklab stage) for every chromatic Oklab colour with 0 < L < 1, on every path; the hue is the reference's angle pi + atan2(-b, -a)",
{
    let (l, a, b) = (T::var("l", 0.001, 0.999), T::var("a", -0.4, 0.4), T::var("b", -0.4, 0.4));
    T::assume(T::p_le(&T::k(1e-6), &(a * a + b * b)));
    let hsl: Okhsl<T> = Okhsl::from_color_unclamped(Oklab::new(l, a, b));
    let (ss, sl) = ok::oklab_to_okhsl::<T>(l, a, b);
    let tol = T::tol(1e-9, 1e-6);
    T::ensure("ottosson.saturation", same_or_close(hsl.saturation, ss, tol));
    T::ensure("ottosson.lightness", same_or_close(hsl.lightness, sl, tol));
    // the reference's h = 0.5 + 0.5 atan2(-b, -a) / pi turns, i.e. the angle pi + atan2(-b, -a)
    let hue = palette::angle::RealAngle::radians_to_degrees(T::k(core::f64::consts::PI) + palette::num::Trigonometry::atan2(-b, -a));
    T::ensure("ottosson.hue", same_or_hue_close(hsl.hue.into_raw_degrees(), hue, T::tol(1e-9, 1e-6)));
});

program!(c02_okhsv_to_oklab_ottosson, "C02,C15", "quick", s,
    "FromColorUnclamped<Okhsv> for Oklab [oklab.rs] -> ok_utils::{toe_inv, LC::find_cusp, LC::max_saturation, ST::from}, oklab::oklab_to_linear_srgb",
    "Okhsv -> Oklab equals Ottosson's okhsv_to_srgb (up to its Oklab stage) for every hue and all saturation, value in (0, 1], on every path",
{
    let (h, s, v) = (T::var("h", 0.0, 360.0), T::var("s", 0.001, 1.0), T::var("v", 0.001, 1.0));
    let lab: Oklab<T> = Oklab::from_color_unclamped(Okhsv::new(h, s, v));
    let rad = palette::angle::RealAngle::degrees_to_radians(h);
    let (a_, b_) = (palette::num::Trigonometry::cos(rad), palette::num::Trigonometry::sin(rad));
    let (sl, sa, sb) = ok::okhsv_to_oklab::<T>(a_, b_, s, v);
    let tol = T::tol(1e-9, 1e-6);
    T::ensure("ottosson.l", same_or_close(lab.l, sl, tol));
    T::ensure("ottosson.a", same_or_close(lab.a, sa, tol));
    T::ensure("ottosson.b", same_or_close(lab.b, sb, tol));
});

program!(c02_oklab_to_okhsv_ottosson, "C02,C15", "quick", s,
    "FromColorUnclamped<Oklab> for Okhsv [okhsv.rs] -> ok_utils::{toe, toe_inv, LC::find_cusp, LC::max_saturation, ST::from}, oklab::oklab_to_linear_srgb",
    "Oklab -> Okhsv equals Ottosson's srgb_to_okhsv (from its Oklab stage) for every chromatic Oklab colour with L > 0, on every path; the hue is the reference's angle pi + atan2(-b, -a)",
{
    let (l, a, b) = (T::var("l", 0.001, 1.0), T::var("a", -0.4, 0.4), T::var("b", -0.4, 0.4));
    T::assume(T::p_le(&T::k(1e-6), &(a * a + b * b)));
    let hsv: Okhsv<T> = Okhsv::from_color_unclamped(Oklab::new(l, a, b));
    let (ss, sv) = ok::oklab_to_okhsv::<T>(l, a, b);
    let tol = T::tol(1e-9, 1e-6);
    T::ensure("ottosson.saturation", same_or_close(hsv.saturation, ss, tol));
    T::ensure("ottosson.value", same_or_close(hsv.value, sv, tol));
    // the reference's h = 0.5 + 0.5 atan2(-b, -a) / pi turns, i.e. the angle pi + atan2(-b, -a)
    let hue = palette::angle::RealAngle::radians_to_degrees(T::k(core::f64::consts::PI) + palette::num::Trigonometry::atan2(-b, -a));
    T::ensure("ottosson.hue", same_or_hue_close(hsv.hue.into_raw_degrees(), hue, T::tol(1e-9, 1e-6)));
});

pub fn all() -> Vec<crate::Prog> {
    vec![c02_okhsl_to_oklab_ottosson::prog(), c02_oklab_to_okhsl_ottosson::prog(), c02_okhsv_to_oklab_ottosson::prog(), c02_oklab_to_okhsv_ottosson::prog()]
}
