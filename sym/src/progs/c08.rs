//! C08 — blending and compositing against the W3C Compositing and Blending formulas.
//! Spec side (independent, from the W3C text), premultiplied form:
//!   co = cs*(1-ab) + cb*(1-as) + as*ab*B(Cb, Cs),   ao = as + ab - as*ab     (cs = as*Cs, cb = ab*Cb)
use crate::logic::*;
use palette::blend::{Blend, Compose, PreAlpha, Premultiply};
use palette::{Alpha, LinSrgb};
#[allow(non_camel_case_types)]
pub type LinLuma<T> = palette::luma::Luma<palette::encoding::Linear<palette::white_point::D65>, T>;

pub fn b_multiply<T: Num>(cs: T, cb: T) -> T { cb * cs }
pub fn b_screen<T: Num>(cs: T, cb: T) -> T { cb + cs - cb * cs }
pub fn b_hard_light<T: Num>(cs: T, cb: T) -> T {
    T::ite(&T::p_le(&cs, &T::k(0.5)), b_multiply(T::k(2.0) * cs, cb), b_screen(T::k(2.0) * cs - T::k(1.0), cb))
}
pub fn b_overlay<T: Num>(cs: T, cb: T) -> T { b_hard_light(cb, cs) }
pub fn b_darken<T: Num>(cs: T, cb: T) -> T { T::ite(&T::p_le(&cs, &cb), cs, cb) }
pub fn b_lighten<T: Num>(cs: T, cb: T) -> T { T::ite(&T::p_le(&cs, &cb), cb, cs) }
pub fn b_dodge<T: Num>(cs: T, cb: T) -> T {
    let q = cb / (T::k(1.0) - cs);
    T::ite(&T::p_eq(&cb, &T::k(0.0)), T::k(0.0),
        T::ite(&T::p_eq(&cs, &T::k(1.0)), T::k(1.0), T::ite(&T::p_le(&q, &T::k(1.0)), q, T::k(1.0))))
}
pub fn b_burn<T: Num>(cs: T, cb: T) -> T {
    let q = (T::k(1.0) - cb) / cs;
    T::ite(&T::p_eq(&cb, &T::k(1.0)), T::k(1.0),
        T::ite(&T::p_eq(&cs, &T::k(0.0)), T::k(0.0), T::k(1.0) - T::ite(&T::p_le(&q, &T::k(1.0)), q, T::k(1.0))))
}
pub fn b_soft_light<T: Num>(cs: T, cb: T) -> T {
    let d = T::ite(&T::p_le(&cb, &T::k(0.25)), ((T::k(16.0) * cb - T::k(12.0)) * cb + T::k(4.0)) * cb, cb.sqrt());
    T::ite(&T::p_le(&cs, &T::k(0.5)), cb - (T::k(1.0) - T::k(2.0) * cs) * cb * (T::k(1.0) - cb),
        cb + (T::k(2.0) * cs - T::k(1.0)) * (d - cb))
}
pub fn b_difference<T: Num>(cs: T, cb: T) -> T { let d = cb - cs; T::ite(&T::p_le(&T::k(0.0), &d), d, -d) }
pub fn b_exclusion<T: Num>(cs: T, cb: T) -> T { cb + cs - T::k(2.0) * cb * cs }

macro_rules! blend_mode {
    ($name:ident, $method:ident, $spec:ident, $what:expr) => {
        program!($name, "C08", "quick", sv,
            concat!("Blend::", stringify!($method), " for PreAlpha<C> -> blend::blend::{blend_separable, ", stringify!($method), "_blend} [blend/blend.rs], Premultiply::{premultiply, unpremultiply} [macros/blend.rs]"),
            concat!($what, ": result == cs(1-ab) + cb(1-as) + as*ab*B(Cb,Cs), alpha == as+ab-as*ab, all in [0,1], for all Cs,Cb,as,ab in [0,1] (PreAlpha input built by the real premultiply)"),
        {
            let (cs, a_s, cb, a_b) = (T::var("cs", 0.0, 1.0), T::var("as", 0.0, 1.0), T::var("cb", 0.0, 1.0), T::var("ab", 0.0, 1.0));
            let src: PreAlpha<LinLuma<T>> = LinLuma::new(cs).premultiply(a_s);
            let dst: PreAlpha<LinLuma<T>> = LinLuma::new(cb).premultiply(a_b);
            let r = src.$method(dst);
            T::output("r.color", &r.color.luma); T::output("r.alpha", &r.alpha);
            let spec = cs * a_s * (T::k(1.0) - a_b) + cb * a_b * (T::k(1.0) - a_s) + a_s * a_b * $spec::<T>(cs, cb);
            let tol = T::tol(1e-9, 1e-5);
            T::ensure("w3c.color", abs_le(r.color.luma, spec, tol));
            T::ensure("w3c.alpha", abs_le(r.alpha, a_s + a_b - a_s * a_b, tol));
            T::ensure("range.color", in_range(r.color.luma, -1e-9, 1.0 + 1e-9));
            T::ensure("range.alpha", in_range(r.alpha, 0.0, 1.0));
            T::ensure("premultiplied_color_at_most_alpha", T::p_le(&r.color.luma, &(r.alpha + T::k(1e-9))));
        });
    };
}
blend_mode!(c08_multiply, multiply, b_multiply, "multiply");
blend_mode!(c08_screen, screen, b_screen, "screen");
blend_mode!(c08_overlay, overlay, b_overlay, "overlay");
blend_mode!(c08_darken, darken, b_darken, "darken");
blend_mode!(c08_lighten, lighten, b_lighten, "lighten");
blend_mode!(c08_dodge, dodge, b_dodge, "color-dodge");
blend_mode!(c08_burn, burn, b_burn, "color-burn");
blend_mode!(c08_hard_light, hard_light, b_hard_light, "hard-light");
blend_mode!(c08_soft_light, soft_light, b_soft_light, "soft-light");
blend_mode!(c08_difference, difference, b_difference, "difference");
blend_mode!(c08_exclusion, exclusion, b_exclusion, "exclusion");

macro_rules! compose_op {
    ($name:ident, $method:ident, $what:expr, |$cs:ident, $as_:ident, $cb:ident, $ab:ident| $co:expr, $ao:expr) => {
        program!($name, "C08", "quick", sv,
            concat!("Compose::", stringify!($method), " for PreAlpha<C> [blend/compose.rs]"),
            concat!($what, ": premultiplied result colour and alpha equal the Porter-Duff coefficients; all in [0,1]; on a 3-component colour (every component independently)"),
        {
            let (r1, g1, b1, a1) = (T::var("r1", 0.0, 1.0), T::var("g1", 0.0, 1.0), T::var("b1", 0.0, 1.0), T::var("a1", 0.0, 1.0));
            let (r2, g2, b2, a2) = (T::var("r2", 0.0, 1.0), T::var("g2", 0.0, 1.0), T::var("b2", 0.0, 1.0), T::var("a2", 0.0, 1.0));
            // premultiplied inputs: colour components at most alpha
            T::assume(conj::<T>(&[T::p_le(&r1, &a1), T::p_le(&g1, &a1), T::p_le(&b1, &a1), T::p_le(&r2, &a2), T::p_le(&g2, &a2), T::p_le(&b2, &a2)]));
            let src: PreAlpha<LinSrgb<T>> = PreAlpha { color: LinSrgb::new(r1, g1, b1), alpha: a1 };
            let dst: PreAlpha<LinSrgb<T>> = PreAlpha { color: LinSrgb::new(r2, g2, b2), alpha: a2 };
            let r = src.$method(dst);
            let tol = T::tol(1e-9, 1e-5);
            let f = |$cs: T, $as_: T, $cb: T, $ab: T| -> T { $co };
            let fa = |$as_: T, $ab: T| -> T { $ao };
            T::ensure("pd.red", abs_le(r.color.red, f(r1, a1, r2, a2), tol));
            T::ensure("pd.green", abs_le(r.color.green, f(g1, a1, g2, a2), tol));
            T::ensure("pd.blue", abs_le(r.color.blue, f(b1, a1, b2, a2), tol));
            T::ensure("pd.alpha", abs_le(r.alpha, fa(a1, a2), tol));
            T::ensure("range.alpha", in_range(r.alpha, 0.0, 1.0));
            T::ensure("range.color", conj::<T>(&[in_range(r.color.red, -1e-9, 1.0 + 1e-9), in_range(r.color.green, -1e-9, 1.0 + 1e-9), in_range(r.color.blue, -1e-9, 1.0 + 1e-9)]));
        });
    };
}
compose_op!(c08_over, over, "source-over", |cs, a_s, cb, _ab| cs + (T::k(1.0) - a_s) * cb, a_s + _ab - a_s * _ab);
compose_op!(c08_inside, inside, "source-in", |cs, _as, _cb, ab| cs * ab, _as * ab);
compose_op!(c08_outside, outside, "source-out", |cs, _as, _cb, ab| cs * (T::k(1.0) - ab), _as * (T::k(1.0) - ab));
compose_op!(c08_atop, atop, "source-atop", |cs, a_s, cb, ab| cs * ab + (T::k(1.0) - a_s) * cb, ab + _as_unused(a_s));
compose_op!(c08_xor, xor, "xor", |cs, a_s, cb, ab| cs * (T::k(1.0) - ab) + (T::k(1.0) - a_s) * cb, a_s + ab - T::k(2.0) * a_s * ab);

fn _as_unused<T: Num>(_x: T) -> T { T::k(0.0) }

program!(c08_plus, "C08", "quick", sv,
    "Compose::plus for PreAlpha<C> [blend/compose.rs]",
    "plus (lighter): colour = cs + cb and alpha = as + ab, each saturating at 1",
{
    let (c1, a1, c2, a2) = (T::var("c1", 0.0, 1.0), T::var("a1", 0.0, 1.0), T::var("c2", 0.0, 1.0), T::var("a2", 0.0, 1.0));
    T::assume(T::p_and(T::p_le(&c1, &a1), T::p_le(&c2, &a2)));
    let src: PreAlpha<LinLuma<T>> = PreAlpha { color: LinLuma::new(c1), alpha: a1 };
    let dst: PreAlpha<LinLuma<T>> = PreAlpha { color: LinLuma::new(c2), alpha: a2 };
    let r = src.plus(dst);
    let one = T::k(1.0);
    let sa = a1 + a2;
    T::ensure("pd.alpha", abs_le(r.alpha, T::ite(&T::p_le(&sa, &one), sa, one), T::tol(1e-9, 1e-5)));
    T::ensure("pd.color_is_sum", abs_le(r.color.luma, c1 + c2, T::tol(1e-9, 1e-5)));
    T::ensure("range.alpha", in_range(r.alpha, 0.0, 1.0));
});

program!(c08_identities, "C08", "quick", sv,
    "Compose::over / Blend on opaque, Alpha and PreAlpha inputs [blend/compose.rs, blend/blend.rs]",
    "Porter-Duff identities in premultiplied terms: transparent source over backdrop == backdrop; opaque source over anything == source; opaque inputs reduce to the plain blend function; commutative modes/operators are symmetric",
{
    let (c1, a1, c2, a2) = (T::var("c1", 0.0, 1.0), T::var("a1", 0.0, 1.0), T::var("c2", 0.0, 1.0), T::var("a2", 0.0, 1.0));
    let tol = T::tol(1e-9, 1e-5);
    let pre = |c: T, a: T| -> PreAlpha<LinLuma<T>> { LinLuma::new(c).premultiply(a) };
    // transparent source over backdrop
    let r = pre(c1, T::k(0.0)).over(pre(c2, a2));
    T::ensure("transparent_over.color", abs_le(r.color.luma, c2 * a2, tol));
    T::ensure("transparent_over.alpha", abs_le(r.alpha, a2, tol));
    // opaque source over anything
    let r = pre(c1, T::k(1.0)).over(pre(c2, a2));
    T::ensure("opaque_over.color", abs_le(r.color.luma, c1, tol));
    T::ensure("opaque_over.alpha", abs_le(r.alpha, T::k(1.0), tol));
    // opaque inputs reduce to the plain per-component blend function
    let o = LinLuma::new(c1).multiply(LinLuma::new(c2));
    T::ensure("opaque.multiply", abs_le(o.luma, b_multiply::<T>(c1, c2), tol));
    let o = LinLuma::new(c1).screen(LinLuma::new(c2));
    T::ensure("opaque.screen", abs_le(o.luma, b_screen::<T>(c1, c2), tol));
    let o = LinLuma::new(c1).hard_light(LinLuma::new(c2));
    T::ensure("opaque.hard_light", abs_le(o.luma, b_hard_light::<T>(c1, c2), tol));
    let o = LinLuma::new(c1).difference(LinLuma::new(c2));
    T::ensure("opaque.difference", abs_le(o.luma, b_difference::<T>(c1, c2), tol));
    let o = LinLuma::new(c1).dodge(LinLuma::new(c2));
    T::ensure("opaque.dodge", abs_le(o.luma, b_dodge::<T>(c1, c2), tol));
    let o = LinLuma::new(c1).burn(LinLuma::new(c2));
    T::ensure("opaque.burn", abs_le(o.luma, b_burn::<T>(c1, c2), tol));
    // symmetry of the commutative modes and operators
    let s1 = pre(c1, a1).multiply(pre(c2, a2)); let s2 = pre(c2, a2).multiply(pre(c1, a1));
    T::ensure("symmetric.multiply", T::p_and(abs_le(s1.color.luma, s2.color.luma, tol), abs_le(s1.alpha, s2.alpha, tol)));
    let s1 = pre(c1, a1).screen(pre(c2, a2)); let s2 = pre(c2, a2).screen(pre(c1, a1));
    T::ensure("symmetric.screen", T::p_and(abs_le(s1.color.luma, s2.color.luma, tol), abs_le(s1.alpha, s2.alpha, tol)));
    let s1 = pre(c1, a1).darken(pre(c2, a2)); let s2 = pre(c2, a2).darken(pre(c1, a1));
    T::ensure("symmetric.darken", T::p_and(abs_le(s1.color.luma, s2.color.luma, tol), abs_le(s1.alpha, s2.alpha, tol)));
    let s1 = pre(c1, a1).lighten(pre(c2, a2)); let s2 = pre(c2, a2).lighten(pre(c1, a1));
    T::ensure("symmetric.lighten", T::p_and(abs_le(s1.color.luma, s2.color.luma, tol), abs_le(s1.alpha, s2.alpha, tol)));
    let s1 = pre(c1, a1).difference(pre(c2, a2)); let s2 = pre(c2, a2).difference(pre(c1, a1));
    T::ensure("symmetric.difference", T::p_and(abs_le(s1.color.luma, s2.color.luma, tol), abs_le(s1.alpha, s2.alpha, tol)));
    let s1 = pre(c1, a1).exclusion(pre(c2, a2)); let s2 = pre(c2, a2).exclusion(pre(c1, a1));
    T::ensure("symmetric.exclusion", T::p_and(abs_le(s1.color.luma, s2.color.luma, tol), abs_le(s1.alpha, s2.alpha, tol)));
    let s1 = pre(c1, a1).xor(pre(c2, a2)); let s2 = pre(c2, a2).xor(pre(c1, a1));
    T::ensure("symmetric.xor", T::p_and(abs_le(s1.color.luma, s2.color.luma, tol), abs_le(s1.alpha, s2.alpha, tol)));
    let s1 = pre(c1, a1).plus(pre(c2, a2)); let s2 = pre(c2, a2).plus(pre(c1, a1));
    T::ensure("symmetric.plus", T::p_and(abs_le(s1.color.luma, s2.color.luma, tol), abs_le(s1.alpha, s2.alpha, tol)));
});

program!(c08_premultiply_inverse, "C08", "quick", sv,
    "Premultiply::{premultiply, unpremultiply} for Rgb [macros/blend.rs], Alpha::premultiply, PreAlpha::unpremultiply [alpha/alpha.rs, blend/pre_alpha.rs]",
    "unpremultiply(premultiply(c, a)) == (c, a) whenever a != 0, and the zero colour (alpha kept) when a == 0; every component",
{
    let (r, g, b, a) = (T::var("r", 0.0, 1.0), T::var("g", 0.0, 1.0), T::var("b", 0.0, 1.0), T::var("a", 0.0, 1.0));
    let c: Alpha<LinSrgb<T>, T> = Alpha { color: LinSrgb::new(r, g, b), alpha: a };
    let p: PreAlpha<LinSrgb<T>> = c.premultiply();
    let back: Alpha<LinSrgb<T>, T> = p.unpremultiply();
    T::output("back.r", &back.color.red); T::output("back.g", &back.color.green); T::output("back.b", &back.color.blue);
    let tol = T::tol(1e-12, 1e-5);
    let nz = T::p_not(T::p_eq(&a, &T::k(0.0)));
    let z = T::p_eq(&a, &T::k(0.0));
    let imp = |p: <T as Logic>::P, q: <T as Logic>::P| T::p_or(T::p_not(p), q);
    T::ensure("nonzero_alpha.red", imp(nz.clone(), abs_le(back.color.red, r, tol)));
    T::ensure("nonzero_alpha.green", imp(nz.clone(), abs_le(back.color.green, g, tol)));
    T::ensure("nonzero_alpha.blue", imp(nz.clone(), abs_le(back.color.blue, b, tol)));
    T::ensure("zero_alpha.zero_color", imp(z, conj::<T>(&[T::p_eq(&back.color.red, &T::k(0.0)), T::p_eq(&back.color.green, &T::k(0.0)), T::p_eq(&back.color.blue, &T::k(0.0))])));
    T::identical("alpha_kept", &back.alpha, &a);
    T::ensure("premultiplied.red", abs_le(p.color.red, r * a, tol));
});

pub fn all() -> Vec<crate::Prog> {
    vec![c08_multiply::prog(), c08_screen::prog(), c08_overlay::prog(), c08_darken::prog(), c08_lighten::prog(), c08_dodge::prog(),
         c08_burn::prog(), c08_hard_light::prog(), c08_soft_light::prog(), c08_difference::prog(), c08_exclusion::prog(),
         c08_over::prog(), c08_inside::prog(), c08_outside::prog(), c08_atop::prog(), c08_xor::prog(), c08_plus::prog(),
         c08_identities::prog(), c08_premultiply_inverse::prog()]
}
