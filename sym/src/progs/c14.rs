//! C14 — white stays white, neutrals stay neutral, matrices invert, chromatic adaptation maps white to white.
use crate::logic::*;
use palette::chromatic_adaptation::AdaptFromUnclamped;
use palette::convert::FromColorUnclamped;
use palette::encoding::{AdobeRgb, DciP3, DisplayP3, Linear, ProPhotoRgb, Rec2020, Rec709, Srgb};
use palette::lms::matrix::{Bradford, UnitMatrix, VonKries};
use palette::white_point::{WhitePoint, A, D50, D65, E, F2};
use palette::{Hsv, Lab, Lch, Luv, Oklab, Xyz, Yxy};

macro_rules! white_of {
    ($name:ident, $std:ty, $wp:ty, $what:expr) => {
        program!($name, "C14", "quick", sv,
            concat!("FromColorUnclamped<Rgb<", $what, ">> for Xyz, ", $what, "::rgb_to_xyz_matrix, FromColorUnclamped<Xyz> for Lab/Luv/Lch/Yxy, FromColorUnclamped<Luma> for Yxy [xyz.rs, encoding/*.rs, lab.rs, luv.rs, yxy.rs]"),
            concat!($what, ": RGB (1,1,1) is the XYZ of the standard's white point (5e-7), which is L* = 100 with zero a*, b*, u*, v* and chroma; every gray g in [0,1] has the white point's chromaticity, zero a*, b*, u*, v*, zero saturation, and converts back to equal components; a gray Luma has the white point's chromaticity in xyY"),
        {
            type S = $std;
            type W = $wp;
            let one = T::k(1.0);
            let white: palette::rgb::Rgb<S, T> = palette::rgb::Rgb::new(one, one, one);
            let xyz: Xyz<W, T> = Xyz::from_color_unclamped(white);
            let wp = <W as WhitePoint<T>>::get_xyz();
            let t = T::tol(5e-7, 1e-5);
            T::ensure("white.x", abs_le(xyz.x, wp.x, t)); T::ensure("white.y", abs_le(xyz.y, wp.y, t)); T::ensure("white.z", abs_le(xyz.z, wp.z, t));
            let lab: Lab<W, T> = Lab::from_color_unclamped(xyz);
            let t4 = T::tol(1e-4, 1e-2);
            T::ensure("white.lab_l_is_100", abs_le(lab.l, T::k(100.0), t4));
            T::ensure("white.lab_ab_zero", T::p_and(abs_le(lab.a, T::k(0.0), t4), abs_le(lab.b, T::k(0.0), t4)));
            // exact white point (as XYZ) is exactly L* = 100, a = b = u = v = 0
            let w_exact: Xyz<W, T> = Xyz::new(wp.x, wp.y, wp.z);
            let lab_w: Lab<W, T> = Lab::from_color_unclamped(w_exact);
            let tiny = T::tol(1e-9, 1e-3);
            T::ensure("whitepoint.lab", conj::<T>(&[abs_le(lab_w.l, T::k(100.0), tiny), abs_le(lab_w.a, T::k(0.0), tiny), abs_le(lab_w.b, T::k(0.0), tiny)]));
            let lch_w: Lch<W, T> = Lch::from_color_unclamped(lab_w);
            T::ensure("whitepoint.lch_chroma_zero", abs_le(lch_w.chroma * lch_w.chroma, T::k(0.0), T::tol(1e-12, 1e-3)));
            // gray axis: linear gray g
            let g = T::var("g", 0.0, 1.0);
            let gray: palette::rgb::Rgb<Linear<<S as palette::rgb::RgbStandard>::Space>, T> = palette::rgb::Rgb::new(g, g, g);
            let gx: Xyz<W, T> = Xyz::from_color_unclamped(gray);
            T::ensure("gray.xyz_is_scaled_white", conj::<T>(&[abs_le(gx.x, g * wp.x, t), abs_le(gx.y, g * wp.y, t), abs_le(gx.z, g * wp.z, t)]));
            let back: palette::rgb::Rgb<Linear<<S as palette::rgb::RgbStandard>::Space>, T> = palette::rgb::Rgb::from_color_unclamped(gx);
            let t6 = T::tol(2e-6, 1e-4);
            T::ensure("gray.back_to_equal_components", conj::<T>(&[abs_le(back.red, g, t6), abs_le(back.green, g, t6), abs_le(back.blue, g, t6)]));
            let hsv: Hsv<Linear<<S as palette::rgb::RgbStandard>::Space>, T> = Hsv::from_color_unclamped(gray);
            T::ensure("gray.hsv_saturation_zero", T::p_eq(&hsv.saturation, &T::k(0.0)));
            // a gray on the exact white axis
            let ga: Xyz<W, T> = Xyz::new(g * wp.x, g * wp.y, g * wp.z);
            let glab: Lab<W, T> = Lab::from_color_unclamped(ga);
            T::ensure("gray.lab_ab_zero", T::p_and(abs_le(glab.a, T::k(0.0), tiny), abs_le(glab.b, T::k(0.0), tiny)));
            // xyY of a gray Luma is the white point's chromaticity
            let luma: palette::luma::Luma<Linear<W>, T> = palette::luma::Luma::new(g);
            let yxy: Yxy<W, T> = Yxy::from_color_unclamped(luma);
            let s = wp.x + wp.y + wp.z;
            T::ensure("gray.luma_to_yxy_has_white_chromaticity", conj::<T>(&[abs_le(yxy.x * s, wp.x, tiny), abs_le(yxy.y * s, wp.y, tiny), abs_le(yxy.luma, g, tiny)]));
            let lx: Xyz<W, T> = Xyz::from_color_unclamped(luma);
            T::ensure("gray.luma_to_xyz_is_scaled_white", conj::<T>(&[abs_le(lx.x, g * wp.x, tiny), abs_le(lx.y, g * wp.y, tiny), abs_le(lx.z, g * wp.z, tiny)]));
        });
    };
}
white_of!(c14_white_srgb, Srgb, D65, "Srgb");
white_of!(c14_white_adobe, AdobeRgb, D65, "AdobeRgb");
white_of!(c14_white_rec709, Rec709, D65, "Rec709");
white_of!(c14_white_rec2020, Rec2020, D65, "Rec2020");
white_of!(c14_white_display_p3, DisplayP3, D65, "DisplayP3");
white_of!(c14_white_prophoto, ProPhotoRgb, D50, "ProPhotoRgb");

macro_rules! luv_white {
    ($name:ident, $wp:ty, $what:expr) => {
        program!($name, "C14", "quick", s,
            "FromColorUnclamped<Xyz> for Luv [luv.rs], FromColorUnclamped<Luv> for Lchuv",
            concat!("white point ", $what, ": the white point and every gray on its axis have u* = v* = 0 (and L* = 100 for white) in L*u*v* of that white point"),
        {
            type W = $wp;
            let wp = <W as WhitePoint<T>>::get_xyz();
            let g = T::var("g", 0.001, 1.0);
            let tiny = T::tol(1e-9, 1e-3);
            let luv_w: Luv<W, T> = Luv::from_color_unclamped(Xyz::<W, T>::new(wp.x, wp.y, wp.z));
            T::ensure("whitepoint.luv", conj::<T>(&[abs_le(luv_w.l, T::k(100.0), tiny), abs_le(luv_w.u, T::k(0.0), tiny), abs_le(luv_w.v, T::k(0.0), tiny)]));
            let luv_g: Luv<W, T> = Luv::from_color_unclamped(Xyz::<W, T>::new(g * wp.x, g * wp.y, g * wp.z));
            T::ensure("gray.luv_uv_zero", T::p_and(abs_le(luv_g.u, T::k(0.0), tiny), abs_le(luv_g.v, T::k(0.0), tiny)));
        });
    };
}
luv_white!(c14_luv_white_d65, D65, "D65");
luv_white!(c14_luv_white_d50, D50, "D50");
luv_white!(c14_luv_white_a, A, "A");

program!(c14_oklab_white, "C14", "quick", sv,
    "FromColorUnclamped<Xyz<D65>> for Oklab, FromColorUnclamped<Rgb> for Oklab [oklab.rs]",
    "D65 white is Oklab (1, 0, 0) and every sRGB gray has (numerically) zero a, b (1e-4: published 10-digit matrices)",
{
    let g = T::var("g", 0.0, 1.0);
    let gray: palette::LinSrgb<T> = palette::LinSrgb::new(g, g, g);
    let ok: Oklab<T> = Oklab::from_color_unclamped(gray);
    let t4 = T::tol(1e-4, 1e-3);
    T::ensure("gray.oklab_ab_zero", T::p_and(abs_le(ok.a, T::k(0.0), t4), abs_le(ok.b, T::k(0.0), t4)));
    let w: Oklab<T> = Oklab::from_color_unclamped(palette::LinSrgb::<T>::new(T::k(1.0), T::k(1.0), T::k(1.0)));
    T::ensure("white.oklab_is_1_0_0", conj::<T>(&[abs_le(w.l, T::k(1.0), t4), abs_le(w.a, T::k(0.0), t4), abs_le(w.b, T::k(0.0), t4)]));
    let wx: Oklab<T> = Oklab::from_color_unclamped(Xyz::<D65, T>::new(T::k(0.95047), T::k(1.0), T::k(1.08883)));
    T::ensure("whitepoint.oklab_is_1_0_0", conj::<T>(&[abs_le(wx.l, T::k(1.0), t4), abs_le(wx.a, T::k(0.0), t4), abs_le(wx.b, T::k(0.0), t4)]));
});

macro_rules! adapt {
    ($name:ident, $from:ty, $to:ty, $m:ty, $what:expr) => {
        program!($name, "C14", "quick", sv,
            "AdaptFromUnclamped<Xyz<Wp1>> for Xyz<Wp2>, chromatic_adaptation::{adaptation_matrix, diagonal_matrix}, Matrix3::{then, convert_once}, lms::matrix [chromatic_adaptation.rs, xyz.rs, convert/matrix3.rs, lms/matrix.rs]",
            concat!($what, ": the source white point maps onto the destination white point (1e-6), adapting there and back is the identity for all XYZ in the box (1e-6), adaptation between equal white points is the identity (same terms)"),
        {
            type F = $from; type O = $to; type M = $m;
            let wf = <F as WhitePoint<T>>::get_xyz();
            let wo = <O as WhitePoint<T>>::get_xyz();
            let t6 = T::tol(1e-6, 1e-4);
            let w_in: Xyz<F, T> = Xyz::new(wf.x, wf.y, wf.z);
            let w_out: Xyz<O, T> = Xyz::adapt_from_unclamped_with::<M>(w_in);
            T::ensure("white_to_white", conj::<T>(&[abs_le(w_out.x, wo.x, t6), abs_le(w_out.y, wo.y, t6), abs_le(w_out.z, wo.z, t6)]));
            let (x, y, z) = (T::var("x", 0.0, 1.1), T::var("y", 0.0, 1.0), T::var("z", 0.0, 1.2));
            let c: Xyz<F, T> = Xyz::new(x, y, z);
            let there: Xyz<O, T> = Xyz::adapt_from_unclamped_with::<M>(c);
            let back: Xyz<F, T> = Xyz::adapt_from_unclamped_with::<M>(there);
            T::ensure("there_and_back", conj::<T>(&[abs_le(back.x, x, t6), abs_le(back.y, y, t6), abs_le(back.z, z, t6)]));
            let same: Xyz<F, T> = Xyz::adapt_from_unclamped_with::<M>(c);
            T::identical("equal_white_points_identity.x", &same.x, &x);
            T::identical("equal_white_points_identity.y", &same.y, &y);
            T::identical("equal_white_points_identity.z", &same.z, &z);
        });
    };
}
adapt!(c14_adapt_d65_d50_bradford, D65, D50, Bradford, "D65 -> D50, Bradford");
adapt!(c14_adapt_d65_d50_vonkries, D65, D50, VonKries, "D65 -> D50, von Kries");
adapt!(c14_adapt_d65_d50_scaling, D65, D50, UnitMatrix, "D65 -> D50, XYZ scaling");
adapt!(c14_adapt_a_d65_bradford, A, D65, Bradford, "A -> D65, Bradford");
adapt!(c14_adapt_d50_e_vonkries, D50, E, VonKries, "D50 -> E, von Kries");
adapt!(c14_adapt_f2_a_scaling, F2, A, UnitMatrix, "F2 -> A, XYZ scaling");
adapt!(c14_adapt_e_f2_bradford, E, F2, Bradford, "E -> F2, Bradford");

macro_rules! adapt_explicit {
    ($name:ident, $m:ty, $what:expr) => {
        program!($name, "C14", "quick", sv,
            "chromatic_adaptation::adaptation_matrix(Some(input_wp), Some(output_wp)) -> Xyz::normalize, diagonal_matrix, Matrix3::{then, convert} [chromatic_adaptation.rs, xyz.rs, matrix.rs]",
            concat!($what, ", explicit (dynamic) white points that are NOT at unit luminance (Y = 0.5, 0.75, 0.4): adaptation between equal white points is the identity for all XYZ in the box (1e-6), the source white lands on the destination white's chromaticity at the source's luminance, adapting there and back is the identity (1e-6)"),
        {
            use palette::chromatic_adaptation::adaptation_matrix;
            use palette::convert::Convert;
            type M = $m;
            let t6 = T::tol(1e-6, 1e-4);
            let (x, y, z) = (T::var("x", 0.0, 1.1), T::var("y", 0.0, 1.0), T::var("z", 0.0, 1.2));
            let c: Xyz<D65, T> = Xyz::new(x, y, z);
            let wa: Xyz<D65, T> = Xyz::new(T::k(0.45), T::k(0.5), T::k(0.6));
            let wb: Xyz<D50, T> = Xyz::new(T::k(0.7), T::k(0.75), T::k(0.5));
            let wc: Xyz<D65, T> = Xyz::new(T::k(0.38), T::k(0.4), T::k(0.35));
            let same = adaptation_matrix::<T, D65, D65, M>(Some(wc), Some(wc));
            let r: Xyz<D65, T> = same.convert(c);
            T::ensure("equal_explicit_white_points_identity", conj::<T>(&[abs_le(r.x, x, t6), abs_le(r.y, y, t6), abs_le(r.z, z, t6)]));
            let there = adaptation_matrix::<T, D65, D50, M>(Some(wa), Some(wb));
            let back = adaptation_matrix::<T, D50, D65, M>(Some(wb), Some(wa));
            let adapted: Xyz<D50, T> = there.convert(c);
            let restored: Xyz<D65, T> = back.convert(adapted);
            T::ensure("there_and_back_explicit_white_points", conj::<T>(&[abs_le(restored.x, x, t6), abs_le(restored.y, y, t6), abs_le(restored.z, z, t6)]));
            // the source white (Y = 0.5) maps onto the destination white's chromaticity, luminance preserved: wb * (0.5 / 0.75)
            let w: Xyz<D50, T> = there.convert(wa);
            let sc = T::k(0.5) / T::k(0.75);
            T::ensure("white_to_white_chromaticity", conj::<T>(&[abs_le(w.x, T::k(0.7) * sc, t6), abs_le(w.y, T::k(0.5), t6), abs_le(w.z, T::k(0.5) * sc, t6)]));
        });
    };
}
adapt_explicit!(c14_adapt_explicit_bradford, Bradford, "Bradford");
adapt_explicit!(c14_adapt_explicit_vonkries, VonKries, "von Kries");
adapt_explicit!(c14_adapt_explicit_scaling, UnitMatrix, "XYZ scaling");

pub fn all() -> Vec<crate::Prog> {
    vec![c14_white_srgb::prog(), c14_white_adobe::prog(), c14_white_rec709::prog(), c14_white_rec2020::prog(), c14_white_display_p3::prog(),
         c14_white_prophoto::prog(), c14_luv_white_d65::prog(), c14_luv_white_d50::prog(), c14_luv_white_a::prog(), c14_oklab_white::prog(),
         c14_adapt_d65_d50_bradford::prog(), c14_adapt_d65_d50_vonkries::prog(), c14_adapt_d65_d50_scaling::prog(), c14_adapt_a_d65_bradford::prog(),
         c14_adapt_d50_e_vonkries::prog(), c14_adapt_f2_a_scaling::prog(), c14_adapt_e_f2_bradford::prog(),
         c14_adapt_explicit_bradford::prog(), c14_adapt_explicit_vonkries::prog(), c14_adapt_explicit_scaling::prog()]
}
