//! C07 — finite valid colours never produce NaN, infinity or a panic: definedness obligations.
//! These programs only declare OUTPUTS of the real code over boundary-INCLUSIVE domains (black, white, the
//! gray axis, zero chroma/saturation, zero alpha, v = 0, blackness = 1, y = 0, l = 0 are all inside the box);
//! the obligations (no zero divisor, sqrt/ln/pow/asin/acos inside their domain, on every path) are generated
//! automatically from the terms. The same obligations are generated for the outputs of the C01/C02/C08/C09/
//! C10/C15/C16 programs, which the C07 check also runs.
use crate::logic::*;
use palette::cam16::{Cam16, Cam16Jch, Cam16Qch, Cam16Jmh, Parameters, StaticWp};
use palette::convert::FromColorUnclamped;
use palette::encoding::Srgb;
use palette::white_point::D65;
use palette::{Hsl, Hsv, Hwb, Lab, Lch, Lchuv, LinSrgb, Luv, Okhsv, Okhwb, Oklab, Oklch, Xyz, Yxy};

macro_rules! outs { ($($n:literal : $e:expr),* $(,)?) => { $( T::output($n, &$e); )* }; }

program!(c07_from_xyz, "C07", "quick", s,
    "FromColorUnclamped<Xyz> for Lab, Luv, Yxy, Oklab, Rgb; <Lab> for Lch; <Luv> for Lchuv [lab.rs, luv.rs, yxy.rs, oklab.rs, rgb/rgb.rs, lch.rs, lchuv.rs]",
    "for every XYZ in the closed white-point box (black, Y = 0 with X > 0, the axes included): every conversion output is defined on every path",
{
    let (x, y, z) = (T::var("x", 0.0, 0.95047), T::var("y", 0.0, 1.0), T::var("z", 0.0, 1.08883));
    let c: Xyz<D65, T> = Xyz::new(x, y, z);
    let lab: Lab<D65, T> = Lab::from_color_unclamped(c);
    let lch: Lch<D65, T> = Lch::from_color_unclamped(lab);
    let luv: Luv<D65, T> = Luv::from_color_unclamped(c);
    let lchuv: Lchuv<D65, T> = Lchuv::from_color_unclamped(luv);
    let yxy: Yxy<D65, T> = Yxy::from_color_unclamped(c);
    let ok: Oklab<T> = Oklab::from_color_unclamped(c);
    let okc: Oklch<T> = Oklch::from_color_unclamped(ok);
    let rgb: LinSrgb<T> = LinSrgb::from_color_unclamped(c);
    outs!("lab.l": lab.l, "lab.a": lab.a, "lab.b": lab.b, "lch.chroma": lch.chroma, "lch.hue": lch.hue.into_raw_degrees(),
          "luv.l": luv.l, "luv.u": luv.u, "luv.v": luv.v, "lchuv.chroma": lchuv.chroma, "lchuv.hue": lchuv.hue.into_raw_degrees(),
          "yxy.x": yxy.x, "yxy.y": yxy.y, "oklab.l": ok.l, "oklab.a": ok.a, "oklab.b": ok.b, "oklch.chroma": okc.chroma,
          "rgb.r": rgb.red, "rgb.g": rgb.green, "rgb.b": rgb.blue);
});

program!(c07_from_rgb, "C07", "quick", s,
    "FromColorUnclamped<Rgb> for Hsv, Hsl, Hwb, Xyz, Oklab; Rgb::into_linear / from_linear [hsv.rs, hsl.rs, hwb.rs, xyz.rs, oklab.rs, encoding/srgb.rs]",
    "for every RGB in the closed unit cube (black, white, grays, pure primaries included): every conversion output is defined on every path",
{
    let (r, g, b) = (T::var("r", 0.0, 1.0), T::var("g", 0.0, 1.0), T::var("b", 0.0, 1.0));
    let c: palette::rgb::Rgb<Srgb, T> = palette::rgb::Rgb::new(r, g, b);
    let hsv: Hsv<Srgb, T> = Hsv::from_color_unclamped(c);
    let hsl: Hsl<Srgb, T> = Hsl::from_color_unclamped(c);
    let hwb: Hwb<Srgb, T> = Hwb::from_color_unclamped(c);
    let lin = c.into_linear();
    let enc: palette::rgb::Rgb<Srgb, T> = palette::rgb::Rgb::from_linear(LinSrgb::new(r, g, b));
    let ok: Oklab<T> = Oklab::from_color_unclamped(LinSrgb::<T>::new(r, g, b));
    outs!("hsv.h": hsv.hue.into_raw_degrees(), "hsv.s": hsv.saturation, "hsv.v": hsv.value,
          "hsl.h": hsl.hue.into_raw_degrees(), "hsl.s": hsl.saturation, "hsl.l": hsl.lightness,
          "hwb.w": hwb.whiteness, "hwb.b": hwb.blackness, "lin.r": lin.red, "enc.r": enc.red, "oklab.l": ok.l, "oklab.a": ok.a);
});

program!(c07_hexcone_family, "C07", "quick", s,
    "FromColorUnclamped<Hsv|Hsl> for Rgb, <Hwb> for Hsv, <Hsv> for Hsl/Hwb, <Hsl> for Hsv [rgb/rgb.rs, hsv.rs, hsl.rs, hwb.rs]",
    "for every in-bounds HSV/HSL/HWB colour incl. the degenerate bounds (v = 0, l = 0 or 1, s = 0, blackness = 1): every conversion output is defined on every path",
{
    let (h, s, v) = (T::var("h", -360.0, 720.0), T::var("s", 0.0, 1.0), T::var("v", 0.0, 1.0));
    let hsv: Hsv<Srgb, T> = Hsv::new(h, s, v);
    let rgb1: palette::rgb::Rgb<Srgb, T> = palette::rgb::Rgb::from_color_unclamped(hsv);
    let hsl: Hsl<Srgb, T> = Hsl::from_color_unclamped(hsv);
    let hwb: Hwb<Srgb, T> = Hwb::from_color_unclamped(hsv);
    outs!("hsv_rgb.r": rgb1.red, "hsv_rgb.g": rgb1.green, "hsv_rgb.b": rgb1.blue, "hsv_hsl.s": hsl.saturation, "hsv_hsl.l": hsl.lightness,
          "hsv_hwb.w": hwb.whiteness, "hsv_hwb.b": hwb.blackness);
});

program!(c07_hsl_hwb_sources, "C07", "quick", s,
    "FromColorUnclamped<Hsl> for Rgb, <Hsl> for Hsv, <Hwb> for Hsv [rgb/rgb.rs, hsv.rs]",
    "for every in-bounds HSL and HWB colour incl. l = 0, l = 1, blackness = 1, w + b = 1: every conversion output is defined on every path",
{
    let (h, s, l) = (T::var("h", -360.0, 720.0), T::var("s", 0.0, 1.0), T::var("l", 0.0, 1.0));
    let hsl_in: Hsl<Srgb, T> = Hsl::new(h, s, l);
    let rgb2: palette::rgb::Rgb<Srgb, T> = palette::rgb::Rgb::from_color_unclamped(hsl_in);
    let hsv2: Hsv<Srgb, T> = Hsv::from_color_unclamped(hsl_in);
    let (w, bl) = (T::var("w", 0.0, 1.0), T::var("bl", 0.0, 1.0));
    T::assume(T::p_le(&(w + bl), &T::k(1.0)));
    let hsv3: Hsv<Srgb, T> = Hsv::from_color_unclamped(Hwb::<Srgb, T>::new(h, w, bl));
    outs!("hsl_rgb.r": rgb2.red, "hsl_rgb.g": rgb2.green, "hsl_rgb.b": rgb2.blue, "hsl_hsv.s": hsv2.saturation, "hsl_hsv.v": hsv2.value,
          "hwb_hsv.s": hsv3.saturation, "hwb_hsv.v": hsv3.value);
});

program!(c07_yxy_lab_polar_sources, "C07", "quick", s,
    "FromColorUnclamped<Yxy> for Xyz, <Lab> for Xyz, <Lch> for Lab, <Oklch> for Oklab, <Lchuv> for Luv [xyz.rs, lab.rs, oklab.rs, luv.rs]",
    "for every in-range xyY (y = 0 included), L*a*b* (L* = 0 included) and polar colour (zero chroma included): every conversion output is defined on every path",
{
    let (cx, cy, cl) = (T::var("cx", 0.0, 1.0), T::var("cy", 0.0, 1.0), T::var("cl", 0.0, 1.0));
    let xyz1: Xyz<D65, T> = Xyz::from_color_unclamped(Yxy::<D65, T>::new(cx, cy, cl));
    let (l, a, b) = (T::var("l", 0.0, 100.0), T::var("a", -128.0, 127.0), T::var("b", -128.0, 127.0));
    let xyz3: Xyz<D65, T> = Xyz::from_color_unclamped(Lab::<D65, T>::new(l, a, b));
    let h = T::var("h", -360.0, 720.0);
    let lab: Lab<D65, T> = Lab::from_color_unclamped(Lch::<D65, T>::new(l, T::var("chroma", 0.0, 128.0), h));
    let ok: Oklab<T> = Oklab::from_color_unclamped(Oklch::<T>::new(cl, cx, h));
    let luv: Luv<D65, T> = Luv::from_color_unclamped(Lchuv::<D65, T>::new(l, T::var("chromauv", 0.0, 180.0), h));
    outs!("yxy_xyz.x": xyz1.x, "yxy_xyz.y": xyz1.y, "yxy_xyz.z": xyz1.z, "lab_xyz.x": xyz3.x, "lab_xyz.y": xyz3.y, "lab_xyz.z": xyz3.z,
          "lch_lab.a": lab.a, "lch_lab.b": lab.b, "oklch_oklab.a": ok.a, "oklch_oklab.b": ok.b, "lchuv_luv.u": luv.u, "lchuv_luv.v": luv.v);
});

program!(c07_luv_to_xyz, "C07", "quick", s,
    "FromColorUnclamped<Luv> for Xyz [xyz.rs]",
    "for every L*u*v* in the nominal box (L* = 0 included) OFF the line v' = 0: X, Y, Z are defined on every path. (On the line v' = v*/(13 L*) + v'_n = 0 the conversion divides by zero: known finding, see c07_luv_to_xyz_on_vprime_zero_line.)",
{
    let (l, u, v) = (T::var("l", 0.0, 100.0), T::var("u", -84.0, 176.0), T::var("v", -135.0, 108.0));
    // v'_n of D65 from the published white point; v' = v/(13 l) + v'_n  (spec side, exact)
    let vn = T::k(9.0 * 1.0 / (0.95047 + 15.0 * 1.0 + 3.0 * 1.08883));
    T::assume(T::p_not(T::p_eq(&(v + T::k(13.0) * l * vn), &T::k(0.0))));
    let xyz: Xyz<D65, T> = Xyz::from_color_unclamped(Luv::<D65, T>::new(l, u, v));
    outs!("x": xyz.x, "y": xyz.y, "z": xyz.z);
});

program!(c07_luv_to_xyz_on_vprime_zero_line, "C07", "quick", s,
    "FromColorUnclamped<Luv> for Xyz [xyz.rs]",
    "KNOWN FINDING region: L*u*v* colours in the nominal box with L* >= 1e-5 exactly on the line v' = v*/(13 L*) + v'_n = 0, e.g. Luv(9, -4, -54.795347443091934): X and Z are x/0",
{
    let (l, u, v) = (T::var("l", 0.00001, 100.0), T::var("u", -84.0, 176.0), T::var("v", -135.0, 108.0));
    let vn = T::k(9.0 * 1.0 / (0.95047 + 15.0 * 1.0 + 3.0 * 1.08883));
    T::assume(T::p_eq(&(v + T::k(13.0) * l * vn), &T::k(0.0)));
    let xyz: Xyz<D65, T> = Xyz::from_color_unclamped(Luv::<D65, T>::new(l, u, v));
    outs!("x": xyz.x, "z": xyz.z);
});

program!(c07_okhwb_okhsv, "C07", "quick", sv,
    "FromColorUnclamped<Okhwb> for Okhsv, <Okhsv> for Okhwb [okhsv.rs, okhwb.rs]",
    "for every in-bounds Okhwb (blackness = 1 included) and Okhsv (value = 0 included): the outputs are defined on every path",
{
    let (h, w, b) = (T::var("h", 0.0, 360.0), T::var("w", 0.0, 1.0), T::var("b", 0.0, 1.0));
    T::assume(T::p_le(&(w + b), &T::k(1.0)));
    let k: Okhsv<T> = Okhsv::from_color_unclamped(Okhwb::<T>::new(h, w, b));
    let (s, v) = (T::var("s", 0.0, 1.0), T::var("v", 0.0, 1.0));
    let hw: Okhwb<T> = Okhwb::from_color_unclamped(Okhsv::<T>::new(h, s, v));
    outs!("okhsv.s": k.saturation, "okhsv.v": k.value, "okhwb.w": hw.whiteness, "okhwb.b": hw.blackness);
});

program!(c07_cam16_partial, "C07", "quick", v,
    "Cam16{Jch,Qch,Jmh}::into_full -> cam16::math::{chromaticity, luminance}::into_cam16 [cam16/math/chromaticity.rs, cam16/math/luminance.rs, cam16/partial.rs]",
    "for every partial CAM16 colour with non-negative attributes (lightness or brightness exactly 0 with non-zero chroma included): expanding to the full set of attributes is defined on every path (black is special-cased, no division by the zero lightness root)",
{
    let (j, c, h) = (T::var("j", 0.0, 100.0), T::var("c", 0.0, 100.0), T::var("h", 0.0, 360.0));
    let mut p: Parameters<StaticWp<D65>, <T as palette::num::FromScalar>::Scalar> =
        Parameters::default_static_wp(<<T as palette::num::FromScalar>::Scalar as palette::num::Real>::from_f64(40.0));
    p.surround = palette::cam16::Surround::Average;
    let baked = p.bake();
    let f1: Cam16<T> = Cam16Jch::new(j, c, h).into_full(baked);
    let f2: Cam16<T> = Cam16Qch::new(j, c, h).into_full(baked);
    let f3: Cam16<T> = Cam16Jmh::new(j, c, h).into_full(baked);
    outs!("jch.saturation": f1.saturation, "jch.colorfulness": f1.colorfulness, "jch.brightness": f1.brightness,
          "qch.saturation": f2.saturation, "qch.lightness": f2.lightness, "jmh.chroma": f3.chroma, "jmh.saturation": f3.saturation);
});

pub fn all() -> Vec<crate::Prog> {
    vec![c07_from_xyz::prog(), c07_from_rgb::prog(), c07_hexcone_family::prog(), c07_hsl_hwb_sources::prog(), c07_yxy_lab_polar_sources::prog(), c07_luv_to_xyz::prog(), c07_luv_to_xyz_on_vprime_zero_line::prog(), c07_okhwb_okhsv::prog(), c07_cam16_partial::prog()]
}
