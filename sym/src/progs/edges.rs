//! C01 / C02 — hand-written conversion edges that are not covered by c01.rs / c02.rs: luma edges, conversions between
//! RGB standards (TypeId shortcuts), HSL/HSV inverse hexcone for un-normalised hues, the direct HSL <-> HSV edge,
//! polar forms, Okhsv <-> Okhwb, Oklab -> RGB, LMS.
use crate::logic::*;
use crate::specs;
use palette::convert::FromColorUnclamped;
use palette::encoding::{AdobeRgb, DisplayP3, Linear, Rec2020, Rec709, Srgb};
use palette::luma::Luma;
use palette::rgb::Rgb;
use palette::white_point::D65;
use palette::{Hsl, Hsv, Hwb, Lab, Lch, Lchuv, LinSrgb, Luv, Okhsv, Okhwb, Oklab, Oklch, Xyz, Yxy};

macro_rules! luma_edges {
    ($name:ident, $std:ty, $what:expr, $enc:path, $dec:path) => {
        program!($name, "C01,C02", "quick", sv,
            concat!("FromColorUnclamped<Luma<", $what, ">> for Xyz [xyz.rs], for Yxy [yxy.rs], for Rgb [rgb/rgb.rs]; FromColorUnclamped<Xyz> / <Yxy> for Luma [luma/luma.rs]"),
            concat!("luma edges of ", $what, ": Luma -> Xyz is the white point scaled by the DECODED luma (published curve); Xyz -> Luma and Yxy -> Luma encode Y; Luma -> Yxy carries the white point's chromaticity; Luma -> Rgb of the same standard replicates the component; Luma -> Xyz -> Luma and Luma -> Rgb -> Luma are the identity; Luma -> Xyz == Luma -> Yxy -> Xyz"),
        {
            let l = T::var("l", 0.0, 1.0);
            let tol = T::tol(1e-9, 1e-5);
            let c: Luma<$std, T> = Luma::new(l);
            let xyz: Xyz<D65, T> = Xyz::from_color_unclamped(c);
            let y = $dec(l);
            T::ensure("luma_to_xyz.x", abs_le(xyz.x, T::k(specs::W_D65.0) * y, tol));
            T::ensure("luma_to_xyz.y", abs_le(xyz.y, y, tol));
            T::ensure("luma_to_xyz.z", abs_le(xyz.z, T::k(specs::W_D65.2) * y, tol));
            let yxy: Yxy<D65, T> = Yxy::from_color_unclamped(c);
            let s = specs::W_D65.0 + specs::W_D65.1 + specs::W_D65.2;
            T::ensure("luma_to_yxy.luma", abs_le(yxy.luma, y, tol));
            T::ensure("luma_to_yxy.white_point_chromaticity", T::p_and(abs_le(yxy.x, T::k(specs::W_D65.0 / s), T::tol(1e-6, 1e-5)), abs_le(yxy.y, T::k(specs::W_D65.1 / s), T::tol(1e-6, 1e-5))));
            let v = T::var("v", 0.0, 1.0);
            let from_xyz: Luma<$std, T> = Luma::from_color_unclamped(Xyz::<D65, T>::new(T::var("xx", 0.0, 0.95047), v, T::var("zz", 0.0, 1.08883)));
            T::ensure("xyz_to_luma", abs_le(from_xyz.luma, $enc(v), tol));
            let from_yxy: Luma<$std, T> = Luma::from_color_unclamped(Yxy::<D65, T>::new(T::var("cx", 0.0, 0.8), T::var("cy", 0.0, 0.9), v));
            T::ensure("yxy_to_luma", abs_le(from_yxy.luma, $enc(v), tol));
            let rgb: Rgb<$std, T> = Rgb::from_color_unclamped(c);
            T::identical("luma_to_rgb.red", &rgb.red, &l); T::identical("luma_to_rgb.green", &rgb.green, &l); T::identical("luma_to_rgb.blue", &rgb.blue, &l);
            let lin: Rgb<Linear<<$std as palette::rgb::RgbStandard>::Space>, T> = Rgb::from_color_unclamped(c);
            T::ensure("luma_to_linear_rgb", conj::<T>(&[abs_le(lin.red, y, tol), abs_le(lin.green, y, tol), abs_le(lin.blue, y, tol)]));
        });
    };
}
luma_edges!(edge_luma_srgb, Srgb, "Srgb", specs::srgb_encode::<T>, specs::srgb_decode::<T>);
luma_edges!(edge_luma_rec709, Rec709, "Rec709", specs::rec_encode::<T>, specs::rec_decode::<T>);
luma_edges!(edge_luma_adobe, AdobeRgb, "AdobeRgb", specs::adobe_encode::<T>, specs::adobe_decode::<T>);

program!(edge_luma_round_trips, "C01", "quick", sv,
    "FromColorUnclamped<Luma> for Xyz / Yxy / Rgb, FromColorUnclamped<Xyz|Yxy> for Luma, derive(FromColorUnclamped) Rgb -> Luma, FromColorUnclamped<Luma<S2>> for Luma<S1> [luma/luma.rs]",
    "E-rt for the single-channel type: Luma -> Xyz -> Luma, Luma -> Yxy -> Luma and LinLuma -> LinRgb -> LinLuma are the identity (outside the sRGB knee band); Luma -> Xyz == Luma -> Yxy -> Xyz; Luma<Srgb> -> Luma<Linear> -> Luma<Srgb> is the identity",
{
    let l = T::var("l", 0.0, 1.0);
    T::assume(T::p_or(T::p_le(&l, &T::k(0.0403)), T::p_le(&T::k(0.0406), &l)));
    let tol = T::tol(1e-9, 1e-5);
    let c: Luma<Srgb, T> = Luma::new(l);
    let xyz: Xyz<D65, T> = Xyz::from_color_unclamped(c);
    let b1: Luma<Srgb, T> = Luma::from_color_unclamped(xyz);
    T::ensure("luma_xyz_luma", abs_le(b1.luma, l, tol));
    let yxy: Yxy<D65, T> = Yxy::from_color_unclamped(c);
    let b2: Luma<Srgb, T> = Luma::from_color_unclamped(yxy);
    T::ensure("luma_yxy_luma", abs_le(b2.luma, l, tol));
    let via: Xyz<D65, T> = Xyz::from_color_unclamped(yxy);
    T::ensure("luma_xyz_eq_luma_yxy_xyz", conj::<T>(&[abs_le(via.x, xyz.x, T::tol(1e-6, 1e-5)), abs_le(via.y, xyz.y, tol), abs_le(via.z, xyz.z, T::tol(1e-6, 1e-5))]));
    let ll: Luma<Linear<D65>, T> = Luma::new(l);
    let lr: LinSrgb<T> = LinSrgb::from_color_unclamped(ll);
    let b3: Luma<Linear<D65>, T> = Luma::from_color_unclamped(lr);
    T::ensure("linluma_linrgb_linluma", abs_le(b3.luma, l, T::tol(1e-6, 1e-5)));
    let lin: Luma<Linear<D65>, T> = Luma::from_color_unclamped(c);
    let b4: Luma<Srgb, T> = Luma::from_color_unclamped(lin);
    T::ensure("luma_srgb_linear_srgb", abs_le(b4.luma, l, tol));
    T::ensure("luma_srgb_to_linear_is_decode", abs_le(lin.luma, specs::srgb_decode::<T>(l), tol));
});

macro_rules! cross_rgb {
    ($name:ident, $s1:ty, $s2:ty, $what:expr) => {
        program!($name, "C01,C02", "quick", v,
            "FromColorUnclamped<Rgb<S2>> for Rgb<S1> (TypeId shortcuts on standard / primaries) [rgb/rgb.rs]",
            concat!("E-comp between RGB standards with DIFFERENT primaries, ", $what, ": the direct conversion == decode, Rgb -> Xyz with the source matrix, Xyz -> Rgb with the destination matrix, encode (the same terms, or equal within 1e-9)"),
        {
            let (r, g, b) = (T::var("r", 0.0, 1.0), T::var("g", 0.0, 1.0), T::var("b", 0.0, 1.0));
            let src: Rgb<$s1, T> = Rgb::new(r, g, b);
            let direct: Rgb<$s2, T> = Rgb::from_color_unclamped(src);
            let via: Rgb<$s2, T> = Rgb::from_color_unclamped(Xyz::<D65, T>::from_color_unclamped(src));
            let tol = T::tol(1e-9, 1e-5);
            T::ensure("direct_eq_via_xyz.red", same_or_close(direct.red, via.red, tol));
            T::ensure("direct_eq_via_xyz.green", same_or_close(direct.green, via.green, tol));
            T::ensure("direct_eq_via_xyz.blue", same_or_close(direct.blue, via.blue, tol));
            // and it is NOT the transfer-function-only shortcut: pure source red has destination green/blue that differ from encode(decode(0))
        });
    };
}
cross_rgb!(edge_rgb_srgb_adobe, Srgb, AdobeRgb, "Srgb -> AdobeRgb");
cross_rgb!(edge_rgb_adobe_srgb, AdobeRgb, Srgb, "AdobeRgb -> Srgb");
cross_rgb!(edge_rgb_srgb_rec2020, Srgb, Rec2020, "Srgb -> Rec2020");
cross_rgb!(edge_rgb_rec2020_p3, Rec2020, DisplayP3, "Rec2020 -> DisplayP3");
cross_rgb!(edge_rgb_lin_srgb_lin_rec2020, Linear<Srgb>, Linear<Rec2020>, "Linear<Srgb> -> Linear<Rec2020>");
cross_rgb!(edge_rgb_p3_srgb, DisplayP3, Srgb, "DisplayP3 -> Srgb");

macro_rules! same_primaries_rgb {
    ($name:ident, $s1:ty, $s2:ty, $what:expr, $dec:path, $enc:path) => {
        program!($name, "C01,C02", "quick", sv,
            "FromColorUnclamped<Rgb<S2>> for Rgb<S1> (same primaries: transfer function only) [rgb/rgb.rs]",
            concat!("between RGB standards that share their primaries, ", $what, ": every component == encode_dst(decode_src(component)) with the published curves"),
        {
            let (r, g, b) = (T::var("r", 0.0, 1.0), T::var("g", 0.0, 1.0), T::var("b", 0.0, 1.0));
            let direct: Rgb<$s2, T> = Rgb::from_color_unclamped(Rgb::<$s1, T>::new(r, g, b));
            let tol = T::tol(1e-9, 1e-5);
            T::ensure("transfer_only.red", abs_le(direct.red, $enc($dec(r)), tol));
            T::ensure("transfer_only.green", abs_le(direct.green, $enc($dec(g)), tol));
            T::ensure("transfer_only.blue", abs_le(direct.blue, $enc($dec(b)), tol));
        });
    };
}
fn idf<T: Num>(x: T) -> T { x }
same_primaries_rgb!(edge_rgb_srgb_linear, Srgb, Linear<Srgb>, "Srgb -> Linear<Srgb>", specs::srgb_decode::<T>, idf::<T>);
same_primaries_rgb!(edge_rgb_linear_srgb, Linear<Srgb>, Srgb, "Linear<Srgb> -> Srgb", idf::<T>, specs::srgb_encode::<T>);
same_primaries_rgb!(edge_rgb_linear_rec709, Linear<Srgb>, Rec709, "Linear<Srgb> -> Rec709", idf::<T>, specs::rec_encode::<T>);
same_primaries_rgb!(edge_rgb_rec709_linear, Rec709, Linear<Srgb>, "Rec709 -> Linear<Srgb>", specs::rec_decode::<T>, idf::<T>);

macro_rules! cross_cyl {
    ($name:ident, $s1:ty, $s2:ty, $what:expr) => {
        program!($name, "C01,C02", "quick", v,
            "FromColorUnclamped<Hsv<S1>> for Hsv<S2>, <Hsl<S1>> for Hsl<S2>, <Hwb<S1>> for Hwb<S2> (TypeId shortcut on the standard) [hsv.rs, hsl.rs, hwb.rs]",
            concat!("E-comp for the cylindrical types between RGB standards, ", $what, ": the direct conversion == cylinder -> Rgb<S1> -> Rgb<S2> -> cylinder (the same terms, or equal within 1e-9; hues modulo 360)"),
        {
            let (h, s, v) = (T::var("h", 0.0, 360.0), T::var("s", 0.0, 1.0), T::var("v", 0.0, 1.0));
            let tol = T::tol(1e-9, 1e-5);
            let a: Hsv<$s1, T> = Hsv::new(h, s, v);
            let d: Hsv<$s2, T> = Hsv::from_color_unclamped(a);
            let via: Hsv<$s2, T> = Hsv::from_color_unclamped(Rgb::<$s2, T>::from_color_unclamped(Rgb::<$s1, T>::from_color_unclamped(a)));
            T::ensure("hsv.hue", same_or_hue_close(d.hue.into_raw_degrees(), via.hue.into_raw_degrees(), tol));
            T::ensure("hsv.saturation", same_or_close(d.saturation, via.saturation, tol));
            T::ensure("hsv.value", same_or_close(d.value, via.value, tol));
            let a: Hsl<$s1, T> = Hsl::new(h, s, v);
            let d: Hsl<$s2, T> = Hsl::from_color_unclamped(a);
            let via: Hsl<$s2, T> = Hsl::from_color_unclamped(Rgb::<$s2, T>::from_color_unclamped(Rgb::<$s1, T>::from_color_unclamped(a)));
            T::ensure("hsl.hue", same_or_hue_close(d.hue.into_raw_degrees(), via.hue.into_raw_degrees(), tol));
            T::ensure("hsl.saturation", same_or_close(d.saturation, via.saturation, tol));
            T::ensure("hsl.lightness", same_or_close(d.lightness, via.lightness, tol));
            let a: Hwb<$s1, T> = Hwb::new(h, s * (T::k(1.0) - v), v * T::k(0.5));
            let d: Hwb<$s2, T> = Hwb::from_color_unclamped(a);
            let via: Hwb<$s2, T> = Hwb::from_color_unclamped(Hsv::<$s2, T>::from_color_unclamped(Hsv::<$s1, T>::from_color_unclamped(a)));
            T::ensure("hwb.hue", same_or_hue_close(d.hue.into_raw_degrees(), via.hue.into_raw_degrees(), tol));
            T::ensure("hwb.whiteness", same_or_close(d.whiteness, via.whiteness, tol));
            T::ensure("hwb.blackness", same_or_close(d.blackness, via.blackness, tol));
        });
    };
}
cross_cyl!(edge_cyl_srgb_linear, Srgb, Linear<Srgb>, "Srgb -> Linear<Srgb>");
cross_cyl!(edge_cyl_linear_srgb, Linear<Srgb>, Srgb, "Linear<Srgb> -> Srgb");
cross_cyl!(edge_cyl_srgb_rec709, Srgb, Rec709, "Srgb -> Rec709");
cross_cyl!(edge_cyl_srgb_adobe, Srgb, AdobeRgb, "Srgb -> AdobeRgb");
cross_cyl!(edge_cyl_rec2020_linear, Rec2020, Linear<Rec2020>, "Rec2020 -> Linear<Rec2020>");

program!(edge_cyl_same_standard, "C01,C02", "quick", v,
    "FromColorUnclamped<Hsv<S1>> for Hsv<S2>, <Hsl<S1>> for Hsl<S2>, <Hwb<S1>> for Hwb<S2>, <Rgb<S2>> for Rgb<S1>, <Luma<S2>> for Luma<S1> with S1 == S2",
    "between identical standards every conversion is the identity (the same terms)",
{
    let (h, s, v) = (T::var("h", -360.0, 720.0), T::var("s", 0.0, 1.0), T::var("v", 0.0, 1.0));
    let a: Hsv<Rec2020, T> = Hsv::from_color_unclamped(Hsv::<Rec2020, T>::new(h, s, v));
    T::identical("hsv.h", &a.hue.into_raw_degrees(), &h); T::identical("hsv.s", &a.saturation, &s); T::identical("hsv.v", &a.value, &v);
    let a: Hsl<AdobeRgb, T> = Hsl::from_color_unclamped(Hsl::<AdobeRgb, T>::new(h, s, v));
    T::identical("hsl.h", &a.hue.into_raw_degrees(), &h); T::identical("hsl.s", &a.saturation, &s); T::identical("hsl.l", &a.lightness, &v);
    let a: Hwb<Srgb, T> = Hwb::from_color_unclamped(Hwb::<Srgb, T>::new(h, s, v));
    T::identical("hwb.h", &a.hue.into_raw_degrees(), &h); T::identical("hwb.w", &a.whiteness, &s); T::identical("hwb.b", &a.blackness, &v);
    let a: Rgb<Rec709, T> = Rgb::from_color_unclamped(Rgb::<Rec709, T>::new(h, s, v));
    T::identical("rgb.r", &a.red, &h); T::identical("rgb.g", &a.green, &s); T::identical("rgb.b", &a.blue, &v);
    let a: Luma<Rec709, T> = Luma::from_color_unclamped(Luma::<Rec709, T>::new(s));
    T::identical("luma", &a.luma, &s);
});

program!(edge_hsv_to_rgb_recovers_hue, "C02,C01", "quick", s,
    "FromColorUnclamped<Hsv> for Rgb [rgb/rgb.rs] composed with FromColorUnclamped<Rgb> for Hsv [hsv.rs]",
    "inverse hexcone for EVERY stored hue in [-360, 720]: the forward hexcone (itself == Smith's definition, c02_rgb_to_hsv) recovers saturation, value and the hue modulo 360 from Hsv -> Rgb; so Hsv -> Rgb is the definition's inverse in every sector and for un-normalised hues",
{
    let (h, s, v) = (T::var("h", -360.0, 720.0), T::var("s", 0.01, 1.0), T::var("v", 0.01, 1.0));
    let rgb: Rgb<Srgb, T> = Rgb::from_color_unclamped(Hsv::<Srgb, T>::new(h, s, v));
    let back: Hsv<Srgb, T> = Hsv::from_color_unclamped(rgb);
    let tol = T::tol(1e-9, 1e-5);
    T::ensure("saturation_recovered", abs_le(back.saturation, s, tol));
    T::ensure("value_recovered", abs_le(back.value, v, tol));
    let q = (back.hue.into_raw_degrees() - h) / T::k(360.0);
    T::ensure("hue_recovered_mod_360", abs_le(palette::num::Round::round(q), q, T::tol(1e-9, 1e-5)));
});

program!(edge_hsl_to_rgb_recovers_hue, "C02,C01", "quick", s,
    "FromColorUnclamped<Hsl> for Rgb [rgb/rgb.rs] composed with FromColorUnclamped<Rgb> for Hsl [hsl.rs]",
    "inverse HSL hexcone for EVERY stored hue in [-360, 720]: the forward conversion (itself == the definition, c02_rgb_to_hsl) recovers saturation, lightness and the hue modulo 360 from Hsl -> Rgb",
{
    let (h, s, l) = (T::var("h", -360.0, 720.0), T::var("s", 0.01, 1.0), T::var("l", 0.01, 0.99));
    let rgb: Rgb<Srgb, T> = Rgb::from_color_unclamped(Hsl::<Srgb, T>::new(h, s, l));
    let back: Hsl<Srgb, T> = Hsl::from_color_unclamped(rgb);
    let tol = T::tol(1e-9, 1e-5);
    T::ensure("saturation_recovered", abs_le(back.saturation, s, tol));
    T::ensure("lightness_recovered", abs_le(back.lightness, l, tol));
    let q = (back.hue.into_raw_degrees() - h) / T::k(360.0);
    T::ensure("hue_recovered_mod_360", abs_le(palette::num::Round::round(q), q, T::tol(1e-9, 1e-5)));
});

program!(edge_hsl_hsv_direct, "C02,C01", "quick", sv,
    "FromColorUnclamped<Hsl> for Hsv [hsv.rs], FromColorUnclamped<Hsv> for Hsl [hsl.rs] (direct edges, not through Rgb)",
    "closed forms: v = l + s min(l, 1-l), s_v = 2 (1 - l/v) (0 for v = 0); l = v (1 - s/2), s_l = (v - l) / min(l, 1-l) (0 at l = 0 or 1); the hue passes through unchanged",
{
    let (h, s, x) = (T::var("h", -360.0, 720.0), T::var("s", 0.0, 1.0), T::var("x", 0.0, 1.0));
    let tol = T::tol(1e-9, 1e-5);
    let hsv: Hsv<Srgb, T> = Hsv::from_color_unclamped(Hsl::<Srgb, T>::new(h, s, x));
    let m = T::ite(&T::p_le(&x, &(T::k(1.0) - x)), x, T::k(1.0) - x);
    let v = x + s * m;
    T::identical("hsl_to_hsv.hue_unchanged", &hsv.hue.into_raw_degrees(), &h);
    T::ensure("hsl_to_hsv.value", abs_le(hsv.value, v, tol));
    T::ensure("hsl_to_hsv.saturation", abs_le(hsv.saturation * v, T::k(2.0) * (v - x), tol));
    T::ensure("hsl_to_hsv.black_has_zero_saturation", T::p_or(T::p_not(T::p_eq(&v, &T::k(0.0))), T::p_eq(&hsv.saturation, &T::k(0.0))));
    let hsl: Hsl<Srgb, T> = Hsl::from_color_unclamped(Hsv::<Srgb, T>::new(h, s, x));
    let l = x * (T::k(1.0) - s / T::k(2.0));
    let ml = T::ite(&T::p_le(&l, &(T::k(1.0) - l)), l, T::k(1.0) - l);
    T::identical("hsv_to_hsl.hue_unchanged", &hsl.hue.into_raw_degrees(), &h);
    T::ensure("hsv_to_hsl.lightness", abs_le(hsl.lightness, l, tol));
    T::ensure("hsv_to_hsl.saturation", abs_le(hsl.saturation * ml, x - l, tol));
    T::ensure("hsv_to_hsl.extremes_have_zero_saturation", T::p_or(T::p_not(T::p_eq(&ml, &T::k(0.0))), T::p_eq(&hsl.saturation, &T::k(0.0))));
});

macro_rules! polar {
    ($name:ident, $rect:ty, $pol:ty, $mkr:expr, $mkp:expr, $a:ident, $b:ident, $l:ident, $lo:expr, $hi:expr, $lmax:expr, $cmax:expr, $what:expr, $files:expr) => {
        program!($name, "C02,C01", "quick", sv,
            concat!("FromColorUnclamped<", $what, "> rectangular <-> polar ", $files),
            concat!($what, ": chroma == hypot(a, b) >= 0 (chroma^2 == a^2 + b^2), lightness passes through; polar -> rectangular is (C cos h, C sin h) with h in degrees; rectangular -> polar -> rectangular recovers a and b"),
        {
            let (l, a, b) = (T::var("l", 0.0, $lmax), T::var("a", $lo, $hi), T::var("b", $lo, $hi));
            let tol = T::tol(1e-9, 1e-3);
            let mkr = $mkr; let mkp = $mkp;
            let r: $rect = mkr(l, a, b);
            let p: $pol = <$pol>::from_color_unclamped(r);
            T::identical("to_polar.lightness_unchanged", &p.$l, &l);
            T::ensure("to_polar.chroma_is_hypot", T::p_and(abs_le(p.chroma * p.chroma, a * a + b * b, T::tol(1e-6, 1e-1)), T::p_le(&T::k(0.0), &p.chroma)));
            let (c, h) = (T::var("c", 0.0, $cmax), T::var("h", -360.0, 720.0));
            let q: $pol = mkp(l, c, h);
            let back: $rect = <$rect>::from_color_unclamped(q);
            let rad = h * (T::k(std::f64::consts::PI) / T::k(180.0));
            T::identical("to_rect.lightness_unchanged", &back.$l, &l);
            T::ensure("to_rect.a_is_c_cos_h", abs_le(back.$a, c * palette::num::Trigonometry::cos(rad), tol));
            T::ensure("to_rect.b_is_c_sin_h", abs_le(back.$b, c * palette::num::Trigonometry::sin(rad), tol));
        });
    };
}
polar!(edge_polar_lab, Lab<D65, T>, Lch<D65, T>, |l, a, b| Lab::new(l, a, b), |l, c, h| Lch::new(l, c, h), a, b, l, -128.0, 127.0, 100.0, 128.0, "Lab / Lch", "[lch.rs, lab.rs]");
polar!(edge_polar_luv, Luv<D65, T>, Lchuv<D65, T>, |l, a, b| Luv::new(l, a, b), |l, c, h| Lchuv::new(l, c, h), u, v, l, -135.0, 176.0, 100.0, 180.0, "Luv / Lchuv", "[lchuv.rs, luv.rs]");
polar!(edge_polar_oklab, Oklab<T>, Oklch<T>, |l, a, b| Oklab::new(l, a, b), |l, c, h| Oklch::new(l, c, h), a, b, l, -0.5, 0.5, 1.0, 0.5, "Oklab / Oklch", "[oklch.rs, oklab.rs]");

program!(edge_okhsv_okhwb, "C02,C01", "quick", sv,
    "FromColorUnclamped<Okhsv> for Okhwb [okhwb.rs], FromColorUnclamped<Okhwb> for Okhsv [okhsv.rs]",
    "Ottosson's Okhwb is HWB over Okhsv: w = (1 - s) v, b = 1 - v; inverse v = 1 - b, s = 1 - w / v (0 when v = 0); the hue passes through; there and back is the identity",
{
    let (h, s, v) = (T::var("h", -360.0, 720.0), T::var("s", 0.0, 1.0), T::var("v", 0.0, 1.0));
    let tol = T::tol(1e-9, 1e-5);
    let c: Okhwb<T> = Okhwb::from_color_unclamped(Okhsv::<T>::new(h, s, v));
    T::identical("to_okhwb.hue_unchanged", &c.hue.into_raw_degrees(), &h);
    T::ensure("to_okhwb.whiteness", abs_le(c.whiteness, (T::k(1.0) - s) * v, tol));
    T::ensure("to_okhwb.blackness", abs_le(c.blackness, T::k(1.0) - v, tol));
    let (w, b) = (T::var("w", 0.0, 1.0), T::var("b", 0.0, 1.0));
    T::assume(T::p_le(&(w + b), &T::k(1.0)));
    let k: Okhsv<T> = Okhsv::from_color_unclamped(Okhwb::<T>::new(h, w, b));
    T::identical("to_okhsv.hue_unchanged", &k.hue.into_raw_degrees(), &h);
    T::ensure("to_okhsv.value", abs_le(k.value, T::k(1.0) - b, tol));
    T::ensure("to_okhsv.saturation", abs_le(k.saturation * (T::k(1.0) - b), (T::k(1.0) - b) - w, tol));
    T::ensure("to_okhsv.black_has_zero_saturation", T::p_or(T::p_not(T::p_eq(&b, &T::k(1.0))), T::p_eq(&k.saturation, &T::k(0.0))));
});

program!(edge_oklab_to_rgb, "C02,C01", "quick", sv,
    "FromColorUnclamped<Oklab> for Rgb -> oklab::oklab_to_linear_srgb [rgb/rgb.rs, oklab.rs], FromColorUnclamped<Rgb> for Oklab",
    "the direct sRGB shortcut: linear sRGB -> Oklab -> linear sRGB is the identity on [0,1]^3 within 1e-6 (the forward direction is Ottosson's published transform, c02_oklab, so the direct inverse is its inverse)",
{
    let (r, g, b) = (T::var("r", 0.0, 1.0), T::var("g", 0.0, 1.0), T::var("b", 0.0, 1.0));
    let ok: Oklab<T> = Oklab::from_color_unclamped(LinSrgb::<T>::new(r, g, b));
    let back: LinSrgb<T> = LinSrgb::from_color_unclamped(ok);
    let tol = T::tol(1e-6, 1e-4);
    T::ensure("rt.red", abs_le(back.red, r, tol)); T::ensure("rt.green", abs_le(back.green, g, tol)); T::ensure("rt.blue", abs_le(back.blue, b, tol));
});

program!(edge_lms, "C01,C02", "quick", sv,
    "FromColorUnclamped<Xyz> for Lms [lms/lms.rs], FromColorUnclamped<Lms> for Xyz [xyz.rs], lms::matrix::{VonKries, Bradford}",
    "Xyz -> Lms -> Xyz is the identity within 1e-6 for the von Kries and the Bradford cone matrices; Xyz -> Lms is the published matrix (first row checked against the literature values)",
{
    use palette::lms::{BradfordLms, VonKriesLms};
    let (x, y, z) = (T::var("x", 0.0, 0.95047), T::var("y", 0.0, 1.0), T::var("z", 0.0, 1.08883));
    let tol = T::tol(1e-6, 1e-4);
    let c: Xyz<D65, T> = Xyz::new(x, y, z);
    let vk: VonKriesLms<D65, T> = VonKriesLms::from_color_unclamped(c);
    let b1: Xyz<D65, T> = Xyz::from_color_unclamped(vk);
    T::ensure("von_kries.rt", conj::<T>(&[abs_le(b1.x, x, tol), abs_le(b1.y, y, tol), abs_le(b1.z, z, tol)]));
    T::ensure("von_kries.long_is_published_row", abs_le(vk.long, T::k(0.40024) * x + T::k(0.7076) * y - T::k(0.08081) * z, tol));
    let br: BradfordLms<D65, T> = BradfordLms::from_color_unclamped(c);
    let b2: Xyz<D65, T> = Xyz::from_color_unclamped(br);
    T::ensure("bradford.rt", conj::<T>(&[abs_le(b2.x, x, tol), abs_le(b2.y, y, tol), abs_le(b2.z, z, tol)]));
    T::ensure("bradford.long_is_published_row", abs_le(br.long, T::k(0.8951) * x + T::k(0.2664) * y - T::k(0.1614) * z, tol));
});

pub fn all() -> Vec<crate::Prog> {
    vec![edge_luma_srgb::prog(), edge_luma_rec709::prog(), edge_luma_adobe::prog(), edge_luma_round_trips::prog(),
         edge_rgb_srgb_adobe::prog(), edge_rgb_adobe_srgb::prog(), edge_rgb_srgb_rec2020::prog(), edge_rgb_rec2020_p3::prog(),
         edge_rgb_lin_srgb_lin_rec2020::prog(), edge_rgb_p3_srgb::prog(),
         edge_rgb_srgb_linear::prog(), edge_rgb_linear_srgb::prog(), edge_rgb_linear_rec709::prog(), edge_rgb_rec709_linear::prog(),
         edge_cyl_srgb_linear::prog(), edge_cyl_linear_srgb::prog(), edge_cyl_srgb_rec709::prog(), edge_cyl_srgb_adobe::prog(), edge_cyl_rec2020_linear::prog(),
         edge_cyl_same_standard::prog(), edge_hsv_to_rgb_recovers_hue::prog(), edge_hsl_to_rgb_recovers_hue::prog(), edge_hsl_hsv_direct::prog(),
         edge_polar_lab::prog(), edge_polar_luv::prog(), edge_polar_oklab::prog(), edge_okhsv_okhwb::prog(), edge_oklab_to_rgb::prog(), edge_lms::prog()]
}
