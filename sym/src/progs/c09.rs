//! C09 — colour difference measures: closed forms, metric laws, polar == rectangular, WCAG contrast.
use crate::logic::*;
use palette::color_difference::{Ciede2000, DeltaE, EuclideanDistance, HyAb, ImprovedDeltaE, Wcag21RelativeContrast};
use palette::convert::FromColorUnclamped;
use palette::white_point::D65;
use palette::{Lab, Lch, LinSrgb, Luv, Oklab};
#[allow(non_camel_case_types)]
pub type LinLuma<T> = palette::luma::Luma<palette::encoding::Linear<D65>, T>;

macro_rules! lab_like_vars {
    () => {{
        (T::var("l1", 0.0, 100.0), T::var("a1", -128.0, 127.0), T::var("b1", -128.0, 127.0),
         T::var("l2", 0.0, 100.0), T::var("a2", -128.0, 127.0), T::var("b2", -128.0, 127.0))
    }};
}

program!(c09_delta_e_lab, "C09", "quick", sv,
    "DeltaE/ImprovedDeltaE/HyAb/EuclideanDistance for Lab [lab.rs, macros/color_difference.rs]",
    "Delta E == sqrt(dL^2+da^2+db^2), improved == 1.26 * dE^0.55, HyAB == |dL| + sqrt(da^2+db^2), distance_squared is the sum of squares; each non-negative, symmetric, zero on identical colours",
{
    let (l1, a1, b1, l2, a2, b2) = lab_like_vars!();
    let x: Lab<D65, T> = Lab::new(l1, a1, b1);
    let y: Lab<D65, T> = Lab::new(l2, a2, b2);
    let tol = T::tol(1e-9, 1e-3);
    let sq = (l1 - l2) * (l1 - l2) + (a1 - a2) * (a1 - a2) + (b1 - b2) * (b1 - b2);
    let de = x.delta_e(y);
    T::output("delta_e", &de);
    T::ensure("delta_e.nonneg", T::p_le(&T::k(0.0), &de));
    T::ensure("delta_e.closed_form_squared", abs_le(de * de, sq, T::tol(1e-6, 1e-1)));
    T::ensure("delta_e.symmetric", abs_le(de, y.delta_e(x), tol));
    T::ensure("delta_e.zero_on_identical", abs_le(x.delta_e(x), T::k(0.0), tol));
    T::ensure("distance_squared.closed_form", abs_le(x.distance_squared(y), sq, T::tol(1e-6, 1e-1)));
    T::ensure("distance_squared.symmetric", abs_le(x.distance_squared(y), y.distance_squared(x), T::tol(1e-6, 1e-1)));
    T::ensure("distance.nonneg", T::p_le(&T::k(0.0), &x.distance(y)));
    let hy = x.hybrid_distance(y);
    T::output("hyab", &hy);
    let dl = l1 - l2;
    let adl = T::ite(&T::p_le(&T::k(0.0), &dl), dl, -dl);
    let ch = hy - adl;
    T::ensure("hyab.chroma_part_nonneg", T::p_le(&T::k(-1e-9), &ch));
    T::ensure("hyab.closed_form", abs_le(ch * ch, (a1 - a2) * (a1 - a2) + (b1 - b2) * (b1 - b2), T::tol(1e-6, 1e-1)));
    T::ensure("hyab.symmetric", abs_le(hy, y.hybrid_distance(x), tol));
    T::ensure("hyab.zero_on_identical", abs_le(x.hybrid_distance(x), T::k(0.0), tol));
    // improved delta E: 1.26 * dE^0.55 (same power application as the spec written here)
    let imp = x.improved_delta_e(y);
    T::output("improved", &imp);
    T::ensure("improved_delta_e.closed_form", abs_le(imp, T::k(1.26) * palette::num::Powf::powf(sq, T::k(0.55 * 0.5)), tol));
    T::ensure("improved_delta_e.nonneg", T::p_le(&T::k(0.0), &imp));
    T::ensure("improved_delta_e.symmetric", abs_le(imp, y.improved_delta_e(x), tol));
});

program!(c09_delta_e_polar, "C09", "quick", sv,
    "DeltaE/ImprovedDeltaE for Lch -> Lab [lch.rs], FromColorUnclamped<Lch> for Lab",
    "the polar (Lch) Delta E equals the rectangular (Lab) one: for Lch colours obtained from Lab colours, delta_e agrees",
{
    let (l1, a1, b1, l2, a2, b2) = lab_like_vars!();
    let x: Lab<D65, T> = Lab::new(l1, a1, b1);
    let y: Lab<D65, T> = Lab::new(l2, a2, b2);
    let px: Lch<D65, T> = Lch::from_color_unclamped(x);
    let py: Lch<D65, T> = Lch::from_color_unclamped(y);
    // cut points: the rectangular coordinates reconstructed from the polar form are the original ones
    let rx: Lab<D65, T> = Lab::from_color_unclamped(px);
    let ry: Lab<D65, T> = Lab::from_color_unclamped(py);
    let tiny = T::tol(1e-12, 1e-6);
    T::lemma("reconstruct.a1", abs_le(rx.a, a1, tiny)); T::lemma("reconstruct.b1", abs_le(rx.b, b1, tiny));
    T::lemma("reconstruct.a2", abs_le(ry.a, a2, tiny)); T::lemma("reconstruct.b2", abs_le(ry.b, b2, tiny));
    // delta_e on Lch IS delta_e on the reconstructed Lab colours (same terms); with the cut points above
    // (reconstruction == original coordinates) polar == rectangular follows by congruence of delta_e.
    let d_pol = px.delta_e(py);
    T::identical("polar_delta_e_is_rectangular_delta_e_of_reconstruction", &d_pol, &rx.delta_e(ry));
    T::identical("polar_improved_delta_e_is_rectangular_of_reconstruction", &px.improved_delta_e(py), &rx.improved_delta_e(ry));
    T::identical("reconstruct.l1", &rx.l, &l1);
    T::identical("reconstruct.l2", &ry.l, &l2);
});

program!(c09_euclidean_others, "C09", "quick", sv,
    "EuclideanDistance for Rgb, Luv, Oklab [macros/color_difference.rs impl_euclidean_distance!], HyAb for Luv/Oklab",
    "distance_squared is the sum of squared component differences; symmetric; zero on identical colours",
{
    let (r1, g1, b1, r2, g2, b2) = (T::var("r1", 0.0, 1.0), T::var("g1", 0.0, 1.0), T::var("b1", 0.0, 1.0), T::var("r2", 0.0, 1.0), T::var("g2", 0.0, 1.0), T::var("b2", 0.0, 1.0));
    let tol = T::tol(1e-9, 1e-4);
    let x: LinSrgb<T> = LinSrgb::new(r1, g1, b1); let y: LinSrgb<T> = LinSrgb::new(r2, g2, b2);
    let sq = (r1 - r2) * (r1 - r2) + (g1 - g2) * (g1 - g2) + (b1 - b2) * (b1 - b2);
    T::ensure("rgb.closed_form", abs_le(x.distance_squared(y), sq, tol));
    T::ensure("rgb.symmetric", abs_le(x.distance_squared(y), y.distance_squared(x), tol));
    T::ensure("rgb.zero_on_identical", abs_le(x.distance_squared(x), T::k(0.0), tol));
    let x: Oklab<T> = Oklab::new(r1, g1 - T::k(0.5), b1 - T::k(0.5)); let y: Oklab<T> = Oklab::new(r2, g2 - T::k(0.5), b2 - T::k(0.5));
    T::ensure("oklab.closed_form", abs_le(x.distance_squared(y), sq, tol));
    let hy = x.hybrid_distance(y);
    T::ensure("oklab.hyab_symmetric", abs_le(hy, y.hybrid_distance(x), tol));
    T::ensure("oklab.hyab_nonneg", T::p_le(&T::k(-1e-12), &hy));
    let x: Luv<D65, T> = Luv::new(r1 * T::k(100.0), g1 * T::k(100.0), b1 * T::k(100.0)); let y: Luv<D65, T> = Luv::new(r2 * T::k(100.0), g2 * T::k(100.0), b2 * T::k(100.0));
    T::ensure("luv.closed_form", abs_le(x.distance_squared(y), sq * T::k(10000.0), T::tol(1e-6, 1e-1)));
    T::ensure("luv.hyab_symmetric", abs_le(x.hybrid_distance(y), y.hybrid_distance(x), T::tol(1e-9, 1e-3)));
});

program!(c09_wcag, "C09", "quick", sv,
    "Wcag21RelativeContrast::{relative_contrast, has_*} for Rgb and Luma [color_difference.rs, rgb/rgb.rs, luma/luma.rs]",
    "relative contrast is symmetric and in [1,21] for luminance in [0,1]; it is (0.05+max)/(0.05+min); each threshold predicate is the ratio compared with the documented constant (4.5, 3, 7, 4.5, 3)",
{
    let (y1, y2) = (T::var("y1", 0.0, 1.0), T::var("y2", 0.0, 1.0));
    let a: LinLuma<T> = LinLuma::new(y1);
    let b: LinLuma<T> = LinLuma::new(y2);
    let tol = T::tol(1e-12, 1e-5);
    let r = a.relative_contrast(b);
    T::output("ratio", &r);
    let hi = T::ite(&T::p_le(&y1, &y2), y2, y1);
    let lo = T::ite(&T::p_le(&y1, &y2), y1, y2);
    T::ensure("ratio.closed_form", abs_le(r * (T::k(0.05) + lo), T::k(0.05) + hi, tol));
    T::ensure("ratio.symmetric", abs_le(r, b.relative_contrast(a), tol));
    T::ensure("ratio.in_1_21", in_range(r, 1.0 - 1e-12, 21.0 + 1e-9));
    let iff = |m: <T as palette::bool_mask::HasBoolMask>::Mask, k: f64| -> <T as Logic>::P {
        let p = T::mask_prop(m);
        let q = T::p_le(&T::k(k), &r);
        T::p_and(T::p_or(T::p_not(p.clone()), q.clone()), T::p_or(T::p_not(q), p))
    };
    T::ensure("predicate.min_contrast_text_is_4_5", iff(a.has_min_contrast_text(b), 4.5));
    T::ensure("predicate.min_contrast_large_text_is_3", iff(a.has_min_contrast_large_text(b), 3.0));
    T::ensure("predicate.enhanced_contrast_text_is_7", iff(a.has_enhanced_contrast_text(b), 7.0));
    T::ensure("predicate.enhanced_contrast_large_text_is_4_5", iff(a.has_enhanced_contrast_large_text(b), 4.5));
    T::ensure("predicate.min_contrast_graphics_is_3", iff(a.has_min_contrast_graphics(b), 3.0));
    // Rgb goes through its relative luminance (Rec.709 weights of the linear components)
    let (r1, g1, b1) = (T::var("r1", 0.0, 1.0), T::var("g1", 0.0, 1.0), T::var("b1", 0.0, 1.0));
    let c: LinSrgb<T> = LinSrgb::new(r1, g1, b1);
    let lum = c.relative_luminance().luma;
    T::ensure("rgb.relative_luminance_weights", abs_le(lum, T::k(0.2126) * r1 + T::k(0.7152) * g1 + T::k(0.0722) * b1, T::tol(1e-4, 1e-3)));
    let white: LinSrgb<T> = LinSrgb::new(T::k(1.0), T::k(1.0), T::k(1.0));
    let rc = c.relative_contrast(white);
    T::ensure("rgb.contrast_in_1_21", in_range(rc, 1.0 - 1e-9, 21.0 + 1e-3));
    T::ensure("rgb.contrast_symmetric", abs_le(rc, white.relative_contrast(c), tol));
});

program!(c09_ciede2000_laws, "C09", "quick", s,
    "Ciede2000::difference for Lab -> color_difference::get_ciede2000_difference [color_difference.rs, lab.rs]",
    "CIEDE2000 is non-negative (all Lab colours, every case-analysis path); its square root argument and every divisor are in their domains (definedness obligations)",
{
    let (l1, a1, b1) = (T::var("l1", 0.0, 100.0), T::var("a1", -128.0, 127.0), T::var("b1", -128.0, 127.0));
    let x: Lab<D65, T> = Lab::new(l1, a1, b1);
    let y: Lab<D65, T> = Lab::new(T::var("l2", 0.0, 100.0), T::var("a2", -128.0, 127.0), T::var("b2", -128.0, 127.0));
    let d = x.difference(y);
    T::ensure("ciede2000.nonneg", T::p_le(&T::k(0.0), &d));
});


program!(c09_ciede2000_sharma, "C09", "quick", s,
    "Ciede2000::difference for Lab -> color_difference::get_ciede2000_difference, From<Lab> for LabColorDiff [color_difference.rs, lab.rs]",
    "CIEDE2000 == the CIE/Sharma-Wu-Dalal reference formula (eqs. 2-22, transcribed independently in specs.rs) for every pair of L*a*b* colours, on every path of the case analyses for h', delta h' and the mean hue (hues straddling 0/360, zero chroma, b = 0 with negative a'), within 1e-6 over the reals",
{
    let (l1, a1, b1) = (T::var("l1", 0.0, 100.0), T::var("a1", -128.0, 127.0), T::var("b1", -128.0, 127.0));
    let (l2, a2, b2) = (T::var("l2", 0.0, 100.0), T::var("a2", -128.0, 127.0), T::var("b2", -128.0, 127.0));
    let x: Lab<D65, T> = Lab::new(l1, a1, b1);
    let y: Lab<D65, T> = Lab::new(l2, a2, b2);
    let d = x.difference(y);
    let spec = crate::specs::ciede2000_sharma::<T>(l1, a1, b1, l2, a2, b2);
    T::ensure("ciede2000_is_sharma_reference", same_or_close(d, spec, T::tol(1e-6, 1e-4)));
});

program!(c09_ciede2000_symmetric, "C09", "thorough", s,
    "Ciede2000::difference for Lab -> color_difference::get_ciede2000_difference",
    "CIEDE2000 is symmetric and zero on identical colours",
{
    let (l1, a1, b1) = (T::var("l1", 0.0, 100.0), T::var("a1", -128.0, 127.0), T::var("b1", -128.0, 127.0));
    let x: Lab<D65, T> = Lab::new(l1, a1, b1);
    let y: Lab<D65, T> = Lab::new(T::var("l2", 0.0, 100.0), T::var("a2", -128.0, 127.0), T::var("b2", -128.0, 127.0));
    T::ensure("ciede2000.symmetric", same_or_close(x.difference(y), y.difference(x), T::tol(1e-6, 1e-4)));
});

program!(c09_cam16_ucs, "C09", "quick", sv,
    "DeltaE / ImprovedDeltaE / EuclideanDistance / HyAb for Cam16UcsJab, DeltaE / ImprovedDeltaE for Cam16UcsJmh [cam16/ucs_jab.rs, cam16/ucs_jmh.rs, macros/color_difference.rs]",
    "CAM16-UCS: delta_e^2 == dJ'^2 + da'^2 + db'^2 and >= 0, improved_delta_e == 1.41 * dE^0.63 (same power application), HyAB == |dJ'| + sqrt(da'^2 + db'^2); symmetric, zero on identical colours; the polar (Jmh) measures are the rectangular ones of the converted colours (same terms)",
{
    use palette::cam16::{Cam16UcsJab, Cam16UcsJmh};
    let (l1, a1, b1, l2, a2, b2) = (T::var("j1", 0.0, 100.0), T::var("a1", -50.0, 50.0), T::var("b1", -50.0, 50.0), T::var("j2", 0.0, 100.0), T::var("a2", -50.0, 50.0), T::var("b2", -50.0, 50.0));
    let x: Cam16UcsJab<T> = Cam16UcsJab::new(l1, a1, b1);
    let y: Cam16UcsJab<T> = Cam16UcsJab::new(l2, a2, b2);
    let tol = T::tol(1e-9, 1e-3);
    let sq = (l1 - l2) * (l1 - l2) + (a1 - a2) * (a1 - a2) + (b1 - b2) * (b1 - b2);
    let de = x.delta_e(y);
    T::ensure("jab.delta_e.nonneg", T::p_le(&T::k(0.0), &de));
    T::ensure("jab.delta_e.closed_form_squared", abs_le(de * de, sq, T::tol(1e-6, 1e-1)));
    T::ensure("jab.delta_e.symmetric", abs_le(de, y.delta_e(x), tol));
    T::ensure("jab.distance_squared.closed_form", abs_le(x.distance_squared(y), sq, T::tol(1e-6, 1e-1)));
    let imp = x.improved_delta_e(y);
    T::ensure("jab.improved_delta_e.closed_form", abs_le(imp, T::k(1.41) * palette::num::Powf::powf(sq, T::k(0.63 * 0.5)), tol));
    T::ensure("jab.improved_delta_e.nonneg", T::p_le(&T::k(0.0), &imp));
    T::ensure("jab.improved_delta_e.symmetric", abs_le(imp, y.improved_delta_e(x), tol));
    let hy = x.hybrid_distance(y);
    let dl = l1 - l2;
    let adl = T::ite(&T::p_le(&T::k(0.0), &dl), dl, -dl);
    let ch = hy - adl;
    T::ensure("jab.hyab.chroma_part_nonneg", T::p_le(&T::k(-1e-9), &ch));
    T::ensure("jab.hyab.closed_form", abs_le(ch * ch, (a1 - a2) * (a1 - a2) + (b1 - b2) * (b1 - b2), T::tol(1e-6, 1e-1)));
    T::ensure("jab.hyab.symmetric", abs_le(hy, y.hybrid_distance(x), tol));
    // polar: Jmh measures are the Jab measures of the converted colours
    let (m1, h1, m2, h2) = (T::var("m1", 0.0, 60.0), T::var("h1", 0.0, 360.0), T::var("m2", 0.0, 60.0), T::var("h2", 0.0, 360.0));
    let p: Cam16UcsJmh<T> = Cam16UcsJmh::new(l1, m1, h1);
    let q: Cam16UcsJmh<T> = Cam16UcsJmh::new(l2, m2, h2);
    let (pj, qj): (Cam16UcsJab<T>, Cam16UcsJab<T>) = (Cam16UcsJab::from_color_unclamped(p), Cam16UcsJab::from_color_unclamped(q));
    T::identical("jmh.delta_e_is_jab_delta_e_of_conversion", &p.delta_e(q), &pj.delta_e(qj));
    T::identical("jmh.improved_delta_e_is_jab_of_conversion", &p.improved_delta_e(q), &pj.improved_delta_e(qj));
});

program!(c09_hyab_all, "C09", "quick", sv,
    "HyAb for Lab, Luv, Oklab [macros/color_difference.rs impl_hyab!]",
    "HyAB == |dL| + sqrt(da^2 + db^2) on every implementing type: the lightness part is the ABSOLUTE difference (non-negative in both argument orders), symmetric, zero on identical colours",
{
    let (l1, a1, b1, l2, a2, b2) = (T::var("l1", 0.0, 1.0), T::var("a1", -0.5, 0.5), T::var("b1", -0.5, 0.5), T::var("l2", 0.0, 1.0), T::var("a2", -0.5, 0.5), T::var("b2", -0.5, 0.5));
    let tol = T::tol(1e-9, 1e-4);
    let dl = l1 - l2;
    let adl = T::ite(&T::p_le(&T::k(0.0), &dl), dl, -dl);
    let csq = (a1 - a2) * (a1 - a2) + (b1 - b2) * (b1 - b2);
    let hy = Oklab::<T>::new(l1, a1, b1).hybrid_distance(Oklab::<T>::new(l2, a2, b2));
    T::ensure("oklab.closed_form", T::p_and(T::p_le(&T::k(-1e-12), &(hy - adl)), abs_le((hy - adl) * (hy - adl), csq, T::tol(1e-9, 1e-4))));
    T::ensure("oklab.zero_on_identical", abs_le(Oklab::<T>::new(l1, a1, b1).hybrid_distance(Oklab::<T>::new(l1, a1, b1)), T::k(0.0), tol));
    let hy = Luv::<D65, T>::new(l1, a1, b1).hybrid_distance(Luv::<D65, T>::new(l2, a2, b2));
    T::ensure("luv.closed_form", T::p_and(T::p_le(&T::k(-1e-12), &(hy - adl)), abs_le((hy - adl) * (hy - adl), csq, T::tol(1e-9, 1e-4))));
});

pub fn all() -> Vec<crate::Prog> {
    vec![c09_delta_e_lab::prog(), c09_delta_e_polar::prog(), c09_euclidean_others::prog(), c09_wcag::prog(), c09_ciede2000_sharma::prog(), c09_cam16_ucs::prog(), c09_hyab_all::prog()]
    // not registered (undischarged by the portfolio, see DESIGN.md): c09_ciede2000_laws (non-negativity: the R_T cross term), c09_ciede2000_symmetric
}
