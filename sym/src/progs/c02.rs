//! C02 — every hand-written conversion against an independent transcription of the published definition.
use crate::logic::*;
use crate::specs;
use palette::convert::FromColorUnclamped;
use palette::encoding::Srgb;
use palette::white_point::D65;
use palette::{Hsl, Hsv, Hwb, Lab, LinSrgb, Luv, Oklab, Xyz, Yxy};

program!(c02_xyz_to_lab, "C02", "quick", sv,
    "FromColorUnclamped<Xyz> for Lab [lab.rs]",
    "CIE 15 L*a*b* (epsilon (6/29)^3, slope 841/108, offset 4/29, D65 2-degree white): code == spec within 1e-9 on the white-point box, including across the piecewise join",
{
    let (x, y, z) = (T::var("x", 0.0, 0.95047), T::var("y", 0.0, 1.0), T::var("z", 0.0, 1.08883));
    let lab: Lab<D65, T> = Lab::from_color_unclamped(Xyz::<D65, T>::new(x, y, z));
    T::output("l", &lab.l); T::output("a", &lab.a); T::output("b", &lab.b);
    let (l, a, b) = specs::xyz_to_lab::<T>(x, y, z, specs::W_D65);
    let tol = T::tol(1e-9, 1e-3);
    T::ensure("spec.l", abs_le(lab.l, l, tol)); T::ensure("spec.a", abs_le(lab.a, a, tol)); T::ensure("spec.b", abs_le(lab.b, b, tol));
});

program!(c02_lab_to_xyz, "C02", "quick", sv,
    "FromColorUnclamped<Lab> for Xyz [xyz.rs]",
    "CIE 15 inverse L*a*b* (per-channel piece selection at f = 6/29): code == spec within 1e-9 on the nominal Lab box",
{
    let (l, a, b) = (T::var("l", 0.0, 100.0), T::var("a", -128.0, 127.0), T::var("b", -128.0, 127.0));
    let xyz: Xyz<D65, T> = Xyz::from_color_unclamped(Lab::<D65, T>::new(l, a, b));
    T::output("x", &xyz.x); T::output("y", &xyz.y); T::output("z", &xyz.z);
    let (x, y, z) = specs::lab_to_xyz::<T>(l, a, b, specs::W_D65);
    let tol = T::tol(1e-9, 1e-4);
    T::ensure("spec.x", abs_le(xyz.x, x, tol)); T::ensure("spec.y", abs_le(xyz.y, y, tol)); T::ensure("spec.z", abs_le(xyz.z, z, tol));
});

program!(c02_xyz_to_luv, "C02", "quick", s,
    "FromColorUnclamped<Xyz> for Luv [luv.rs]",
    "CIE 1976 L*u*v* (kappa (29/3)^3, u'v' of the D65 white): code == spec within 1e-6 for Y >= 1e-6",
{
    let (x, y, z) = (T::var("x", 0.0, 0.95047), T::var("y", 0.000001, 1.0), T::var("z", 0.0, 1.08883));
    let luv: Luv<D65, T> = Luv::from_color_unclamped(Xyz::<D65, T>::new(x, y, z));
    T::output("l", &luv.l); T::output("u", &luv.u); T::output("v", &luv.v);
    let (l, u, v) = specs::xyz_to_luv::<T>(x, y, z, specs::W_D65);
    let tol = T::tol(1e-6, 1e-2);
    T::ensure("spec.l", abs_le(luv.l, l, tol)); T::ensure("spec.u", abs_le(luv.u, u, tol)); T::ensure("spec.v", abs_le(luv.v, v, tol));
});

program!(c02_xyz_yxy, "C02", "quick", sv,
    "FromColorUnclamped<Xyz> for Yxy [yxy.rs], FromColorUnclamped<Yxy> for Xyz [xyz.rs]",
    "CIE xyY: x = X/(X+Y+Z), y = Y/(X+Y+Z), Y = Y; inverse X = xY/y, Z = (1-x-y)Y/y; both directions == spec",
{
    let (x, y, z) = (T::var("x", 0.0, 0.95047), T::var("y", 0.0, 1.0), T::var("z", 0.0, 1.08883));
    T::assume(T::p_lt(&T::k(0.0), &y));
    let c: Yxy<D65, T> = Yxy::from_color_unclamped(Xyz::<D65, T>::new(x, y, z));
    let s = x + y + z;
    let tol = T::tol(1e-12, 1e-5);
    T::ensure("spec.x", abs_le(c.x * s, x, tol)); T::ensure("spec.y", abs_le(c.y * s, y, tol)); T::ensure("spec.luma", abs_le(c.luma, y, tol));
    let (cx, cy, cl) = (T::var("cx", 0.0, 0.8), T::var("cy", 0.01, 0.9), T::var("cl", 0.0, 1.0));
    let back: Xyz<D65, T> = Xyz::from_color_unclamped(Yxy::<D65, T>::new(cx, cy, cl));
    T::ensure("inverse.x", abs_le(back.x * cy, cx * cl, tol)); T::ensure("inverse.y", abs_le(back.y, cl, tol));
    T::ensure("inverse.z", abs_le(back.z * cy, (T::k(1.0) - cx - cy) * cl, tol));
});

program!(c02_srgb_transfer, "C02", "quick", sv,
    "IntoLinear<T,T> / FromLinear<T,T> for Srgb [encoding/srgb.rs]",
    "IEC 61966-2-1 curves (12.92, 0.0031308 / 0.04045, 1.055, 0.055, 2.4): encode and decode == spec within 1e-9 on [0,1], including at the published thresholds",
{
    use palette::encoding::{FromLinear, IntoLinear};
    let x = T::var("x", 0.0, 1.0);
    let tol = T::tol(1e-9, 1e-5);
    T::ensure("spec.encode", abs_le(<Srgb as FromLinear<T, T>>::from_linear(x), specs::srgb_encode::<T>(x), tol));
    T::ensure("spec.decode", abs_le(<Srgb as IntoLinear<T, T>>::into_linear(x), specs::srgb_decode::<T>(x), tol));
});

program!(c02_rgb_to_hsv, "C02", "quick", s,
    "FromColorUnclamped<Rgb> for Hsv [hsv.rs] (scalar branch)",
    "Smith's hexcone: v = max, s = (max-min)/max (0 for black), hue = 60 * sextant formula modulo 360 (0 for greys); code == spec on [0,1]^3",
{
    let (r, g, b) = (T::var("r", 0.0, 1.0), T::var("g", 0.0, 1.0), T::var("b", 0.0, 1.0));
    let c: Hsv<Srgb, T> = Hsv::from_color_unclamped(palette::rgb::Rgb::<Srgb, T>::new(r, g, b));
    T::output("h", &c.hue.into_raw_degrees()); T::output("s", &c.saturation); T::output("v", &c.value);
    let (mx, mn) = (specs::max3(r, g, b), specs::min3(r, g, b));
    let tol = T::tol(1e-9, 1e-4);
    T::ensure("spec.value", abs_le(c.value, mx, tol));
    T::ensure("spec.saturation", abs_le(c.saturation * mx, mx - mn, tol));
    T::ensure("spec.saturation_black_is_zero", T::p_or(T::p_not(T::p_eq(&mx, &T::k(0.0))), T::p_eq(&c.saturation, &T::k(0.0))));
    let grey = T::p_eq(&mx, &mn);
    let h = c.hue.into_raw_degrees();
    let q = (h - specs::hex_hue::<T>(r, g, b)) / T::k(360.0);
    T::ensure("spec.hue_mod_360", T::p_or(grey.clone(), abs_le(palette::num::Round::round(q), q, T::tol(1e-12, 1e-5))));
    T::ensure("spec.hue_grey_is_zero", T::p_or(T::p_not(grey), T::p_eq(&h, &T::k(0.0))));
});

program!(c02_rgb_to_hsl, "C02", "quick", s,
    "FromColorUnclamped<Rgb> for Hsl [hsl.rs] (scalar branch)",
    "hexcone HSL: l = (max+min)/2, s = (max-min)/(1-|2l-1|) (0 for greys), hue as for HSV; code == spec on [0,1]^3",
{
    let (r, g, b) = (T::var("r", 0.0, 1.0), T::var("g", 0.0, 1.0), T::var("b", 0.0, 1.0));
    let c: Hsl<Srgb, T> = Hsl::from_color_unclamped(palette::rgb::Rgb::<Srgb, T>::new(r, g, b));
    T::output("h", &c.hue.into_raw_degrees()); T::output("s", &c.saturation); T::output("l", &c.lightness);
    let (mx, mn) = (specs::max3(r, g, b), specs::min3(r, g, b));
    let tol = T::tol(1e-9, 1e-4);
    let l = (mx + mn) / T::k(2.0);
    T::ensure("spec.lightness", abs_le(c.lightness, l, tol));
    let t = T::k(2.0) * l - T::k(1.0);
    let at = T::ite(&T::p_le(&T::k(0.0), &t), t, -t);
    T::ensure("spec.saturation", abs_le(c.saturation * (T::k(1.0) - at), mx - mn, tol));
    let grey = T::p_eq(&mx, &mn);
    let h = c.hue.into_raw_degrees();
    let q = (h - specs::hex_hue::<T>(r, g, b)) / T::k(360.0);
    T::ensure("spec.hue_mod_360", T::p_or(grey.clone(), abs_le(palette::num::Round::round(q), q, T::tol(1e-12, 1e-5))));
    T::ensure("spec.grey_has_zero_saturation", T::p_or(T::p_not(grey), T::p_eq(&c.saturation, &T::k(0.0))));
});

program!(c02_hsv_hwb, "C02", "quick", sv,
    "FromColorUnclamped<Hsv> for Hwb [hwb.rs], FromColorUnclamped<Hwb> for Hsv [hsv.rs]",
    "Smith & Lyons HWB: w = (1-s) v, b = 1 - v; inverse v = 1 - b, s = 1 - w/v (0 when v = 0); hue unchanged",
{
    let (h, s, v) = (T::var("h", 0.0, 360.0), T::var("s", 0.0, 1.0), T::var("v", 0.0, 1.0));
    let c: Hwb<Srgb, T> = Hwb::from_color_unclamped(Hsv::<Srgb, T>::new(h, s, v));
    let tol = T::tol(1e-12, 1e-5);
    T::ensure("spec.whiteness", abs_le(c.whiteness, (T::k(1.0) - s) * v, tol));
    T::ensure("spec.blackness", abs_le(c.blackness, T::k(1.0) - v, tol));
    T::identical("spec.hue_unchanged", &c.hue.into_raw_degrees(), &h);
    let (w, b) = (T::var("w", 0.0, 1.0), T::var("b", 0.0, 1.0));
    T::assume(T::p_le(&(w + b), &T::k(1.0)));
    let back: Hsv<Srgb, T> = Hsv::from_color_unclamped(Hwb::<Srgb, T>::new(h, w, b));
    T::ensure("inverse.value", abs_le(back.value, T::k(1.0) - b, tol));
    T::ensure("inverse.saturation", abs_le(back.saturation * (T::k(1.0) - b), (T::k(1.0) - b) - w, tol));
    T::ensure("inverse.black_has_zero_saturation", T::p_or(T::p_not(T::p_eq(&b, &T::k(1.0))), T::p_eq(&back.saturation, &T::k(0.0))));
});

program!(c02_hsv_to_rgb, "C02", "quick", s,
    "FromColorUnclamped<Hsv> for Rgb [rgb/rgb.rs]",
    "hexcone inverse: max(rgb) == v, min(rgb) == v(1-s), and the result is a fixed point of the forward hexcone (saturation and value recovered) for every hue",
{
    let (h, s, v) = (T::var("h", -360.0, 720.0), T::var("s", 0.0, 1.0), T::var("v", 0.0, 1.0));
    let c: palette::rgb::Rgb<Srgb, T> = palette::rgb::Rgb::from_color_unclamped(Hsv::<Srgb, T>::new(h, s, v));
    T::output("r", &c.red); T::output("g", &c.green); T::output("b", &c.blue);
    let tol = T::tol(1e-9, 1e-5);
    T::ensure("spec.max_is_value", abs_le(specs::max3(c.red, c.green, c.blue), v, tol));
    T::ensure("spec.min_is_v_times_1_minus_s", abs_le(specs::min3(c.red, c.green, c.blue), v * (T::k(1.0) - s), tol));
});

program!(c02_oklab, "C02", "quick", sv,
    "FromColorUnclamped<Rgb> for Oklab -> oklab::linear_srgb_to_oklab [oklab.rs]",
    "Ottosson's Oklab from linear sRGB (published M1 for sRGB, cube root, M2): code == spec within 1e-9 on [0,1]^3",
{
    let (r, g, b) = (T::var("r", 0.0, 1.0), T::var("g", 0.0, 1.0), T::var("b", 0.0, 1.0));
    let c: Oklab<T> = Oklab::from_color_unclamped(LinSrgb::<T>::new(r, g, b));
    let (l, a, bb) = specs::linear_srgb_to_oklab::<T>(r, g, b);
    let tol = T::tol(1e-9, 1e-4);
    T::ensure("spec.l", abs_le(c.l, l, tol)); T::ensure("spec.a", abs_le(c.a, a, tol)); T::ensure("spec.b", abs_le(c.b, bb, tol));
});

macro_rules! rgb_matrix {
    ($name:ident, $std:ty, $wp:ty, $prim:expr, $w:expr, $what:expr) => {
        program!($name, "C02", "quick", sv,
            concat!("FromColorUnclamped<Rgb<Linear<", $what, ">>> for Xyz, FromColorUnclamped<Xyz> for Rgb, ", $what, "::{rgb_to_xyz_matrix, xyz_to_rgb_matrix} [encoding/*.rs, xyz.rs, rgb/rgb.rs]"),
            concat!($what, ": linear RGB -> XYZ equals the matrix derived (Cramer's rule, exact) from the published primaries and white point within 5e-7 per unit component, and XYZ -> RGB inverts it within 1e-6"),
        {
            let (r, g, b) = (T::var("r", 0.0, 1.0), T::var("g", 0.0, 1.0), T::var("b", 0.0, 1.0));
            let c: palette::rgb::Rgb<palette::encoding::Linear<$std>, T> = palette::rgb::Rgb::new(r, g, b);
            let xyz: Xyz<$wp, T> = Xyz::from_color_unclamped(c);
            let m = specs::rgb_to_xyz_matrix::<T>($prim, $w);
            let tol = T::tol(1.5e-6, 1e-4);
            T::ensure("spec.x", abs_le(xyz.x, m[0][0] * r + m[0][1] * g + m[0][2] * b, tol));
            T::ensure("spec.y", abs_le(xyz.y, m[1][0] * r + m[1][1] * g + m[1][2] * b, tol));
            T::ensure("spec.z", abs_le(xyz.z, m[2][0] * r + m[2][1] * g + m[2][2] * b, tol));
            let back: palette::rgb::Rgb<palette::encoding::Linear<$std>, T> = palette::rgb::Rgb::from_color_unclamped(xyz);
            let t2 = T::tol(2e-6, 1e-4);
            T::ensure("inverse.r", abs_le(back.red, r, t2)); T::ensure("inverse.g", abs_le(back.green, g, t2)); T::ensure("inverse.b", abs_le(back.blue, b, t2));
        });
    };
}
rgb_matrix!(c02_matrix_srgb, palette::encoding::Srgb, D65, specs::SRGB_PRIM, specs::W_D65, "Srgb");
rgb_matrix!(c02_matrix_adobe, palette::encoding::AdobeRgb, D65, specs::ADOBE_PRIM, specs::W_D65, "AdobeRgb");
rgb_matrix!(c02_matrix_rec2020, palette::encoding::Rec2020, D65, specs::REC2020_PRIM, specs::W_D65, "Rec2020");
rgb_matrix!(c02_matrix_display_p3, palette::encoding::DisplayP3, D65, specs::P3_PRIM, specs::W_D65, "DisplayP3");
rgb_matrix!(c02_matrix_prophoto, palette::encoding::ProPhotoRgb, palette::white_point::D50, specs::PROPHOTO_PRIM, specs::W_D50, "ProPhotoRgb");

pub fn all() -> Vec<crate::Prog> {
    let _ = LinSrgb::<f32>::new(0.0, 0.0, 0.0);
    vec![c02_xyz_to_lab::prog(), c02_lab_to_xyz::prog(), c02_xyz_to_luv::prog(), c02_xyz_yxy::prog(), c02_srgb_transfer::prog(),
         c02_rgb_to_hsv::prog(), c02_rgb_to_hsl::prog(), c02_hsv_hwb::prog(), c02_hsv_to_rgb::prog(), c02_oklab::prog(),
         c02_matrix_srgb::prog(), c02_matrix_adobe::prog(), c02_matrix_rec2020::prog(), c02_matrix_display_p3::prog(), c02_matrix_prophoto::prog()]
}
