//! Contract programs (see logic.rs). `program!` instantiates the body at the concrete component
//! types; `T` is the component type inside the body.
use crate::Prog;

#[macro_export]
macro_rules! program {
    // modes: sv = scalar paths + vector term; s = scalar only (code needs Mask = bool / PartialOrd)
    ($name:ident, $prop:expr, $tier:expr, sv, $func:expr, $desc:expr, $body:block) => {
        pub mod $name {
            #[allow(unused_imports)] use super::*;
            pub fn run_s() { #[allow(dead_code)] type T = $crate::num::SymS; $body }
            pub fn run_v() { #[allow(dead_code)] type T = $crate::num::SymV; $body }
            pub fn run_f64() { #[allow(dead_code)] type T = f64; $body }
            pub fn run_f32() { #[allow(dead_code)] type T = f32; $body }
            pub fn prog() -> $crate::Prog {
                $crate::Prog { name: stringify!($name), prop: $prop, func: $func, desc: $desc, tier: $tier,
                    run_s: Some(run_s), run_v: Some(run_v), run_f64: Some(run_f64), run_f32: Some(run_f32) }
            }
        }
    };
    ($name:ident, $prop:expr, $tier:expr, s, $func:expr, $desc:expr, $body:block) => {
        pub mod $name {
            #[allow(unused_imports)] use super::*;
            pub fn run_s() { #[allow(dead_code)] type T = $crate::num::SymS; $body }
            pub fn run_f64() { #[allow(dead_code)] type T = f64; $body }
            pub fn run_f32() { #[allow(dead_code)] type T = f32; $body }
            pub fn prog() -> $crate::Prog {
                $crate::Prog { name: stringify!($name), prop: $prop, func: $func, desc: $desc, tier: $tier,
                    run_s: Some(run_s), run_v: None, run_f64: Some(run_f64), run_f32: Some(run_f32) }
            }
        }
    };
    // l = lattice only: the code cannot be instantiated at the term-building types (or no solver decides its VCs); the REAL
    // code is run natively on a stated lattice of its domain - a bounded stand-in, labelled bounded, never counted as proved
    ($name:ident, $prop:expr, $tier:expr, l, $func:expr, $desc:expr, $body:block) => {
        pub mod $name {
            #[allow(unused_imports)] use super::*;
            pub fn run_f64() { #[allow(dead_code)] type T = f64; $body }
            pub fn run_f32() { #[allow(dead_code)] type T = f32; $body }
            pub fn prog() -> $crate::Prog {
                $crate::Prog { name: stringify!($name), prop: $prop, func: $func, desc: $desc, tier: $tier,
                    run_s: None, run_v: None, run_f64: Some(run_f64), run_f32: Some(run_f32) }
            }
        }
    };
    ($name:ident, $prop:expr, $tier:expr, v, $func:expr, $desc:expr, $body:block) => {
        pub mod $name {
            #[allow(unused_imports)] use super::*;
            pub fn run_v() { #[allow(dead_code)] type T = $crate::num::SymV; $body }
            pub fn run_f64() { #[allow(dead_code)] type T = f64; $body }
            pub fn run_f32() { #[allow(dead_code)] type T = f32; $body }
            pub fn prog() -> $crate::Prog {
                $crate::Prog { name: stringify!($name), prop: $prop, func: $func, desc: $desc, tier: $tier,
                    run_s: None, run_v: Some(run_v), run_f64: Some(run_f64), run_f32: Some(run_f32) }
            }
        }
    };
}

pub mod c01;
pub mod c02;
pub mod c05;
pub mod c07;
pub mod c08;
pub mod c09;
pub mod c10;
pub mod c14;
pub mod c15;
pub mod c16;
pub mod c17;
pub mod c19;
pub mod pairs;
pub mod edges;
pub mod lattice;
pub mod ok;

pub fn all() -> Vec<Prog> {
    let mut v = Vec::new();
    v.extend(c01::all());
    v.extend(c02::all());
    v.extend(c05::all());
    v.extend(c07::all());
    v.extend(c08::all());
    v.extend(c09::all());
    v.extend(c10::all());
    v.extend(c14::all());
    v.extend(c15::all());
    v.extend(c16::all());
    v.extend(c17::all());
    v.extend(c19::all());
    v.extend(pairs::all());
    v.extend(edges::all());
    v.extend(lattice::all());
    v.extend(ok::all());
    v
}
