//! C17: the vector counterpart of a scalar component type.
//!   SymS -> SymV   (same variables; `Mask = SymMask`, select builds `ite`: what palette's generic code
//!                   computes in every lane of a SIMD instantiation)
//!   f64  -> wide::f64x4, f32 -> wide::f32x4   (replay: the REAL SIMD instantiation; the counterexample sits
//!                   in lane 1, the other lanes carry different values so that lanes take different branches)
use crate::logic::Num;
use crate::num::{SymS, SymV};

pub trait Lane: Num {
    type W: Copy;
    fn lift(self) -> Self::W;
    fn lower(w: Self::W) -> Self;
}
impl Lane for SymS {
    type W = SymV;
    fn lift(self) -> SymV { SymV(self.0) }
    fn lower(w: SymV) -> SymS { SymS(w.0) }
}
impl Lane for f64 {
    type W = wide::f64x4;
    fn lift(self) -> wide::f64x4 { wide::f64x4::from([0.0, self, 1.0 - self, self * 0.5 + 0.25]) }
    fn lower(w: wide::f64x4) -> f64 { w.to_array()[1] }
}
impl Lane for f32 {
    type W = wide::f32x4;
    fn lift(self) -> wide::f32x4 { wide::f32x4::from([0.0, self, 1.0 - self, self * 0.5 + 0.25]) }
    fn lower(w: wide::f32x4) -> f32 { w.to_array()[1] }
}
