//! C07 (bit-precise part) — arithmetic-only conversions return finite components for every in-range f32 input
//! whose components are exactly on a bound or at least 1e-9 of the range away from it.
//! (Functions through powf/cbrt/trig are engine S definedness obligations under M1.)
use crate::gen::Gen;
use palette::convert::FromColorUnclamped;
use palette::encoding::Srgb as SrgbStd;
use palette::{Hsl, Hsv, Hwb, Srgb};

fn unit<G: Gen>(g: &mut G) -> f32 {
    let x = g.f32();
    // in [0,1], and exactly 0, exactly 1, or at least 1e-9 inside
    g.assume(x >= 0.0 && x <= 1.0 && (x == 0.0 || x == 1.0 || (x >= 1.0e-9 && x <= 1.0 - 1.0e-9)));
    x
}

harnesses! { REG, "C07", "c07";
    { id: "finite.rgb_to_hsv_f32", tier: quick, label: "complete",
      func: "FromColorUnclamped<Rgb> for Hsv [hsv.rs] (scalar branch, f32)",
      desc: "for all in-range f32 RGB: hue, saturation, value are finite (no NaN/inf from the guarded divisions)" }
    fn rgb_to_hsv(g) {
        let (r, gr, b) = (unit(g), unit(g), unit(g));
        cov!(g, r > gr && gr > b);
        let c: Hsv<SrgbStd, f32> = Hsv::from_color_unclamped(Srgb::new(r, gr, b));
        ob!("finite.hue", c.hue.into_raw_degrees().is_finite());
        ob!("finite.saturation", c.saturation.is_finite());
        ob!("finite.value", c.value.is_finite());
    }
    { id: "finite.rgb_to_hsl_f32", tier: quick, label: "complete",
      func: "FromColorUnclamped<Rgb> for Hsl [hsl.rs] (scalar branch, f32)",
      desc: "for all in-range f32 RGB: hue, saturation, lightness are finite" }
    fn rgb_to_hsl(g) {
        let (r, gr, b) = (unit(g), unit(g), unit(g));
        cov!(g, r > gr && gr > b);
        let c: Hsl<SrgbStd, f32> = Hsl::from_color_unclamped(Srgb::new(r, gr, b));
        ob!("finite.hue", c.hue.into_raw_degrees().is_finite());
        ob!("finite.saturation", c.saturation.is_finite());
        ob!("finite.lightness", c.lightness.is_finite());
    }
    { id: "finite.hsv_hwb_hsl_f32", tier: quick, label: "complete",
      func: "FromColorUnclamped<Hsv> for Hwb, <Hwb> for Hsv, <Hsv> for Hsl, <Hsl> for Hsv [hwb.rs, hsv.rs, hsl.rs] (f32)",
      desc: "for all in-range f32 inputs (incl. value 0, blackness 1, lightness 0 and 1): every output component is finite" }
    fn cylinders(g) {
        let (s, v) = (unit(g), unit(g));
        cov!(g, v == 0.0);
        cov!(g, s > 0.5);
        let hsv: Hsv<SrgbStd, f32> = Hsv::new(120.0, s, v);
        let w: Hwb<SrgbStd, f32> = Hwb::from_color_unclamped(hsv);
        ob!("finite.hsv_to_hwb", w.whiteness.is_finite() && w.blackness.is_finite());
        let l: Hsl<SrgbStd, f32> = Hsl::from_color_unclamped(hsv);
        ob!("finite.hsv_to_hsl", l.saturation.is_finite() && l.lightness.is_finite());
        let back: Hsv<SrgbStd, f32> = Hsv::from_color_unclamped(Hsl::<SrgbStd, f32>::new(120.0, s, v));
        ob!("finite.hsl_to_hsv", back.saturation.is_finite() && back.value.is_finite());
        let (wh, bl) = (unit(g), unit(g));
        g.assume(wh + bl <= 1.0);
        let k: Hsv<SrgbStd, f32> = Hsv::from_color_unclamped(Hwb::<SrgbStd, f32>::new(120.0, wh, bl));
        ob!("finite.hwb_to_hsv", k.saturation.is_finite() && k.value.is_finite());
    }
}

pub fn registry() -> Vec<&'static crate::macros::Entry> { REG.iter().collect() }
