//! C13 — in-place conversion and guards (convert/from_into_color_mut.rs, from_into_color_unclamped_mut.rs,
//! cast::map_vec_in_place / map_slice_box_in_place, FromColor for Vec / Box<[T]>).
//!
//! The machinery is generic, so it is proved against contract-level colour types: three `repr(C)` structs
//! over `[u32; 3]` (ArrayCast derived by palette's own derive) whose conversions are cheap, pairwise
//! distinguishable maps and whose `clamp` is NOT the identity, so that clamped and unclamped chains,
//! single-step and multi-step restores are all told apart, for ALL element values.
//!   G1  value seen through the guard == out-of-place conversion; the guard views the same address
//!   G2  writes through the guard are in the buffer; drop leaves U::from_color(current contents)
//!   G3  restore() returns the original place holding U::from_color(current), converted back ONCE
//!   G4  mem::forget leaves the converted state
//!   G5  then_into_color_mut / then_into_color_unclamped_mut chain from the CURRENT type, without restoring
//!   G6  into_unclamped_guard / into_clamped_guard keep the contents and switch the restore conversion
//!   B1  slices, Vec and Box<[T]>: element-wise the same as out-of-place, same pointer, length and capacity
use crate::gen::Gen;
use palette::cast::ArrayCast;
use palette::convert::{FromColor, FromColorMut, FromColorUnclamped, FromColorUnclampedMut, IntoColorMut, IntoColorUnclampedMut};
use palette::Clamp;

macro_rules! ctype {
    ($n:ident, $lim:expr) => {
        #[derive(Clone, Copy, PartialEq, Eq, Debug, ArrayCast)]
        #[repr(C)]
        pub struct $n { pub x: u32, pub y: u32, pub z: u32 }
        impl Clamp for $n {
            fn clamp(self) -> Self { $n { x: if self.x > $lim { $lim } else { self.x }, y: self.y, z: self.z } }
        }
        impl FromColorUnclamped<$n> for $n { fn from_color_unclamped(c: $n) -> $n { c } }
    };
}
ctype!(A, 1000);
ctype!(B, 2000);
ctype!(C, 3000);
// pairwise distinguishable, non-commuting maps (wrapping arithmetic on u32)
impl FromColorUnclamped<A> for B { fn from_color_unclamped(c: A) -> B { B { x: c.x.wrapping_add(1), y: c.y ^ 0x55, z: c.z } } }
impl FromColorUnclamped<B> for A { fn from_color_unclamped(c: B) -> A { A { x: c.x.wrapping_sub(1), y: c.y ^ 0x55, z: c.z } } }
impl FromColorUnclamped<B> for C { fn from_color_unclamped(c: B) -> C { C { x: c.y, y: c.z, z: c.x.wrapping_mul(3) } } }
impl FromColorUnclamped<C> for B { fn from_color_unclamped(c: C) -> B { B { x: c.z.wrapping_add(7), y: c.x, z: c.y } } }
impl FromColorUnclamped<A> for C { fn from_color_unclamped(c: A) -> C { C { x: c.z, y: c.x.wrapping_add(11), z: c.y } } }
impl FromColorUnclamped<C> for A { fn from_color_unclamped(c: C) -> A { A { x: c.y.wrapping_sub(11), y: c.z, z: c.x ^ 0x0f } } }

fn any_a<G: Gen>(g: &mut G) -> A { A { x: g.u32(), y: g.u32(), z: g.u32() } }

harnesses! { REG_SINGLE, "C13", "c13";
    { id: "single.guard_deref_mutate_drop", tier: quick, label: "complete",
      func: "impl FromColorMut<U> for T, FromColorMutGuard::{deref, deref_mut, drop} [convert/from_into_color_mut.rs]",
      desc: "G1+G2 for all element values: the guard shows T::from_color(original) at the original address; a write through the guard is in place; drop leaves U::from_color(current) (one conversion back, clamped)" }
    fn single_drop(g) {
        let a0 = any_a(g);
        let v = g.u32();
        cov!(g, a0.x > 5000);
        let mut a = a0;
        let addr = &a as *const A as usize;
        {
            let mut guard = B::from_color_mut(&mut a);
            ob!("G1.guard_shows_out_of_place_conversion", *guard == B::from_color(a0));
            ob!("G1.same_address", &*guard as *const B as usize == addr);
            guard.y = v;
            ob!("G2.write_visible_through_guard", guard.y == v && guard.x == B::from_color(a0).x);
        }
        let cur = B { y: v, ..B::from_color(a0) };
        ob!("G2.drop_restores_from_current_contents", a == A::from_color(cur));
    }

    { id: "single.restore_and_forget", tier: quick, label: "complete",
      func: "FromColorMutGuard::restore, mem::forget(guard), IntoColorMut::into_color_mut",
      desc: "G3+G4: restore() yields the original place (same address) holding U::from_color(current), converted back exactly once; forgetting the guard leaves the converted value in the buffer" }
    fn single_restore_forget(g) {
        let a0 = any_a(g);
        let v = g.u32();
        cov!(g, a0.x > 5000);
        let mut a = a0;
        let addr = &a as *const A as usize;
        {
            let mut guard = <A as IntoColorMut<B>>::into_color_mut(&mut a);
            guard.z = v;
            let r: &mut A = guard.restore();
            ob!("G3.restore_same_address", r as *const A as usize == addr);
            ob!("G3.restore_is_single_conversion_of_current", *r == A::from_color(B { z: v, ..B::from_color(a0) }));
        }
        ob!("G3.after_restore_buffer_holds_original_type", a == A::from_color(B { z: v, ..B::from_color(a0) }));
        let mut a2 = a0;
        core::mem::forget(B::from_color_mut(&mut a2));
        let seen: &B = palette::cast::from_array_ref(palette::cast::into_array_ref(&a2));
        ob!("G4.forget_leaves_converted_state", *seen == B::from_color(a0));
    }

    { id: "single.chains", tier: quick, label: "complete",
      func: "FromColorMutGuard::{then_into_color_mut, then_into_color_unclamped_mut, into_unclamped_guard}, FromColorUnclampedMutGuard::{then_into_color_mut, into_clamped_guard, restore} [convert/from_into_color_mut.rs, from_into_color_unclamped_mut.rs]",
      desc: "G5+G6 for all element values and a write between the steps: each further conversion starts from the CURRENT type and contents (never via a restore), clamped or unclamped as named; the final drop converts back to the original type in a single step with the guard's own (clamped/unclamped) conversion" }
    fn single_chains(g) {
        let a0 = any_a(g);
        let v = g.u32();
        cov!(g, a0.x > 5000 && v > 5000);
        // clamped chain A -> B -> C, drop
        let mut a = a0;
        {
            let mut gb = B::from_color_mut(&mut a);
            gb.x = v;
            let gc = gb.then_into_color_mut::<C>();
            ob!("G5.then_into_color_mut_from_current", *gc == C::from_color(B { x: v, ..B::from_color(a0) }));
        }
        ob!("G5.clamped_chain_drop_single_step_back", a == A::from_color(C::from_color(B { x: v, ..B::from_color(a0) })));
        // mixed chain: clamped guard, then unclamped step (must NOT detour through restore/clamp)
        let mut a = a0;
        {
            let mut gb = B::from_color_mut(&mut a);
            gb.x = v;
            let gc = gb.then_into_color_unclamped_mut::<C>();
            ob!("G5.then_into_color_unclamped_mut_from_current", *gc == C::from_color_unclamped(B { x: v, ..B::from_color(a0) }));
        }
        ob!("G5.mixed_chain_drop_uses_unclamped_back", a == A::from_color_unclamped(C::from_color_unclamped(B { x: v, ..B::from_color(a0) })));
        // switching the kind of guard keeps the contents
        let mut a = a0;
        {
            let gb = B::from_color_mut(&mut a);
            let gu = gb.into_unclamped_guard();
            ob!("G6.into_unclamped_guard_keeps_contents", *gu == B::from_color(a0));
        }
        ob!("G6.unclamped_guard_restores_unclamped", a == A::from_color_unclamped(B::from_color(a0)));
        let mut a = a0;
        {
            let gu = B::from_color_unclamped_mut(&mut a);
            ob!("G1.unclamped_guard_shows_unclamped_conversion", *gu == B::from_color_unclamped(a0));
            let gcl = gu.into_clamped_guard();
            ob!("G6.into_clamped_guard_keeps_contents", *gcl == B::from_color_unclamped(a0));
        }
        ob!("G6.clamped_guard_restores_clamped", a == A::from_color(B::from_color_unclamped(a0)));
        // unclamped chain with restore
        let mut a = a0;
        {
            let gu = <A as IntoColorUnclampedMut<B>>::into_color_unclamped_mut(&mut a);
            let gc = gu.then_into_color_unclamped_mut::<C>();
            let r = gc.restore();
            ob!("G3.unclamped_chain_restore_single_step", *r == A::from_color_unclamped(C::from_color_unclamped(B::from_color_unclamped(a0))));
        }
    }
}

fn make_vec<G: Gen>(g: &mut G, cap: usize, n: usize) -> Vec<A> {
    let mut v: Vec<A> = Vec::with_capacity(cap);
    let mut i = 0;
    while i < n { v.push(any_a(g)); i += 1; }
    v
}

harnesses! { REG_BUF, "C13", "c13";
    { id: "slice.guard", tier: quick, label: "bounded(len<=3)",
      func: "impl FromColorMut<[U]> for [T], guard over slices [convert/from_into_color_mut.rs], cast::{into_array_slice_mut, from_array_slice_mut}",
      desc: "B1+G2 for every length 0..=3 and all element values: the guard is a slice of the same address and length with element-wise converted colours; a write through it lands in place; drop restores every element from its current contents" }
    #[kani::unwind(5)]
    fn slice_guard(g) {
        let n = g.usize();
        g.assume(n <= 3);
        cov!(g, n == 3);
        cov!(g, n == 0);
        let mut buf = [A { x: 0, y: 0, z: 0 }; 3];
        let mut i = 0;
        while i < 3 { buf[i] = any_a(g); i += 1; }
        let orig = buf;
        let addr = buf.as_ptr() as usize;
        let k = g.usize();
        let v = g.u32();
        {
            let mut guard = <[B]>::from_color_mut(&mut buf[..n]);
            ob!("B1.same_address_and_length", guard.as_ptr() as usize == addr && guard.len() == n);
            let mut i = 0;
            while i < n { ob!("B1.elementwise_out_of_place", guard[i] == B::from_color(orig[i])); i += 1; }
            if k < n { guard[k].y = v; }
        }
        let mut i = 0;
        while i < 3 {
            let want = if i < n { let mut b = B::from_color(orig[i]); if i == k { b.y = v; } A::from_color(b) } else { orig[i] };
            ob!("G2.drop_restores_each_element_and_frames_the_rest", buf[i] == want);
            i += 1;
        }
    }

}

fn vec_case<G: Gen>(g: &mut G, n: usize, cap: usize) {
    cov!(g, true);
    let v = make_vec(g, cap, n);
    let (p0, l0, c0) = (v.as_ptr() as usize, v.len(), v.capacity());
    let first = if n > 0 { Some(v[0]) } else { None };
    let last = if n > 0 { Some(v[n - 1]) } else { None };
    let out: Vec<B> = Vec::<B>::from_color(v);
    ob!("B1.same_pointer_length_capacity", out.as_ptr() as usize == p0 && out.len() == l0 && out.capacity() == c0);
    if let (Some(f), Some(l)) = (first, last) {
        ob!("B1.elementwise_out_of_place", out[0] == B::from_color(f) && out[n - 1] == B::from_color(l));
    }
    let back: Vec<A> = Vec::<A>::from_color_unclamped(out);
    ob!("B1.unclamped_vec_same_pointer_length_capacity", back.as_ptr() as usize == p0 && back.len() == l0 && back.capacity() == c0);
    if let Some(f) = first { ob!("B1.unclamped_elementwise", back[0] == A::from_color_unclamped(B::from_color(f))); }
}

fn box_case<G: Gen>(g: &mut G, n: usize) {
    cov!(g, true);
    let v = make_vec(g, n, n);
    let first = if n > 0 { Some(v[0]) } else { None };
    let b: Box<[A]> = v.into_boxed_slice();
    let (p0, l0) = (b.as_ptr() as usize, b.len());
    let out: Box<[B]> = Box::<[B]>::from_color(b);
    ob!("B1.same_pointer_and_length", out.len() == l0 && (l0 == 0 || out.as_ptr() as usize == p0));
    if let Some(f) = first { ob!("B1.elementwise_out_of_place", out[0] == B::from_color(f)); }
}

macro_rules! vec_cases {
    ($($name:ident: $n:expr, $cap:expr);* $(;)?) => {
        harnesses! { REG_VECS, "C13", "c13";
            $(
            { id: concat!("vec.from_color.len", stringify!($n), "_cap", stringify!($cap)), tier: quick, label: concat!("bounded(len=", stringify!($n), ", capacity=", stringify!($cap), ")"),
              func: "impl FromColor<Vec<T>> for Vec<U>, impl FromColorUnclamped<Vec<T>> for Vec<U> -> cast::map_vec_in_place [convert/from_into_color.rs, cast/array.rs]",
              desc: "B1 for all element values at this (len, capacity): the converted Vec reuses the allocation (same pointer, length AND capacity, spare capacity included) and holds element-wise the out-of-place conversion" }
            #[kani::unwind(4)]
            fn $name(g) { vec_case(g, $n, $cap) }
            )*
            { id: "box.from_color.len0", tier: quick, label: "bounded(len=0)",
              func: "impl FromColor<Box<[T]>> for Box<[U]> -> cast::map_slice_box_in_place", desc: "B1 for the empty boxed slice" }
            #[kani::unwind(4)]
            fn box_0(g) { box_case(g, 0) }
            { id: "box.from_color.len2", tier: quick, label: "bounded(len=2)",
              func: "impl FromColor<Box<[T]>> for Box<[U]> -> cast::map_slice_box_in_place [convert/from_into_color.rs, cast/array.rs]",
              desc: "B1 for all element values: same allocation (pointer, length), element-wise the out-of-place conversion" }
            #[kani::unwind(4)]
            fn box_2(g) { box_case(g, 2) }
        }
    };
}
vec_cases! { vec_0_0: 0, 0; vec_0_3: 0, 3; vec_1_4: 1, 4; vec_2_2: 2, 2; vec_2_5: 2, 5; }

pub fn registry() -> Vec<&'static crate::macros::Entry> {
    REG_SINGLE.iter().chain(REG_BUF.iter()).chain(REG_VECS.iter()).collect()
}
