//! `harnesses!` declares a group of contract obligations. Each entry becomes
//!   * `mod <name> { pub fn body<G: Gen>(g: &mut G) }`   the obligation itself,
//!   * `<name>::proof`  a `#[kani::proof]` running the body on `kani::any()` inputs,
//!   * a registry entry (metadata + the body instantiated for native replay).

#[derive(Clone, Copy)]
pub struct Entry {
    pub prop: &'static str,
    pub harness: &'static str,
    pub id: &'static str,
    pub tier: &'static str,
    /// complete | bounded(n)
    pub label: &'static str,
    /// the function(s) of /repo under contract
    pub func: &'static str,
    pub desc: &'static str,
    pub run: fn(&mut crate::gen::Bytes),
}

#[macro_export]
macro_rules! harnesses {
    (
        $reg:ident, $prop:expr, $modpath:expr;
        $(
            { id: $id:expr, tier: $tier:ident, label: $label:expr, func: $func:expr, desc: $desc:expr $(,)? }
            $(#[$attr:meta])*
            fn $name:ident ($g:ident) $body:block
        )*
    ) => {
        $(
            pub mod $name {
                #[allow(unused_imports)]
                use super::*;
                #[allow(unused_variables, unused_mut)]
                pub fn body<G: $crate::gen::Gen>($g: &mut G) $body

                #[cfg(kani)]
                #[kani::proof]
                $(#[$attr])*
                pub fn proof() {
                    body(&mut $crate::gen::K);
                    // reachability witness at the END of the harness: if a verifier-internal assumption (e.g. Kani's treatment of float
                    // SIMD arithmetic) cuts every execution short, the obligations above pass vacuously; the driver requires this cover
                    kani::cover!(true, "VACUITY-GUARD");
                }
            }
        )*
        pub const $reg: &[$crate::macros::Entry] = &[
            $(
                $crate::macros::Entry {
                    prop: $prop,
                    harness: concat!($modpath, "::", stringify!($name), "::proof"),
                    id: $id,
                    tier: stringify!($tier),
                    label: $label,
                    func: $func,
                    desc: $desc,
                    run: $name::body::<$crate::gen::Bytes>,
                },
            )*
        ];
    };
}

/// A named obligation inside a harness. The message is what the driver keys on.
#[macro_export]
macro_rules! ob {
    ($name:literal, $cond:expr) => {
        assert!($cond, concat!("OB:", $name))
    };
}

/// An obligation inside a loop that legitimately runs zero times for some instantiations (e.g. "other fields untouched" for a
/// type without other fields): same assertion, no reachability witness.
#[macro_export]
macro_rules! obq {
    ($name:literal, $cond:expr) => {
        assert!($cond, concat!("OB:", $name))
    };
}

/// Reachability witness at the call site (distinct source location per cover, so Kani reports each
/// one separately): the driver requires every cover to be SATISFIED, so a contradictory `assume`
/// cannot make an obligation pass vacuously.
#[macro_export]
macro_rules! cov {
    ($g:ident, $c:expr) => {{
        #[cfg(kani)]
        kani::cover!($c, "VACUITY-GUARD");
        #[cfg(not(kani))]
        {
            let _ = &$g;
            let _ = $c;
        }
    }};
}
