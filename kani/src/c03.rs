//! C03 — clamp / is_within_bounds / FromColor / TryFromColor obey one bounds contract.
//!
//! Contracts (per type implementing Clamp/ClampAssign/IsWithinBounds), for all
//! finite component combinations (every bit pattern, independently per field):
//!   B1  is_within_bounds(clamp(c))
//!   B2  is_within_bounds(c) ==> clamp(c) == c
//!   B3  clamp(clamp(c)) == clamp(c)
//!   B4  every clamped component is in [min_x(), max_x()] of the documented
//!       accessors and equals the bound it crossed; unclamped fields are untouched
//!   B5  clamp_assign(c) == clamp(c)
//!   B6  is_within_bounds(c) <=> every component within the accessor bounds
//! Blanket impls (caller checked against callee *contracts*):
//!   C1  U::from_color(t) == U::from_color_unclamped(t).clamp()
//!   C2  U::try_from_color(t) is Ok(v) iff within(v); v is the unclamped value in
//!       both the Ok and the OutOfBounds::color() case.
use crate::gen::Gen;
use palette::cam16::{
    Cam16, Cam16Jch, Cam16Jmh, Cam16Jsh, Cam16Qch, Cam16Qmh, Cam16Qsh, Cam16UcsJab, Cam16UcsJmh,
};
use palette::convert::{FromColor, FromColorUnclamped, TryFromColor};
use palette::encoding::Srgb as SrgbStd;
use palette::white_point::D65;
use palette::lms::Lms;
use palette::luma::Luma;
use palette::{
    Alpha, Clamp, ClampAssign, Hsl, Hsluv, Hsv, Hwb, IsWithinBounds, Lab, Lch, Lchuv, Luv,
    Okhsl, Okhsv, Okhwb, Oklab, Oklch, Srgb, Xyz, Yxy,
};

/// Scalar component under test.
pub trait Sc: Copy + PartialOrd + core::fmt::Debug {
    fn any_finite<G: Gen>(g: &mut G) -> Self;
}
impl Sc for f32 {
    fn any_finite<G: Gen>(g: &mut G) -> Self {
        let x = g.f32();
        g.assume(x.is_finite());
        x
    }
}
impl Sc for f64 {
    fn any_finite<G: Gen>(g: &mut G) -> Self {
        let x = g.f64();
        g.assume(x.is_finite());
        x
    }
}
impl Sc for u8 {
    fn any_finite<G: Gen>(g: &mut G) -> Self { g.u8() }
}
impl Sc for u16 {
    fn any_finite<G: Gen>(g: &mut G) -> Self { g.u16() }
}

/// Description of a clampable colour type for the generic contract suite.
pub trait Bd: Clamp + ClampAssign + IsWithinBounds<Mask = bool> + Copy {
    type S: Sc;
    /// number of clamped components / of untouched scalar fields
    const N: usize;
    const M: usize;
    fn make<G: Gen>(g: &mut G) -> Self;
    fn comp(&self, i: usize) -> Self::S;
    fn lo(i: usize) -> Self::S;
    fn hi(i: usize) -> Option<Self::S>;
    fn other(&self, j: usize) -> Self::S;
}

macro_rules! bd {
    (
        $ty:ty, $s:ty;
        make |$g:ident| $make:expr;
        comps { $($ci:literal => $cf:ident [$lo:expr, $hi:expr]),* }
        others { $($oi:literal => |$oc:ident| $oe:expr),* }
    ) => {
        impl Bd for $ty {
            type S = $s;
            const N: usize = 0 $(+ { let _ = $ci; 1 })*;
            const M: usize = 0 $(+ { let _ = $oi; 1 })*;
            fn make<G: Gen>($g: &mut G) -> Self { $make }
            #[allow(unused_variables)]
            fn comp(&self, i: usize) -> $s {
                match i { $($ci => self.$cf,)* _ => unreachable!() }
            }
            #[allow(unused_variables)]
            fn lo(i: usize) -> $s {
                match i { $($ci => $lo,)* _ => unreachable!() }
            }
            #[allow(unused_variables)]
            fn hi(i: usize) -> Option<$s> {
                match i { $($ci => $hi,)* _ => unreachable!() }
            }
            #[allow(unused_variables)]
            fn other(&self, j: usize) -> $s {
                match j { $($oi => { let $oc = self; $oe })* _ => unreachable!() }
            }
        }
    };
}

fn f<S: Sc, G: Gen>(g: &mut G) -> S { S::any_finite(g) }

macro_rules! bd_float {
    ($t:ty) => {
        bd!(Srgb<$t>, $t; make |g| Srgb::new(f(g), f(g), f(g));
            comps { 0 => red [Self::min_red(), Some(Self::max_red())],
                    1 => green [Self::min_green(), Some(Self::max_green())],
                    2 => blue [Self::min_blue(), Some(Self::max_blue())] }
            others { });
        bd!(Luma<SrgbStd, $t>, $t; make |g| Luma::new(f(g));
            comps { 0 => luma [Self::min_luma(), Some(Self::max_luma())] }
            others { });
        bd!(Hsl<SrgbStd, $t>, $t; make |g| Hsl::new(f::<$t, G>(g), f(g), f(g));
            comps { 0 => saturation [Self::min_saturation(), Some(Self::max_saturation())],
                    1 => lightness [Self::min_lightness(), Some(Self::max_lightness())] }
            others { 0 => |c| c.hue.into_raw_degrees() });
        bd!(Hsv<SrgbStd, $t>, $t; make |g| Hsv::new(f::<$t, G>(g), f(g), f(g));
            comps { 0 => saturation [Self::min_saturation(), Some(Self::max_saturation())],
                    1 => value [Self::min_value(), Some(Self::max_value())] }
            others { 0 => |c| c.hue.into_raw_degrees() });
        bd!(Lab<D65, $t>, $t; make |g| Lab::new(f(g), f(g), f(g));
            comps { 0 => l [Self::min_l(), Some(Self::max_l())],
                    1 => a [Self::min_a(), Some(Self::max_a())],
                    2 => b [Self::min_b(), Some(Self::max_b())] }
            others { });
        bd!(Lch<D65, $t>, $t; make |g| Lch::new(f(g), f(g), f::<$t, G>(g));
            comps { 0 => l [Self::min_l(), Some(Self::max_l())],
                    1 => chroma [Self::min_chroma(), None] }
            others { 0 => |c| c.hue.into_raw_degrees() });
        bd!(Luv<D65, $t>, $t; make |g| Luv::new(f(g), f(g), f(g));
            comps { 0 => l [Self::min_l(), Some(Self::max_l())],
                    1 => u [Self::min_u(), Some(Self::max_u())],
                    2 => v [Self::min_v(), Some(Self::max_v())] }
            others { });
        bd!(Lchuv<D65, $t>, $t; make |g| Lchuv::new(f(g), f(g), f::<$t, G>(g));
            comps { 0 => l [Self::min_l(), Some(Self::max_l())],
                    1 => chroma [Self::min_chroma(), Some(Self::max_chroma())] }
            others { 0 => |c| c.hue.into_raw_degrees() });
        bd!(Hsluv<D65, $t>, $t; make |g| Hsluv::new(f::<$t, G>(g), f(g), f(g));
            comps { 0 => saturation [Self::min_saturation(), Some(Self::max_saturation())],
                    1 => l [Self::min_l(), Some(Self::max_l())] }
            others { 0 => |c| c.hue.into_raw_degrees() });
        bd!(Xyz<D65, $t>, $t; make |g| Xyz::new(f(g), f(g), f(g));
            comps { 0 => x [Self::min_x(), Some(Self::max_x())],
                    1 => y [Self::min_y(), Some(Self::max_y())],
                    2 => z [Self::min_z(), Some(Self::max_z())] }
            others { });
        bd!(Yxy<D65, $t>, $t; make |g| Yxy::new(f(g), f(g), f(g));
            comps { 0 => x [Self::min_x(), Some(Self::max_x())],
                    1 => y [Self::min_y(), Some(Self::max_y())],
                    2 => luma [Self::min_luma(), Some(Self::max_luma())] }
            others { });
        bd!(Lms<palette::lms::matrix::Bradford, $t>, $t; make |g| Lms::new(f(g), f(g), f(g));
            comps { 0 => long [Self::min_long(), None],
                    1 => medium [Self::min_medium(), None],
                    2 => short [Self::min_short(), None] }
            others { });
        bd!(Oklab<$t>, $t; make |g| Oklab::new(f(g), f(g), f(g));
            comps { 0 => l [Self::min_l(), Some(Self::max_l())] }
            others { 0 => |c| c.a, 1 => |c| c.b });
        bd!(Oklch<$t>, $t; make |g| Oklch::new(f(g), f(g), f::<$t, G>(g));
            comps { 0 => l [Self::min_l(), Some(Self::max_l())],
                    1 => chroma [Self::min_chroma(), None] }
            others { 0 => |c| c.hue.into_raw_degrees() });
        bd!(Okhsl<$t>, $t; make |g| Okhsl::new(f::<$t, G>(g), f(g), f(g));
            comps { 0 => saturation [Self::min_saturation(), Some(Self::max_saturation())],
                    1 => lightness [Self::min_lightness(), Some(Self::max_lightness())] }
            others { 0 => |c| c.hue.into_raw_degrees() });
        bd!(Cam16UcsJab<$t>, $t; make |g| Cam16UcsJab::new(f(g), f(g), f(g));
            comps { 0 => lightness [Self::min_lightness(), Some(Self::max_lightness())] }
            others { 0 => |c| c.a, 1 => |c| c.b });
        bd!(Cam16UcsJmh<$t>, $t; make |g| Cam16UcsJmh::new(f(g), f(g), f::<$t, G>(g));
            comps { 0 => lightness [Self::min_lightness(), Some(Self::max_lightness())],
                    1 => colorfulness [Self::min_colorfulness(), None] }
            others { 0 => |c| c.hue.into_raw_degrees() });
        bd!(Cam16<$t>, $t; make |g| Cam16 { lightness: f(g), chroma: f(g), hue: f::<$t, G>(g).into(),
                                            brightness: f(g), colorfulness: f(g), saturation: f(g) };
            comps { 0 => lightness [0.0, None], 1 => chroma [0.0, None], 2 => brightness [0.0, None],
                    3 => colorfulness [0.0, None], 4 => saturation [0.0, None] }
            others { 0 => |c| c.hue.into_raw_degrees() });
        bd!(Cam16Jch<$t>, $t; make |g| Cam16Jch::new(f(g), f(g), f::<$t, G>(g));
            comps { 0 => lightness [0.0, None], 1 => chroma [0.0, None] }
            others { 0 => |c| c.hue.into_raw_degrees() });
        bd!(Cam16Jmh<$t>, $t; make |g| Cam16Jmh::new(f(g), f(g), f::<$t, G>(g));
            comps { 0 => lightness [0.0, None], 1 => colorfulness [0.0, None] }
            others { 0 => |c| c.hue.into_raw_degrees() });
        bd!(Cam16Jsh<$t>, $t; make |g| Cam16Jsh::new(f(g), f(g), f::<$t, G>(g));
            comps { 0 => lightness [0.0, None], 1 => saturation [0.0, None] }
            others { 0 => |c| c.hue.into_raw_degrees() });
        bd!(Cam16Qch<$t>, $t; make |g| Cam16Qch::new(f(g), f(g), f::<$t, G>(g));
            comps { 0 => brightness [0.0, None], 1 => chroma [0.0, None] }
            others { 0 => |c| c.hue.into_raw_degrees() });
        bd!(Cam16Qmh<$t>, $t; make |g| Cam16Qmh::new(f(g), f(g), f::<$t, G>(g));
            comps { 0 => brightness [0.0, None], 1 => colorfulness [0.0, None] }
            others { 0 => |c| c.hue.into_raw_degrees() });
        bd!(Cam16Qsh<$t>, $t; make |g| Cam16Qsh::new(f(g), f(g), f::<$t, G>(g));
            comps { 0 => brightness [0.0, None], 1 => saturation [0.0, None] }
            others { 0 => |c| c.hue.into_raw_degrees() });
    };
}
bd_float!(f32);
bd_float!(f64);

// Okhsv documents its bounds through min_/max_ accessors, but clamps to max + slack
// (MAX_SRGB_SATURATION_INACCURACY); both sides of the contract use the same
// expression, taken here from the accessors plus the published slack constant.
const OKHSV_SLACK: f64 = 1e-6;
bd!(Okhsv<f32>, f32; make |g| Okhsv::new(f::<f32, G>(g), f(g), f(g));
    comps { 0 => saturation [Self::min_saturation(), Some(Self::max_saturation() + OKHSV_SLACK as f32)],
            1 => value [Self::min_value(), Some(Self::max_value() + OKHSV_SLACK as f32)] }
    others { 0 => |c| c.hue.into_raw_degrees() });
bd!(Okhsv<f64>, f64; make |g| Okhsv::new(f::<f64, G>(g), f(g), f(g));
    comps { 0 => saturation [Self::min_saturation(), Some(Self::max_saturation() + OKHSV_SLACK)],
            1 => value [Self::min_value(), Some(Self::max_value() + OKHSV_SLACK)] }
    others { 0 => |c| c.hue.into_raw_degrees() });

bd!(Srgb<u8>, u8; make |g| Srgb::new(f(g), f(g), f(g));
    comps { 0 => red [Self::min_red(), Some(Self::max_red())],
            1 => green [Self::min_green(), Some(Self::max_green())],
            2 => blue [Self::min_blue(), Some(Self::max_blue())] }
    others { });
bd!(Srgb<u16>, u16; make |g| Srgb::new(f(g), f(g), f(g));
    comps { 0 => red [Self::min_red(), Some(Self::max_red())],
            1 => green [Self::min_green(), Some(Self::max_green())],
            2 => blue [Self::min_blue(), Some(Self::max_blue())] }
    others { });
bd!(Luma<SrgbStd, u8>, u8; make |g| Luma::new(f(g));
    comps { 0 => luma [Self::min_luma(), Some(Self::max_luma())] }
    others { });

/// The generic contract suite B1-B6.
pub fn suite<C: Bd, G: Gen>(g: &mut G) {
    let c = C::make(g);
    cov!(g, true);
    let k = c.clamp();
    // B1
    ob!("B1.clamp_result_is_within_bounds", k.is_within_bounds());
    // B4 + B6 (spec side of is_within_bounds built from the documented accessors)
    let mut all_in = true;
    let mut i = 0;
    while i < C::N {
        let x = c.comp(i);
        let y = k.comp(i);
        let lo = C::lo(i);
        let hi = C::hi(i);
        let above = match hi { Some(h) => x > h, None => false };
        let below = x < lo;
        if below || above { all_in = false; }
        ob!("B4.component_in_documented_range", y >= lo && match hi { Some(h) => y <= h, None => true });
        if below {
            ob!("B4.below_maps_to_min", y == lo);
        } else if above {
            ob!("B4.above_maps_to_max", Some(y) == hi);
        } else {
            ob!("B4.inside_unchanged", y == x);
        }
        i += 1;
    }
    let mut j = 0;
    while j < C::M {
        obq!("B4.other_fields_untouched", k.other(j) == c.other(j));
        j += 1;
    }
    ob!("B6.is_within_bounds_matches_accessors", c.is_within_bounds() == all_in);
    // B2
    if c.is_within_bounds() {
        let mut i = 0;
        while i < C::N { ob!("B2.in_bounds_unchanged", k.comp(i) == c.comp(i)); i += 1; }
    }
    // B3
    let kk = k.clamp();
    let mut i = 0;
    while i < C::N { ob!("B3.idempotent", kk.comp(i) == k.comp(i)); i += 1; }
    // B5
    let mut a = c;
    a.clamp_assign();
    let mut i = 0;
    while i < C::N { ob!("B5.assign_equals_by_value", a.comp(i) == k.comp(i)); i += 1; }
    let mut j = 0;
    while j < C::M { obq!("B5.assign_other_fields_untouched", a.other(j) == c.other(j)); j += 1; }
}

/// HWB-shaped types: w >= 0, b >= 0, w + b <= 1 (the coupled bound).
pub trait HwbLike: Clamp + ClampAssign + IsWithinBounds<Mask = bool> + Copy {
    type S: Sc + core::ops::Add<Output = Self::S>;
    fn make<G: Gen>(g: &mut G) -> Self;
    fn w(&self) -> Self::S;
    fn b(&self) -> Self::S;
    fn hue_raw(&self) -> Self::S;
    fn zero() -> Self::S;
    fn one() -> Self::S;
    fn min_w() -> Self::S;
    fn max_w() -> Self::S;
    fn min_b() -> Self::S;
    fn max_b() -> Self::S;
}
macro_rules! hwb_like {
    ($ty:ty, $s:ty) => {
        impl HwbLike for $ty {
            type S = $s;
            fn make<G: Gen>(g: &mut G) -> Self { <$ty>::new(f::<$s, G>(g), f(g), f(g)) }
            fn w(&self) -> $s { self.whiteness }
            fn b(&self) -> $s { self.blackness }
            fn hue_raw(&self) -> $s { self.hue.into_raw_degrees() }
            fn zero() -> $s { 0.0 }
            fn one() -> $s { 1.0 }
            fn min_w() -> $s { Self::min_whiteness() }
            fn max_w() -> $s { Self::max_whiteness() }
            fn min_b() -> $s { Self::min_blackness() }
            fn max_b() -> $s { Self::max_blackness() }
        }
    };
}
hwb_like!(Hwb<SrgbStd, f32>, f32);
hwb_like!(Hwb<SrgbStd, f64>, f64);
hwb_like!(Okhwb<f32>, f32);
hwb_like!(Okhwb<f64>, f64);

/// `part` splits the suite into separately discharged obligations: every f32
/// division costs CBMC minutes when several of them meet in one query.
///   1: B1+B4 (one clamp)   2: B2 (one clamp under `within`)   5: B5 (clamp vs clamp_assign)
///   6: B6 (no division)    3: B3 directly (two clamps; thorough only — it is also the
///      lemma B1 & B2 ==> B3, which needs no further proof)
pub fn hwb_suite<C: HwbLike, G: Gen>(g: &mut G, part: u8) {
    let c = C::make(g);
    cov!(g, true);
    if part == 6 {
        let spec_within = c.w() >= C::min_w() && c.w() <= C::max_w() && c.b() >= C::min_b()
            && c.b() <= C::max_b() && c.w() + c.b() <= C::one();
        ob!("B6.is_within_bounds_matches_accessors", c.is_within_bounds() == spec_within);
        return;
    }
    if part == 2 {
        g.assume(c.is_within_bounds());
        let k = c.clamp();
        ob!("B2.in_bounds_unchanged", k.w() == c.w() && k.b() == c.b());
        return;
    }
    if part == 7 {
        // the assigning form under the same B1+B4 contract (one clamp_assign, no comparison with clamp)
        let mut a = c;
        a.clamp_assign();
        ob!("B1.clamp_assign_result_is_within_bounds", a.is_within_bounds());
        ob!("B4.sum_at_most_one", a.w() >= C::min_w() && a.b() >= C::min_b() && a.w() + a.b() <= C::one());
        ob!("B4.hue_untouched", a.hue_raw() == c.hue_raw());
        return;
    }
    let k = c.clamp();
    if part == 1 {
        ob!("B1.clamp_result_is_within_bounds", k.is_within_bounds());
        ob!("B4.whiteness_in_documented_range", k.w() >= C::min_w() && k.w() <= C::max_w());
        ob!("B4.blackness_in_documented_range", k.b() >= C::min_b() && k.b() <= C::max_b());
        ob!("B4.sum_at_most_one", k.w() + k.b() <= C::one());
        ob!("B4.hue_untouched", k.hue_raw() == c.hue_raw());
        return;
    }
    if part == 3 {
        let kk = k.clamp();
        ob!("B3.idempotent", kk.w() == k.w() && kk.b() == k.b());
        return;
    }
    let mut a = c;
    a.clamp_assign();
    ob!("B5.assign_equals_by_value", a.w() == k.w() && a.b() == k.b() && a.hue_raw() == c.hue_raw());
}

/// Alpha<C, T>: colour part obeys C's contract (same calls), alpha in [0, max_intensity].
pub fn alpha_suite<C: Bd<S = f32>, G: Gen>(g: &mut G)
where
    Alpha<C, f32>: Clamp + ClampAssign,
{
    let c = C::make(g);
    let a: f32 = f(g);
    cov!(g, true);
    let w = Alpha { color: c, alpha: a };
    let k = w.clamp();
    // `Alpha<C, f32>: IsWithinBounds` cannot be instantiated (it asks for
    // `f32: IsWithinBounds`), so "within bounds" is stated through the parts.
    ob!("B1.clamp_result_is_within_bounds", k.color.is_within_bounds());
    ob!("B4.alpha_in_documented_range",
        k.alpha >= Alpha::<C, f32>::min_alpha() && k.alpha <= Alpha::<C, f32>::max_alpha());
    if a < 0.0 { ob!("B4.below_maps_to_min", k.alpha == 0.0); }
    else if a > 1.0 { ob!("B4.above_maps_to_max", k.alpha == 1.0); }
    else { ob!("B4.inside_unchanged", k.alpha == a); }
    let kc = c.clamp();
    let mut i = 0;
    while i < C::N { ob!("B4.color_part_is_color_clamp", k.color.comp(i) == kc.comp(i)); i += 1; }
    let mut j = 0;
    while j < C::M { obq!("B4.other_fields_untouched", k.color.other(j) == c.other(j)); j += 1; }
    if c.is_within_bounds() && a >= 0.0 && a <= 1.0 {
        ob!("B2.in_bounds_unchanged", k.alpha == a);
        let mut i = 0;
        while i < C::N { ob!("B2.in_bounds_unchanged", k.color.comp(i) == c.comp(i)); i += 1; }
    }
    let kk = k.clamp();
    ob!("B3.idempotent", kk.alpha == k.alpha);
    let mut i = 0;
    while i < C::N { ob!("B3.idempotent", kk.color.comp(i) == k.color.comp(i)); i += 1; }
    let mut m = w;
    m.clamp_assign();
    ob!("B5.assign_equals_by_value", m.alpha == k.alpha);
    let mut i = 0;
    while i < C::N { ob!("B5.assign_equals_by_value", m.color.comp(i) == k.color.comp(i)); i += 1; }
}

pub fn alpha_hwb_suite<G: Gen>(g: &mut G) {
    // One clamp only: each extra f32 division pair costs CBMC minutes. That the colour part
    // *is* Hwb::clamp and that clamp_assign agrees is engine S's term-identity obligation.
    let c = <Hwb<SrgbStd, f32> as HwbLike>::make(g);
    let a: f32 = f(g);
    cov!(g, true);
    let w = Alpha { color: c, alpha: a };
    let k = w.clamp();
    ob!("B1.clamp_result_is_within_bounds", k.color.is_within_bounds());
    ob!("B4.alpha_in_documented_range", k.alpha >= 0.0 && k.alpha <= 1.0);
    if a < 0.0 { ob!("B4.below_maps_to_min", k.alpha == 0.0); }
    else if a > 1.0 { ob!("B4.above_maps_to_max", k.alpha == 1.0); }
    else { ob!("B4.inside_unchanged", k.alpha == a); }
    ob!("B4.hue_untouched", k.color.hue.into_raw_degrees() == c.hue.into_raw_degrees());
}

// ---- contract-level types for the blanket FromColor / TryFromColor impls ----

/// Source "colour": carries what the callee contracts will return.
#[derive(Clone, Copy)]
pub struct Src { pub out: u32, pub clamped: u32, pub within: bool }
/// Destination "colour": `v` is its value; `clamped`/`within` are the recorded
/// results of its `clamp` / `is_within_bounds` contracts.
#[derive(Clone, Copy)]
pub struct Tok { pub v: u32, pub clamped: u32, pub within: bool }
impl FromColorUnclamped<Src> for Tok {
    fn from_color_unclamped(s: Src) -> Self { Tok { v: s.out, clamped: s.clamped, within: s.within } }
}
impl Clamp for Tok {
    fn clamp(self) -> Self { Tok { v: self.clamped, clamped: self.clamped, within: true } }
}
impl IsWithinBounds for Tok {
    fn is_within_bounds(&self) -> bool { self.within }
}
impl palette::bool_mask::HasBoolMask for Tok { type Mask = bool; }

fn slice_make<G: Gen, const L: usize>(g: &mut G) -> ([Srgb<f32>; L], usize) {
    let mut arr = [Srgb::new(0.0f32, 0.0, 0.0); L];
    let mut i = 0;
    while i < L { arr[i] = <Srgb<f32> as Bd>::make(g); i += 1; }
    let n = g.usize();
    g.assume(n <= L);
    (arr, n)
}

fn slice_suite<G: Gen, const L: usize>(g: &mut G) {
    let (mut arr, n) = slice_make::<G, L>(g);
    cov!(g, n == L);
    cov!(g, n == 0);
    let orig = arr;
    let mut all = true;
    let mut i = 0;
    while i < n { if !orig[i].is_within_bounds() { all = false; } i += 1; }
    ob!("S1.slice_within_is_conjunction", arr[..n].is_within_bounds() == all);
    arr[..n].clamp_assign();
    let mut i = 0;
    while i < L {
        let want = if i < n { orig[i].clamp() } else { orig[i] };
        ob!("S2.slice_clamp_assign_elementwise_and_framed",
            arr[i].red == want.red && arr[i].green == want.green && arr[i].blue == want.blue);
        i += 1;
    }
    ob!("S3.slice_clamped_is_within", arr[..n].is_within_bounds());
}

macro_rules! suite_list {
    ($reg:ident, $tier:ident, $sfx:ident; $($name:ident : $ty:ty => $func:expr),* $(,)?) => {
        harnesses! { $reg, "C03", "c03";
            $(
            { id: concat!("clamp.", stringify!($name)), tier: $tier, label: "complete",
              func: $func,
              desc: "B1-B6 for all finite component combinations (every bit pattern per field independently)" }
            fn $name(g) { suite::<$ty, G>(g) }
            )*
        }
    };
}

suite_list! { REG_F32, quick, f32;
    rgb_f32: Srgb<f32> => "palette::rgb::Rgb::{clamp,clamp_assign,is_within_bounds} [rgb/rgb.rs impl_clamp!/impl_is_within_bounds!]",
    luma_f32: Luma<SrgbStd, f32> => "palette::luma::Luma::{clamp,clamp_assign,is_within_bounds}",
    hsl_f32: Hsl<SrgbStd, f32> => "palette::Hsl::{clamp,clamp_assign,is_within_bounds}",
    hsv_f32: Hsv<SrgbStd, f32> => "palette::Hsv::{clamp,clamp_assign,is_within_bounds}",
    lab_f32: Lab<D65, f32> => "palette::Lab::{clamp,clamp_assign,is_within_bounds}",
    lch_f32: Lch<D65, f32> => "palette::Lch::{clamp,clamp_assign,is_within_bounds}",
    luv_f32: Luv<D65, f32> => "palette::Luv::{clamp,clamp_assign,is_within_bounds}",
    lchuv_f32: Lchuv<D65, f32> => "palette::Lchuv::{clamp,clamp_assign,is_within_bounds}",
    hsluv_f32: Hsluv<D65, f32> => "palette::Hsluv::{clamp,clamp_assign,is_within_bounds}",
    xyz_f32: Xyz<D65, f32> => "palette::Xyz::{clamp,clamp_assign,is_within_bounds}",
    yxy_f32: Yxy<D65, f32> => "palette::Yxy::{clamp,clamp_assign,is_within_bounds}",
    lms_f32: Lms<palette::lms::matrix::Bradford, f32> => "palette::lms::Lms::{clamp,clamp_assign,is_within_bounds}",
    oklab_f32: Oklab<f32> => "palette::Oklab::{clamp,clamp_assign,is_within_bounds}",
    oklch_f32: Oklch<f32> => "palette::Oklch::{clamp,clamp_assign,is_within_bounds}",
    okhsl_f32: Okhsl<f32> => "palette::Okhsl::{clamp,clamp_assign,is_within_bounds}",
    okhsv_f32: Okhsv<f32> => "palette::Okhsv::{clamp,clamp_assign,is_within_bounds} [okhsv/properties.rs]",
    cam16_f32: Cam16<f32> => "palette::cam16::Cam16::{clamp,clamp_assign,is_within_bounds}",
    cam16jch_f32: Cam16Jch<f32> => "palette::cam16::Cam16Jch::{clamp,clamp_assign,is_within_bounds} [make_partial_cam16!]",
    cam16jmh_f32: Cam16Jmh<f32> => "palette::cam16::Cam16Jmh::{clamp,clamp_assign,is_within_bounds}",
    cam16jsh_f32: Cam16Jsh<f32> => "palette::cam16::Cam16Jsh::{clamp,clamp_assign,is_within_bounds}",
    cam16qch_f32: Cam16Qch<f32> => "palette::cam16::Cam16Qch::{clamp,clamp_assign,is_within_bounds}",
    cam16qmh_f32: Cam16Qmh<f32> => "palette::cam16::Cam16Qmh::{clamp,clamp_assign,is_within_bounds}",
    cam16qsh_f32: Cam16Qsh<f32> => "palette::cam16::Cam16Qsh::{clamp,clamp_assign,is_within_bounds}",
    cam16ucsjab_f32: Cam16UcsJab<f32> => "palette::cam16::Cam16UcsJab::{clamp,clamp_assign,is_within_bounds}",
    cam16ucsjmh_f32: Cam16UcsJmh<f32> => "palette::cam16::Cam16UcsJmh::{clamp,clamp_assign,is_within_bounds}",
    rgb_u8: Srgb<u8> => "palette::rgb::Rgb<_, u8>::{clamp,clamp_assign,is_within_bounds}",
    rgb_u16: Srgb<u16> => "palette::rgb::Rgb<_, u16>::{clamp,clamp_assign,is_within_bounds}",
    luma_u8: Luma<SrgbStd, u8> => "palette::luma::Luma<_, u8>::{clamp,clamp_assign,is_within_bounds}",
}

suite_list! { REG_F64, thorough, f64;
    rgb_f64: Srgb<f64> => "palette::rgb::Rgb::{clamp,clamp_assign,is_within_bounds}",
    luma_f64: Luma<SrgbStd, f64> => "palette::luma::Luma::{clamp,clamp_assign,is_within_bounds}",
    hsl_f64: Hsl<SrgbStd, f64> => "palette::Hsl::{clamp,clamp_assign,is_within_bounds}",
    hsv_f64: Hsv<SrgbStd, f64> => "palette::Hsv::{clamp,clamp_assign,is_within_bounds}",
    lab_f64: Lab<D65, f64> => "palette::Lab::{clamp,clamp_assign,is_within_bounds}",
    lch_f64: Lch<D65, f64> => "palette::Lch::{clamp,clamp_assign,is_within_bounds}",
    luv_f64: Luv<D65, f64> => "palette::Luv::{clamp,clamp_assign,is_within_bounds}",
    lchuv_f64: Lchuv<D65, f64> => "palette::Lchuv::{clamp,clamp_assign,is_within_bounds}",
    hsluv_f64: Hsluv<D65, f64> => "palette::Hsluv::{clamp,clamp_assign,is_within_bounds}",
    xyz_f64: Xyz<D65, f64> => "palette::Xyz::{clamp,clamp_assign,is_within_bounds}",
    yxy_f64: Yxy<D65, f64> => "palette::Yxy::{clamp,clamp_assign,is_within_bounds}",
    lms_f64: Lms<palette::lms::matrix::Bradford, f64> => "palette::lms::Lms::{clamp,clamp_assign,is_within_bounds}",
    oklab_f64: Oklab<f64> => "palette::Oklab::{clamp,clamp_assign,is_within_bounds}",
    oklch_f64: Oklch<f64> => "palette::Oklch::{clamp,clamp_assign,is_within_bounds}",
    okhsl_f64: Okhsl<f64> => "palette::Okhsl::{clamp,clamp_assign,is_within_bounds}",
    okhsv_f64: Okhsv<f64> => "palette::Okhsv::{clamp,clamp_assign,is_within_bounds}",
    cam16_f64: Cam16<f64> => "palette::cam16::Cam16::{clamp,clamp_assign,is_within_bounds}",
    cam16jch_f64: Cam16Jch<f64> => "palette::cam16::Cam16Jch::{clamp,clamp_assign,is_within_bounds}",
    cam16qsh_f64: Cam16Qsh<f64> => "palette::cam16::Cam16Qsh::{clamp,clamp_assign,is_within_bounds}",
    cam16ucsjab_f64: Cam16UcsJab<f64> => "palette::cam16::Cam16UcsJab::{clamp,clamp_assign,is_within_bounds}",
    cam16ucsjmh_f64: Cam16UcsJmh<f64> => "palette::cam16::Cam16UcsJmh::{clamp,clamp_assign,is_within_bounds}",
}

harnesses! { REG_MISC, "C03", "c03";
    { id: "clamp.hwb_f32.b1", tier: quick, label: "complete",
      func: "palette::Hwb::{clamp,clamp_assign,is_within_bounds} [macros/clamp.rs impl_clamp_hwb!/impl_is_within_bounds_hwb!]",
      desc: "B1+B4: clamp result within the coupled bound w>=0, b>=0, w+b<=1; hue untouched; all finite (hue, w, b)" }
    fn hwb_f32_b1(g) { hwb_suite::<Hwb<SrgbStd, f32>, G>(g, 1) }

    { id: "clamp.hwb_f32.b1_assign", tier: quick, label: "complete",
      func: "palette::Hwb::clamp_assign [macros/clamp.rs impl_clamp_hwb!]",
      desc: "B1+B4 for the assigning form: result within the coupled bound; hue untouched; all finite (hue, w, b)" }
    fn hwb_f32_b1a(g) { hwb_suite::<Hwb<SrgbStd, f32>, G>(g, 7) }

    { id: "clamp.hwb_f32.b2", tier: quick, label: "complete",
      func: "palette::Hwb::{clamp,clamp_assign,is_within_bounds} [macros/clamp.rs impl_clamp_hwb!/impl_is_within_bounds_hwb!]",
      desc: "B2: within ==> clamp is the identity; all finite (hue, w, b)" }
    fn hwb_f32_b2(g) { hwb_suite::<Hwb<SrgbStd, f32>, G>(g, 2) }

    { id: "clamp.hwb_f32.b6", tier: quick, label: "complete",
      func: "palette::Hwb::{clamp,clamp_assign,is_within_bounds} [macros/clamp.rs impl_clamp_hwb!/impl_is_within_bounds_hwb!]",
      desc: "B6: is_within_bounds == accessor bounds incl. w+b<=1; all finite (hue, w, b)" }
    fn hwb_f32_b6(g) { hwb_suite::<Hwb<SrgbStd, f32>, G>(g, 6) }

    { id: "clamp.hwb_f32.b3", tier: thorough, label: "complete",
      func: "palette::Hwb::{clamp,clamp_assign,is_within_bounds} [macros/clamp.rs impl_clamp_hwb!/impl_is_within_bounds_hwb!]",
      desc: "B3 directly: clamp(clamp(c)) == clamp(c); all finite (hue, w, b)" }
    fn hwb_f32_b3(g) { hwb_suite::<Hwb<SrgbStd, f32>, G>(g, 3) }

    { id: "clamp.okhwb_f32.b1", tier: quick, label: "complete",
      func: "palette::Okhwb::{clamp,clamp_assign,is_within_bounds} [macros/clamp.rs impl_clamp_hwb!/impl_is_within_bounds_hwb!]",
      desc: "B1+B4: clamp result within the coupled bound w>=0, b>=0, w+b<=1; hue untouched; all finite (hue, w, b)" }
    fn okhwb_f32_b1(g) { hwb_suite::<Okhwb<f32>, G>(g, 1) }

    { id: "clamp.okhwb_f32.b1_assign", tier: quick, label: "complete",
      func: "palette::Okhwb::clamp_assign [macros/clamp.rs impl_clamp_hwb!]",
      desc: "B1+B4 for the assigning form: result within the coupled bound; hue untouched; all finite (hue, w, b)" }
    fn okhwb_f32_b1a(g) { hwb_suite::<Okhwb<f32>, G>(g, 7) }

    { id: "clamp.okhwb_f32.b2", tier: quick, label: "complete",
      func: "palette::Okhwb::{clamp,clamp_assign,is_within_bounds} [macros/clamp.rs impl_clamp_hwb!/impl_is_within_bounds_hwb!]",
      desc: "B2: within ==> clamp is the identity; all finite (hue, w, b)" }
    fn okhwb_f32_b2(g) { hwb_suite::<Okhwb<f32>, G>(g, 2) }

    { id: "clamp.okhwb_f32.b6", tier: quick, label: "complete",
      func: "palette::Okhwb::{clamp,clamp_assign,is_within_bounds} [macros/clamp.rs impl_clamp_hwb!/impl_is_within_bounds_hwb!]",
      desc: "B6: is_within_bounds == accessor bounds incl. w+b<=1; all finite (hue, w, b)" }
    fn okhwb_f32_b6(g) { hwb_suite::<Okhwb<f32>, G>(g, 6) }

    { id: "clamp.okhwb_f32.b3", tier: thorough, label: "complete",
      func: "palette::Okhwb::{clamp,clamp_assign,is_within_bounds} [macros/clamp.rs impl_clamp_hwb!/impl_is_within_bounds_hwb!]",
      desc: "B3 directly: clamp(clamp(c)) == clamp(c); all finite (hue, w, b)" }
    fn okhwb_f32_b3(g) { hwb_suite::<Okhwb<f32>, G>(g, 3) }

    { id: "clamp.hwb_f64.b1", tier: thorough, label: "complete",
      func: "palette::Hwb::{clamp,clamp_assign,is_within_bounds} [macros/clamp.rs impl_clamp_hwb!/impl_is_within_bounds_hwb!]",
      desc: "B1+B4: clamp result within the coupled bound w>=0, b>=0, w+b<=1; hue untouched; all finite (hue, w, b)" }
    fn hwb_f64_b1(g) { hwb_suite::<Hwb<SrgbStd, f64>, G>(g, 1) }

    { id: "clamp.hwb_f64.b1_assign", tier: thorough, label: "complete",
      func: "palette::Hwb::clamp_assign [macros/clamp.rs impl_clamp_hwb!]",
      desc: "B1+B4 for the assigning form: result within the coupled bound; hue untouched; all finite (hue, w, b)" }
    fn hwb_f64_b1a(g) { hwb_suite::<Hwb<SrgbStd, f64>, G>(g, 7) }

    { id: "clamp.hwb_f64.b2", tier: thorough, label: "complete",
      func: "palette::Hwb::{clamp,clamp_assign,is_within_bounds} [macros/clamp.rs impl_clamp_hwb!/impl_is_within_bounds_hwb!]",
      desc: "B2: within ==> clamp is the identity; all finite (hue, w, b)" }
    fn hwb_f64_b2(g) { hwb_suite::<Hwb<SrgbStd, f64>, G>(g, 2) }

    { id: "clamp.hwb_f64.b6", tier: thorough, label: "complete",
      func: "palette::Hwb::{clamp,clamp_assign,is_within_bounds} [macros/clamp.rs impl_clamp_hwb!/impl_is_within_bounds_hwb!]",
      desc: "B6: is_within_bounds == accessor bounds incl. w+b<=1; all finite (hue, w, b)" }
    fn hwb_f64_b6(g) { hwb_suite::<Hwb<SrgbStd, f64>, G>(g, 6) }

    { id: "clamp.hwb_f64.b3", tier: thorough, label: "complete",
      func: "palette::Hwb::{clamp,clamp_assign,is_within_bounds} [macros/clamp.rs impl_clamp_hwb!/impl_is_within_bounds_hwb!]",
      desc: "B3 directly: clamp(clamp(c)) == clamp(c); all finite (hue, w, b)" }
    fn hwb_f64_b3(g) { hwb_suite::<Hwb<SrgbStd, f64>, G>(g, 3) }

    { id: "clamp.okhwb_f64.b1", tier: thorough, label: "complete",
      func: "palette::Okhwb::{clamp,clamp_assign,is_within_bounds} [macros/clamp.rs impl_clamp_hwb!/impl_is_within_bounds_hwb!]",
      desc: "B1+B4: clamp result within the coupled bound w>=0, b>=0, w+b<=1; hue untouched; all finite (hue, w, b)" }
    fn okhwb_f64_b1(g) { hwb_suite::<Okhwb<f64>, G>(g, 1) }

    { id: "clamp.okhwb_f64.b1_assign", tier: thorough, label: "complete",
      func: "palette::Okhwb::clamp_assign [macros/clamp.rs impl_clamp_hwb!]",
      desc: "B1+B4 for the assigning form: result within the coupled bound; hue untouched; all finite (hue, w, b)" }
    fn okhwb_f64_b1a(g) { hwb_suite::<Okhwb<f64>, G>(g, 7) }

    { id: "clamp.okhwb_f64.b2", tier: thorough, label: "complete",
      func: "palette::Okhwb::{clamp,clamp_assign,is_within_bounds} [macros/clamp.rs impl_clamp_hwb!/impl_is_within_bounds_hwb!]",
      desc: "B2: within ==> clamp is the identity; all finite (hue, w, b)" }
    fn okhwb_f64_b2(g) { hwb_suite::<Okhwb<f64>, G>(g, 2) }

    { id: "clamp.okhwb_f64.b6", tier: thorough, label: "complete",
      func: "palette::Okhwb::{clamp,clamp_assign,is_within_bounds} [macros/clamp.rs impl_clamp_hwb!/impl_is_within_bounds_hwb!]",
      desc: "B6: is_within_bounds == accessor bounds incl. w+b<=1; all finite (hue, w, b)" }
    fn okhwb_f64_b6(g) { hwb_suite::<Okhwb<f64>, G>(g, 6) }

    { id: "clamp.okhwb_f64.b3", tier: thorough, label: "complete",
      func: "palette::Okhwb::{clamp,clamp_assign,is_within_bounds} [macros/clamp.rs impl_clamp_hwb!/impl_is_within_bounds_hwb!]",
      desc: "B3 directly: clamp(clamp(c)) == clamp(c); all finite (hue, w, b)" }
    fn okhwb_f64_b3(g) { hwb_suite::<Okhwb<f64>, G>(g, 3) }

    { id: "clamp.alpha_rgb_f32", tier: quick, label: "complete",
      func: "palette::Alpha::{clamp,clamp_assign,is_within_bounds} [alpha/alpha.rs] over Rgb",
      desc: "Alpha clamps colour and alpha separately: B1-B6 for Alpha<Srgb<f32>, f32>" }
    fn alpha_rgb_f32(g) { alpha_suite::<Srgb<f32>, G>(g) }

    { id: "clamp.alpha_hsv_f32", tier: quick, label: "complete",
      func: "palette::Alpha::{clamp,clamp_assign,is_within_bounds} over Hsv",
      desc: "B1-B6 for Alpha<Hsv<_, f32>, f32> (hue untouched)" }
    fn alpha_hsv_f32(g) { alpha_suite::<Hsv<SrgbStd, f32>, G>(g) }

    { id: "clamp.alpha_lch_f32", tier: quick, label: "complete",
      func: "palette::Alpha::{clamp,clamp_assign,is_within_bounds} over Lch",
      desc: "B1-B6 for Alpha<Lch<_, f32>, f32> (open-ended chroma)" }
    fn alpha_lch_f32(g) { alpha_suite::<Lch<D65, f32>, G>(g) }

    { id: "clamp.alpha_hwb_f32", tier: quick, label: "complete",
      func: "palette::Alpha::{clamp,clamp_assign,is_within_bounds} over Hwb",
      desc: "Alpha over the coupled-bound type" }
    fn alpha_hwb_f32(g) { alpha_hwb_suite(g) }

    { id: "blanket.from_color", tier: quick, label: "complete",
      func: "impl<T,U> FromColor<T> for U [convert/from_into_color.rs]",
      desc: "C1: from_color(t) == from_color_unclamped(t).clamp(), callee results universally quantified (contract-level types)" }
    fn blanket_from_color(g) {
        let s = Src { out: g.u32(), clamped: g.u32(), within: g.bool() };
        cov!(g, true);
        let r = Tok::from_color(s);
        ob!("C1.from_color_is_unclamped_then_clamp", r.v == s.clamped);
        let r2: Tok = palette::convert::IntoColor::into_color(s);
        ob!("C1.into_color_is_unclamped_then_clamp", r2.v == s.clamped);
    }

    { id: "blanket.try_from_color", tier: quick, label: "complete",
      func: "impl<T,U> TryFromColor<T> for U, OutOfBounds::color [convert/try_from_into_color.rs]",
      desc: "C2: Ok(v) iff within(v); v is the unclamped result in the Ok and in the Err case" }
    fn blanket_try_from_color(g) {
        let s = Src { out: g.u32(), clamped: g.u32(), within: g.bool() };
        cov!(g, s.within);
        cov!(g, !s.within);
        match Tok::try_from_color(s) {
            Ok(v) => {
                ob!("C2.ok_iff_within", s.within);
                ob!("C2.ok_value_is_unclamped", v.v == s.out);
            }
            Err(e) => {
                ob!("C2.err_iff_not_within", !s.within);
                ob!("C2.err_hands_back_unclamped", e.color().v == s.out);
            }
        }
        let t: Result<Tok, _> = palette::convert::TryIntoColor::try_into_color(s);
        ob!("C2.try_into_color_same_verdict", t.is_ok() == s.within);
    }

    { id: "blanket.real_pair_rgb_rgb", tier: quick, label: "complete",
      func: "FromColor<Rgb> for Rgb, TryFromColor<Rgb> for Rgb (real pair through the same-standard shortcut)",
      desc: "C1/C2 instantiated at a real conversion: from_color == unclamped+clamp bitwise, try_from_color verdict == is_within_bounds; all finite f32 triples" }
    fn real_pair_rgb_rgb(g) {
        let c: Srgb<f32> = <Srgb<f32> as Bd>::make(g);
        cov!(g, true);
        let u = Srgb::<f32>::from_color_unclamped(c);
        let k = u.clamp();
        let r = Srgb::<f32>::from_color(c);
        ob!("C1.from_color_is_unclamped_then_clamp",
            r.red.to_bits() == k.red.to_bits() && r.green.to_bits() == k.green.to_bits() && r.blue.to_bits() == k.blue.to_bits());
        match Srgb::<f32>::try_from_color(c) {
            Ok(x) => {
                ob!("C2.ok_iff_within", u.is_within_bounds());
                ob!("C2.ok_value_is_unclamped", x.red.to_bits() == u.red.to_bits() && x.green.to_bits() == u.green.to_bits() && x.blue.to_bits() == u.blue.to_bits());
            }
            Err(e) => {
                ob!("C2.err_iff_not_within", !u.is_within_bounds());
                let x = e.color();
                ob!("C2.err_hands_back_unclamped", x.red.to_bits() == u.red.to_bits() && x.green.to_bits() == u.green.to_bits() && x.blue.to_bits() == u.blue.to_bits());
            }
        }
    }

    { id: "slice.len4", tier: quick, label: "bounded(4)",
      func: "impl ClampAssign for [T], impl IsWithinBounds for [T] [lib.rs]",
      desc: "slice forms: conjunction / element-wise, untouched tail; every length 0..=4 of Srgb<f32>" }
    #[kani::unwind(6)]
    fn slice_len4(g) { slice_suite::<G, 4>(g) }

    { id: "slice.len8", tier: thorough, label: "bounded(8)",
      func: "impl ClampAssign for [T], impl IsWithinBounds for [T] [lib.rs]",
      desc: "slice forms, every length 0..=8" }
    #[kani::unwind(10)]
    fn slice_len8(g) { slice_suite::<G, 8>(g) }
}

pub fn registry() -> Vec<&'static crate::macros::Entry> {
    REG_F32.iter().chain(REG_F64.iter()).chain(REG_MISC.iter()).collect()
}
