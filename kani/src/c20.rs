//! C20 — serde round trip and stable shape, at the serde DATA MODEL level (palette/src/serde.rs,
//! serde/alpha_serializer.rs, serde/alpha_deserializer.rs and the derive output on the colour types).
//! A token-recording Serializer and a token-replaying Deserializer (fixed arrays, no allocation) drive the
//! real code. The text layers (serde_json, ron) are dependencies and are assumed to map text to this data
//! model faithfully.
//!   R1  deserialize(serialize(c)) == c, bit for bit, in struct/map shape and in tuple/seq shape
//!   R2  Alpha<C> serializes as C's own fields followed by `alpha` at the SAME level (no nesting)
//!   R3  a hue is a bare number; PhantomData metadata (standard, white point) produces no token
//!   R4  a transparent type read from data WITHOUT alpha gets max_intensity
//!   R5  as_array / as_uint produce the tokens of the cast result and read them back
use crate::gen::Gen;
use core::fmt;
use palette::{Hsv, Hsva, Lab, Laba, Srgb, Srgba};
use serde::de::{self, DeserializeSeed, MapAccess, SeqAccess, Visitor};
use serde::ser::{self, Serialize};
use serde::Deserialize;

#[derive(Clone, Copy, PartialEq, Eq, Debug)]
pub enum Tok {
    U8(u8), U16(u16), U32(u32), U64(u64), F32(u32), F64(u64),
    Struct(&'static str, usize), Field(&'static str), StructEnd,
    Tuple(usize), TupleEnd, Newtype(&'static str), Unit, End,
}
pub const MAXT: usize = 24;
pub struct Rec { pub t: [Tok; MAXT], pub n: usize }
impl Rec {
    pub fn new() -> Self { Rec { t: [Tok::End; MAXT], n: 0 } }
    fn push(&mut self, t: Tok) -> Result<(), TE> { if self.n >= MAXT { return Err(TE); } self.t[self.n] = t; self.n += 1; Ok(()) }
}
#[derive(Debug)]
pub struct TE;
impl fmt::Display for TE { fn fmt(&self, f: &mut fmt::Formatter<'_>) -> fmt::Result { f.write_str("token error") } }
impl std::error::Error for TE {}
impl ser::Error for TE { fn custom<T: fmt::Display>(_m: T) -> Self { TE } }
impl de::Error for TE { fn custom<T: fmt::Display>(_m: T) -> Self { TE } }

macro_rules! unsupported_ser { ($($f:ident: $t:ty),*) => { $( fn $f(self, _v: $t) -> Result<(), TE> { Err(TE) } )* } }
impl<'a> ser::Serializer for &'a mut Rec {
    type Ok = (); type Error = TE;
    type SerializeSeq = ser::Impossible<(), TE>; type SerializeTuple = Self; type SerializeTupleStruct = Self;
    type SerializeTupleVariant = ser::Impossible<(), TE>; type SerializeMap = ser::Impossible<(), TE>;
    type SerializeStruct = Self; type SerializeStructVariant = ser::Impossible<(), TE>;
    fn serialize_u8(self, v: u8) -> Result<(), TE> { self.push(Tok::U8(v)) }
    fn serialize_u16(self, v: u16) -> Result<(), TE> { self.push(Tok::U16(v)) }
    fn serialize_u32(self, v: u32) -> Result<(), TE> { self.push(Tok::U32(v)) }
    fn serialize_u64(self, v: u64) -> Result<(), TE> { self.push(Tok::U64(v)) }
    fn serialize_f32(self, v: f32) -> Result<(), TE> { self.push(Tok::F32(v.to_bits())) }
    fn serialize_f64(self, v: f64) -> Result<(), TE> { self.push(Tok::F64(v.to_bits())) }
    unsupported_ser!(serialize_bool: bool, serialize_i8: i8, serialize_i16: i16, serialize_i32: i32, serialize_i64: i64, serialize_char: char, serialize_str: &str, serialize_bytes: &[u8]);
    fn serialize_none(self) -> Result<(), TE> { Err(TE) }
    fn serialize_some<T: ?Sized + Serialize>(self, _v: &T) -> Result<(), TE> { Err(TE) }
    fn serialize_unit(self) -> Result<(), TE> { self.push(Tok::Unit) }
    fn serialize_unit_struct(self, _n: &'static str) -> Result<(), TE> { self.push(Tok::Unit) }
    fn serialize_unit_variant(self, _n: &'static str, _i: u32, _v: &'static str) -> Result<(), TE> { Err(TE) }
    fn serialize_newtype_struct<T: ?Sized + Serialize>(self, name: &'static str, v: &T) -> Result<(), TE> { self.push(Tok::Newtype(name))?; v.serialize(self) }
    fn serialize_newtype_variant<T: ?Sized + Serialize>(self, _n: &'static str, _i: u32, _v: &'static str, _x: &T) -> Result<(), TE> { Err(TE) }
    fn serialize_seq(self, _l: Option<usize>) -> Result<Self::SerializeSeq, TE> { Err(TE) }
    fn serialize_tuple(self, l: usize) -> Result<Self, TE> { self.push(Tok::Tuple(l))?; Ok(self) }
    fn serialize_tuple_struct(self, _n: &'static str, l: usize) -> Result<Self, TE> { self.push(Tok::Tuple(l))?; Ok(self) }
    fn serialize_tuple_variant(self, _n: &'static str, _i: u32, _v: &'static str, _l: usize) -> Result<Self::SerializeTupleVariant, TE> { Err(TE) }
    fn serialize_map(self, _l: Option<usize>) -> Result<Self::SerializeMap, TE> { Err(TE) }
    fn serialize_struct(self, n: &'static str, l: usize) -> Result<Self, TE> { self.push(Tok::Struct(n, l))?; Ok(self) }
    fn serialize_struct_variant(self, _n: &'static str, _i: u32, _v: &'static str, _l: usize) -> Result<Self::SerializeStructVariant, TE> { Err(TE) }
}
impl<'a> ser::SerializeStruct for &'a mut Rec {
    type Ok = (); type Error = TE;
    fn serialize_field<T: ?Sized + Serialize>(&mut self, k: &'static str, v: &T) -> Result<(), TE> { self.push(Tok::Field(k))?; v.serialize(&mut **self) }
    fn end(self) -> Result<(), TE> { self.push(Tok::StructEnd) }
}
impl<'a> ser::SerializeTuple for &'a mut Rec {
    type Ok = (); type Error = TE;
    fn serialize_element<T: ?Sized + Serialize>(&mut self, v: &T) -> Result<(), TE> { v.serialize(&mut **self) }
    fn end(self) -> Result<(), TE> { self.push(Tok::TupleEnd) }
}
impl<'a> ser::SerializeTupleStruct for &'a mut Rec {
    type Ok = (); type Error = TE;
    fn serialize_field<T: ?Sized + Serialize>(&mut self, v: &T) -> Result<(), TE> { v.serialize(&mut **self) }
    fn end(self) -> Result<(), TE> { self.push(Tok::TupleEnd) }
}

/// Replays a token stream.
pub struct Play<'t> { pub t: &'t [Tok], pub pos: usize }
impl<'t> Play<'t> {
    fn peek(&self) -> Tok { if self.pos < self.t.len() { self.t[self.pos] } else { Tok::End } }
    fn next(&mut self) -> Tok { let x = self.peek(); self.pos += 1; x }
}
macro_rules! unsupported_de { ($($f:ident),*) => { $( fn $f<V: Visitor<'de>>(self, _v: V) -> Result<V::Value, TE> { Err(TE) } )* } }
impl<'de, 'a, 't> de::Deserializer<'de> for &'a mut Play<'t> {
    type Error = TE;
    fn deserialize_any<V: Visitor<'de>>(self, v: V) -> Result<V::Value, TE> {
        match self.peek() {
            Tok::U8(x) => { self.pos += 1; v.visit_u8(x) } Tok::U16(x) => { self.pos += 1; v.visit_u16(x) }
            Tok::U32(x) => { self.pos += 1; v.visit_u32(x) } Tok::U64(x) => { self.pos += 1; v.visit_u64(x) }
            Tok::F32(x) => { self.pos += 1; v.visit_f32(f32::from_bits(x)) } Tok::F64(x) => { self.pos += 1; v.visit_f64(f64::from_bits(x)) }
            Tok::Struct(_, _) => { self.pos += 1; v.visit_map(Acc { p: self }) }
            Tok::Tuple(_) => { self.pos += 1; let r = v.visit_seq(Acc { p: &mut *self }); if r.is_ok() && self.peek() == Tok::TupleEnd { self.pos += 1; } r }
            Tok::Newtype(_) => { self.pos += 1; v.visit_newtype_struct(self) }
            Tok::Unit => { self.pos += 1; v.visit_unit() }
            _ => Err(TE),
        }
    }
    fn deserialize_u8<V: Visitor<'de>>(self, v: V) -> Result<V::Value, TE> { self.deserialize_any(v) }
    fn deserialize_u16<V: Visitor<'de>>(self, v: V) -> Result<V::Value, TE> { self.deserialize_any(v) }
    fn deserialize_u32<V: Visitor<'de>>(self, v: V) -> Result<V::Value, TE> { self.deserialize_any(v) }
    fn deserialize_u64<V: Visitor<'de>>(self, v: V) -> Result<V::Value, TE> { self.deserialize_any(v) }
    fn deserialize_f32<V: Visitor<'de>>(self, v: V) -> Result<V::Value, TE> { self.deserialize_any(v) }
    fn deserialize_f64<V: Visitor<'de>>(self, v: V) -> Result<V::Value, TE> { self.deserialize_any(v) }
    fn deserialize_struct<V: Visitor<'de>>(self, _n: &'static str, _f: &'static [&'static str], v: V) -> Result<V::Value, TE> { self.deserialize_any(v) }
    fn deserialize_tuple<V: Visitor<'de>>(self, _l: usize, v: V) -> Result<V::Value, TE> { self.deserialize_any(v) }
    fn deserialize_tuple_struct<V: Visitor<'de>>(self, _n: &'static str, _l: usize, v: V) -> Result<V::Value, TE> { self.deserialize_any(v) }
    fn deserialize_seq<V: Visitor<'de>>(self, v: V) -> Result<V::Value, TE> { self.deserialize_any(v) }
    fn deserialize_map<V: Visitor<'de>>(self, v: V) -> Result<V::Value, TE> { self.deserialize_any(v) }
    fn deserialize_newtype_struct<V: Visitor<'de>>(self, _n: &'static str, v: V) -> Result<V::Value, TE> {
        if let Tok::Newtype(_) = self.peek() { self.pos += 1; }
        v.visit_newtype_struct(self)
    }
    fn deserialize_unit<V: Visitor<'de>>(self, v: V) -> Result<V::Value, TE> { self.deserialize_any(v) }
    fn deserialize_unit_struct<V: Visitor<'de>>(self, _n: &'static str, v: V) -> Result<V::Value, TE> { self.deserialize_any(v) }
    fn deserialize_identifier<V: Visitor<'de>>(self, v: V) -> Result<V::Value, TE> {
        match self.next() { Tok::Field(k) => v.visit_str(k), _ => Err(TE) }
    }
    fn deserialize_ignored_any<V: Visitor<'de>>(self, v: V) -> Result<V::Value, TE> { self.pos += 1; v.visit_unit() }
    fn deserialize_enum<V: Visitor<'de>>(self, _n: &'static str, _v: &'static [&'static str], _x: V) -> Result<V::Value, TE> { Err(TE) }
    unsupported_de!(deserialize_bool, deserialize_i8, deserialize_i16, deserialize_i32, deserialize_i64, deserialize_char, deserialize_str,
        deserialize_string, deserialize_bytes, deserialize_byte_buf, deserialize_option);
}
struct Acc<'a, 't> { p: &'a mut Play<'t> }
impl<'de, 'a, 't> MapAccess<'de> for Acc<'a, 't> {
    type Error = TE;
    fn next_key_seed<K: DeserializeSeed<'de>>(&mut self, seed: K) -> Result<Option<K::Value>, TE> {
        match self.p.peek() { Tok::StructEnd => { self.p.pos += 1; Ok(None) } Tok::Field(_) => seed.deserialize(&mut *self.p).map(Some), _ => Err(TE) }
    }
    fn next_value_seed<V: DeserializeSeed<'de>>(&mut self, seed: V) -> Result<V::Value, TE> { seed.deserialize(&mut *self.p) }
}
impl<'de, 'a, 't> SeqAccess<'de> for Acc<'a, 't> {
    type Error = TE;
    fn next_element_seed<T: DeserializeSeed<'de>>(&mut self, seed: T) -> Result<Option<T::Value>, TE> {
        match self.p.peek() { Tok::TupleEnd => { self.p.pos += 1; Ok(None) } Tok::End => Ok(None), _ => seed.deserialize(&mut *self.p).map(Some) }
    }
}

fn ser<T: Serialize>(v: &T) -> Option<Rec> { let mut r = Rec::new(); match v.serialize(&mut r) { Ok(()) => Some(r), Err(_) => None } }
fn de<'de, T: Deserialize<'de>>(t: &[Tok]) -> Option<T> { let mut p = Play { t, pos: 0 }; T::deserialize(&mut p).ok() }

fn nn32<G: Gen>(g: &mut G) -> f32 { let x = g.f32(); g.assume(x == x); x }

#[derive(serde::Serialize, serde::Deserialize)]
struct AsArray { #[serde(with = "palette::serde::as_array")] c: Srgb<u8> }
#[derive(serde::Serialize, serde::Deserialize)]
struct AsUint { #[serde(with = "palette::serde::as_uint")] c: palette::rgb::PackedArgb }
#[derive(serde::Deserialize)]
struct OptAlpha { #[serde(deserialize_with = "palette::serde::deserialize_with_optional_alpha")] c: Srgba<u8> }

fn f32eq(a: f32, b: f32) -> bool { a.to_bits() == b.to_bits() }

harnesses! { REG, "C20", "c20";
    { id: "shape.serialize_all", tier: quick, label: "complete",
      func: "derive(Serialize) for Rgb/Hsv/Lab, hue newtypes, impl Serialize for Alpha -> serde::AlphaSerializer [rgb/rgb.rs, hsv.rs, lab.rs, hues.rs, alpha/alpha.rs, serde/alpha_serializer.rs]",
      desc: "R2+R3 for all non-NaN f32 components: Rgb is struct{red,green,blue}; Alpha<C> is C's own struct with `alpha` appended at the SAME level (field count + 1, no nesting); a hue is a newtype around a bare number; no token for the RGB standard / white point metadata" }
    #[kani::unwind(12)]
    fn shapes(g) {
        let (x, y, z, a) = (nn32(g), nn32(g), nn32(g), nn32(g));
        cov!(g, x != y);
        match ser(&Srgb::new(x, y, z)) {
            Some(t) => ob!("R3.rgb_shape_struct_of_three_fields_no_metadata", t.n == 8 && matches!(t.t[0], Tok::Struct(_, 3))
                && t.t[1] == Tok::Field("red") && t.t[2] == Tok::F32(x.to_bits()) && t.t[3] == Tok::Field("green") && t.t[4] == Tok::F32(y.to_bits())
                && t.t[5] == Tok::Field("blue") && t.t[6] == Tok::F32(z.to_bits()) && t.t[7] == Tok::StructEnd),
            None => ob!("R2.rgb_serializes", false),
        }
        match ser(&Srgba::new(x, y, z, a)) {
            Some(t) => ob!("R2.rgba_alpha_appended_at_same_level", t.n == 10 && matches!(t.t[0], Tok::Struct(_, 4)) && t.t[1] == Tok::Field("red") && t.t[2] == Tok::F32(x.to_bits())
                && t.t[3] == Tok::Field("green") && t.t[5] == Tok::Field("blue") && t.t[6] == Tok::F32(z.to_bits()) && t.t[7] == Tok::Field("alpha") && t.t[8] == Tok::F32(a.to_bits()) && t.t[9] == Tok::StructEnd),
            None => ob!("R2.rgba_serializes", false),
        }
        match ser(&Hsv::<palette::encoding::Srgb, f32>::new(x, y, z)) {
            Some(t) => ob!("R3.hue_is_a_newtype_around_a_bare_number", t.n == 9 && matches!(t.t[0], Tok::Struct(_, 3)) && t.t[1] == Tok::Field("hue") && matches!(t.t[2], Tok::Newtype(_))
                && t.t[3] == Tok::F32(x.to_bits()) && t.t[4] == Tok::Field("saturation") && t.t[6] == Tok::Field("value") && t.t[8] == Tok::StructEnd),
            None => ob!("R2.hsv_serializes", false),
        }
        match ser(&Hsva::<palette::encoding::Srgb, f32>::new(x, y, z, a)) {
            Some(t) => ob!("R2.hsva_alpha_same_level", t.n == 11 && matches!(t.t[0], Tok::Struct(_, 4)) && t.t[8] == Tok::Field("alpha") && t.t[9] == Tok::F32(a.to_bits()) && t.t[10] == Tok::StructEnd),
            None => ob!("R2.hsva_serializes", false),
        }
        match ser(&Laba::<palette::white_point::D65, f32>::new(x, y, z, a)) {
            Some(t) => ob!("R3.lab_no_white_point_token", t.n == 10 && matches!(t.t[0], Tok::Struct(_, 4)) && t.t[1] == Tok::Field("l") && t.t[3] == Tok::Field("a") && t.t[5] == Tok::Field("b") && t.t[7] == Tok::Field("alpha") && t.t[9] == Tok::StructEnd),
            None => ob!("R2.laba_serializes", false),
        }
        let _ = Lab::<palette::white_point::D65, f32>::new(0.0, 0.0, 0.0);
    }

    { id: "round_trip.plain_structs", tier: quick, label: "complete",
      func: "derive(Deserialize) for Rgb, Hsv (hue newtype) composed with derive(Serialize)",
      desc: "R1 for all non-NaN f32 components: deserialize(serialize(c)) == c bit for bit for Rgb and Hsv (struct shape)" }
    #[kani::unwind(12)]
    fn rt_plain(g) {
        let (x, y, z) = (nn32(g), nn32(g), nn32(g));
        cov!(g, x != y);
        let back: Option<Srgb<f32>> = ser(&Srgb::new(x, y, z)).and_then(|t| de(&t.t[..t.n]));
        ob!("R1.rgb_round_trip", match back { Some(c) => f32eq(c.red, x) && f32eq(c.green, y) && f32eq(c.blue, z), None => false });
        let back: Option<Hsv<palette::encoding::Srgb, f32>> = ser(&Hsv::<palette::encoding::Srgb, f32>::new(x, y, z)).and_then(|t| de(&t.t[..t.n]));
        ob!("R1.hsv_round_trip", match back { Some(c) => f32eq(c.hue.into_raw_degrees(), x) && f32eq(c.saturation, y) && f32eq(c.value, z), None => false });
    }

    { id: "round_trip.rgba_struct", tier: quick, label: "complete",
      func: "impl Deserialize for Alpha -> serde::AlphaDeserializer (map path: MapWrapper, AlphaFieldVisitor) composed with AlphaSerializer",
      desc: "R1 for all u8 components: deserializing the token stream that shape.serialize_all proves the serializer emits returns the colour (alpha intercepted at the same level); with the shape contract this is the round trip" }
    #[kani::unwind(12)]
    fn rt_rgba(g) {
        let (r, gr, b, a) = (g.u8(), g.u8(), g.u8(), g.u8());
        cov!(g, r != a);
        // the token stream is exactly the one `shape.serialize_all` proves the serializer emits
        let toks = [Tok::Struct("Rgb", 4), Tok::Field("red"), Tok::U8(r), Tok::Field("green"), Tok::U8(gr), Tok::Field("blue"), Tok::U8(b), Tok::Field("alpha"), Tok::U8(a), Tok::StructEnd];
        let back: Option<Srgba<u8>> = de(&toks);
        ob!("R1.rgba_round_trip", match back { Some(c) => c.red == r && c.green == gr && c.blue == b && c.alpha == a, None => false });
    }

    { id: "round_trip.hsva_struct", tier: quick, label: "complete",
      func: "impl Deserialize for Alpha<Hsv> -> serde::AlphaDeserializer (hue newtype inside) composed with AlphaSerializer",
      desc: "R1 for all non-NaN f32 components: deserializing the emitted token stream (hue newtype inside) returns the colour bit for bit" }
    #[kani::unwind(12)]
    fn rt_hsva(g) {
        let (h, s, v, a) = (nn32(g), nn32(g), nn32(g), nn32(g));
        cov!(g, h != a);
        let toks = [Tok::Struct("Hsv", 4), Tok::Field("hue"), Tok::Newtype("RgbHue"), Tok::F32(h.to_bits()), Tok::Field("saturation"), Tok::F32(s.to_bits()),
                    Tok::Field("value"), Tok::F32(v.to_bits()), Tok::Field("alpha"), Tok::F32(a.to_bits()), Tok::StructEnd];
        let back: Option<Hsva<palette::encoding::Srgb, f32>> = de(&toks);
        ob!("R1.hsva_round_trip", match back { Some(c) => f32eq(c.hue.into_raw_degrees(), h) && f32eq(c.saturation, s) && f32eq(c.value, v) && f32eq(c.alpha, a), None => false });
    }

    { id: "round_trip.laba_struct", tier: quick, label: "complete",
      func: "impl Deserialize for Alpha<Lab> -> serde::AlphaDeserializer (a colour with its own field named `a`)",
      desc: "R1 for all non-NaN f32 components: deserializing the emitted token stream of Laba (fields l, a, b, alpha) returns the colour bit for bit - only the field named `alpha` is the transparency" }
    #[kani::unwind(12)]
    fn rt_laba(g) {
        let (l, a, b, al) = (nn32(g), nn32(g), nn32(g), nn32(g));
        cov!(g, a != al);
        let toks = [Tok::Struct("Lab", 4), Tok::Field("l"), Tok::F32(l.to_bits()), Tok::Field("a"), Tok::F32(a.to_bits()), Tok::Field("b"), Tok::F32(b.to_bits()),
                    Tok::Field("alpha"), Tok::F32(al.to_bits()), Tok::StructEnd];
        let back: Option<Laba<palette::white_point::D65, f32>> = de(&toks);
        ob!("R1.laba_round_trip", match back { Some(c) => f32eq(c.l, l) && f32eq(c.a, a) && f32eq(c.b, b) && f32eq(c.alpha, al), None => false });
    }

    { id: "round_trip.alpha_first_in_map", tier: quick, label: "complete",
      func: "impl Deserialize for Alpha -> serde::AlphaDeserializer::deserialize_struct -> MapWrapper::{next_key_seed, next_value_seed}, AlphaFieldVisitor [serde/alpha_deserializer.rs]",
      desc: "R1 for all u8 components: a self-describing format may hand the keys back in ANY order (serde_json::Value sorts them: alpha comes first for Rgb); with `alpha` as the FIRST key the colour's own fields are still all delivered and the colour is recovered" }
    #[kani::unwind(12)]
    fn rt_alpha_first(g) {
        let (r, gr, b, a) = (g.u8(), g.u8(), g.u8(), g.u8());
        cov!(g, r != a);
        let first = [Tok::Struct("Rgb", 4), Tok::Field("alpha"), Tok::U8(a), Tok::Field("red"), Tok::U8(r), Tok::Field("green"), Tok::U8(gr), Tok::Field("blue"), Tok::U8(b), Tok::StructEnd];
        let back: Option<Srgba<u8>> = de(&first);
        ob!("R1.alpha_first", match back { Some(c) => c.red == r && c.green == gr && c.blue == b && c.alpha == a, None => false });
    }
    { id: "round_trip.alpha_in_the_middle_of_map", tier: quick, label: "complete",
      func: "impl Deserialize for Alpha<Lab> -> serde::AlphaDeserializer::deserialize_struct -> MapWrapper::{next_key_seed, next_value_seed}",
      desc: "R1 for all non-NaN f32 components: Laba with sorted keys (a, alpha, b, l): `alpha` in the MIDDLE of the map, the colour's fields out of declaration order" }
    #[kani::unwind(12)]
    fn rt_alpha_middle(g) {
        let (l, la, lb, al) = (nn32(g), nn32(g), nn32(g), nn32(g));
        cov!(g, la != al);
        let sorted = [Tok::Struct("Lab", 4), Tok::Field("a"), Tok::F32(la.to_bits()), Tok::Field("alpha"), Tok::F32(al.to_bits()), Tok::Field("b"), Tok::F32(lb.to_bits()), Tok::Field("l"), Tok::F32(l.to_bits()), Tok::StructEnd];
        let back: Option<Laba<palette::white_point::D65, f32>> = de(&sorted);
        ob!("R1.laba_sorted_keys", match back { Some(c) => f32eq(c.l, l) && f32eq(c.a, la) && f32eq(c.b, lb) && f32eq(c.alpha, al), None => false });
    }

    { id: "optional_alpha.missing_in_sequence", tier: quick, label: "complete",
      func: "serde::deserialize_with_optional_alpha, AlphaDeserializer seq path [serde.rs, serde/alpha_deserializer.rs]",
      desc: "R4 for all u8 components: a transparent type read from SEQUENCE-shaped data that ends after the colour's own values gets max_intensity; with a trailing element it is the alpha" }
    #[kani::unwind(12)]
    fn opt_missing_seq(g) {
        let (r, gr, b, a) = (g.u8(), g.u8(), g.u8(), g.u8());
        cov!(g, r != gr);
        let no_alpha = [Tok::Struct("Wrap", 1), Tok::Field("c"), Tok::Tuple(3), Tok::U8(r), Tok::U8(gr), Tok::U8(b), Tok::TupleEnd, Tok::StructEnd];
        let o: Option<OptAlpha> = de(&no_alpha);
        ob!("R4.missing_alpha_in_sequence_is_full_opacity", match o { Some(x) => x.c.red == r && x.c.green == gr && x.c.blue == b && x.c.alpha == 255, None => false });
        let with_alpha = [Tok::Struct("Wrap", 1), Tok::Field("c"), Tok::Tuple(4), Tok::U8(r), Tok::U8(gr), Tok::U8(b), Tok::U8(a), Tok::TupleEnd, Tok::StructEnd];
        let o: Option<OptAlpha> = de(&with_alpha);
        ob!("R4.trailing_element_is_alpha", match o { Some(x) => x.c.blue == b && x.c.alpha == a, None => false });
    }

    { id: "sequence_shape.rgba_rgb", tier: quick, label: "complete",
      func: "AlphaDeserializer (seq path: AlphaSeqVisitor), derive(Deserialize) visit_seq",
      desc: "R1 for all u8 components: colours read from tuple/seq shaped data, colour fields in order then alpha last" }
    #[kani::unwind(12)]
    fn seq_shape(g) {
        let (r, gr, b, a) = (g.u8(), g.u8(), g.u8(), g.u8());
        cov!(g, r != gr && a != 255);
        let seq4 = [Tok::Tuple(4), Tok::U8(r), Tok::U8(gr), Tok::U8(b), Tok::U8(a), Tok::TupleEnd];
        let c: Option<Srgba<u8>> = de(&seq4);
        ob!("R1.rgba_from_sequence_alpha_last", match c { Some(x) => x.red == r && x.green == gr && x.blue == b && x.alpha == a, None => false });
        let seq3 = [Tok::Tuple(3), Tok::U8(r), Tok::U8(gr), Tok::U8(b), Tok::TupleEnd];
        let c: Option<Srgb<u8>> = de(&seq3);
        ob!("R1.rgb_from_sequence", match c { Some(x) => x.red == r && x.green == gr && x.blue == b, None => false });
    }

    { id: "optional_alpha.missing", tier: quick, label: "complete",
      func: "serde::deserialize_with_optional_alpha [serde.rs]",
      desc: "R4 for all u8 components: a transparent type read from struct-shaped data WITHOUT an alpha field gets max_intensity (255)" }
    #[kani::unwind(12)]
    fn opt_missing(g) {
        let (r, gr, b) = (g.u8(), g.u8(), g.u8());
        cov!(g, r != gr);
        let no_alpha = [Tok::Struct("Wrap", 1), Tok::Field("c"), Tok::Struct("Rgb", 3), Tok::Field("red"), Tok::U8(r), Tok::Field("green"), Tok::U8(gr), Tok::Field("blue"), Tok::U8(b), Tok::StructEnd, Tok::StructEnd];
        let o: Option<OptAlpha> = de(&no_alpha);
        ob!("R4.missing_alpha_is_full_opacity", match o { Some(x) => x.c.red == r && x.c.green == gr && x.c.blue == b && x.c.alpha == 255, None => false });
    }

    { id: "optional_alpha.present", tier: quick, label: "complete",
      func: "serde::deserialize_with_optional_alpha [serde.rs]",
      desc: "R4 for all u8 components: when the alpha field is present it is used" }
    #[kani::unwind(12)]
    fn opt_present(g) {
        let (r, gr, b, a) = (g.u8(), g.u8(), g.u8(), g.u8());
        cov!(g, a != 255);
        let with_alpha = [Tok::Struct("Wrap", 1), Tok::Field("c"), Tok::Struct("Rgb", 4), Tok::Field("red"), Tok::U8(r), Tok::Field("green"), Tok::U8(gr), Tok::Field("blue"), Tok::U8(b), Tok::Field("alpha"), Tok::U8(a), Tok::StructEnd, Tok::StructEnd];
        let o: Option<OptAlpha> = de(&with_alpha);
        ob!("R4.present_alpha_is_used", match o { Some(x) => x.c.red == r && x.c.green == gr && x.c.alpha == a, None => false });
    }

    { id: "helpers.as_array_as_uint", tier: quick, label: "complete",
      func: "serde::{serialize_as_array, deserialize_as_array, serialize_as_uint, deserialize_as_uint} [serde.rs]",
      desc: "R5 for all values: as_array emits exactly the tokens of cast::into_array (r,g,b tuple) and reads them back; as_uint emits the packed integer and reads it back" }
    #[kani::unwind(12)]
    fn helpers(g) {
        let (r, gr, b) = (g.u8(), g.u8(), g.u8());
        let p = g.u32();
        cov!(g, r != gr && p > 7);
        let w = AsArray { c: Srgb::new(r, gr, b) };
        if let Some(t) = ser(&w) {
            ob!("R5.as_array_tokens_are_cast_result", t.n == 8 && t.t[1] == Tok::Field("c") && t.t[2] == Tok::Tuple(3) && t.t[3] == Tok::U8(r) && t.t[4] == Tok::U8(gr) && t.t[5] == Tok::U8(b) && t.t[6] == Tok::TupleEnd);
            let back: Option<AsArray> = de(&t.t[..t.n]);
            ob!("R5.as_array_round_trip", match back { Some(x) => x.c.red == r && x.c.green == gr && x.c.blue == b, None => false });
        } else { ob!("R5.as_array_serializes", false); }
        let u = AsUint { c: p.into() };
        if let Some(t) = ser(&u) {
            ob!("R5.as_uint_token_is_cast_result", t.n == 4 && t.t[2] == Tok::U32(p));
            let back: Option<AsUint> = de(&t.t[..t.n]);
            ob!("R5.as_uint_round_trip", match back { Some(x) => x.c.color == p, None => false });
        } else { ob!("R5.as_uint_serializes", false); }
    }
}

pub fn registry() -> Vec<&'static crate::macros::Entry> { REG.iter().collect() }

/// native debugging aid: print the token streams of sample values
pub fn debug_dump() {
    let show = |name: &str, r: Option<Rec>| { match r { Some(r) => println!("{} ({}): {:?}", name, r.n, &r.t[..r.n]), None => println!("{}: ERROR", name) } };
    show("hsv", ser(&Hsv::<palette::encoding::Srgb, f32>::new(1.0, 2.0, 3.0)));
    show("hsva", ser(&Hsva::<palette::encoding::Srgb, f32>::new(1.0, 2.0, 3.0, 4.0)));
    show("rgba", ser(&Srgba::<f32>::new(1.0, 2.0, 3.0, 4.0)));
    show("as_array", ser(&AsArray { c: Srgb::new(1, 2, 3) }));
    show("as_uint", ser(&AsUint { c: 7u32.into() }));
    let t = ser(&AsArray { c: Srgb::new(1, 2, 3) }).unwrap();
    let back: Option<AsArray> = de(&t.t[..t.n]);
    println!("as_array back: {:?}", back.map(|x| (x.c.red, x.c.green, x.c.blue)));
    let seq4 = [Tok::Tuple(4), Tok::U8(1), Tok::U8(2), Tok::U8(3), Tok::U8(4), Tok::TupleEnd];
    let c: Option<Srgba<u8>> = de(&seq4);
    println!("rgba from seq: {:?}", c.map(|x| (x.red, x.green, x.blue, x.alpha)));
}

