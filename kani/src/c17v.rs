//! C17 - the branch-free (SIMD) half of palette's conversions equals the scalar half, bit-precisely in f32.
//!
//! Several conversions are written twice: a scalar half (taken when `T::Mask == bool`) and a branch-free half for
//! every other mask type (`wide::f32x4`, ...). `V1` is a ONE-lane vector type with IEEE f32 lane semantics and a
//! non-`bool` mask that evaluates both arms of a `lazy_select` and blends, exactly like a SIMD mask: instantiating
//! the real generic code at `V1` runs palette's branch-free half on one lane, so "each SIMD lane equals the scalar
//! result for that lane's input" becomes a contract CBMC decides for every f32 input (the lanes of a real vector are
//! independent: palette's code never mixes lanes, see the lane-wise contracts of c17.rs).
use crate::gen::Gen;
use core::ops::{Add, BitAnd, BitOr, BitXor, Div, Mul, Neg, Not, Sub};
use palette::angle::RealAngle;
use palette::bool_mask::{BoolMask, HasBoolMask, LazySelect, Select};
use palette::convert::FromColorUnclamped;
use palette::num::{MinMax, One, PartialCmp, Real, Zero};
use palette::{Hsl, Hsv, Srgb};

#[derive(Clone, Copy, Debug, PartialEq)]
pub struct V1(pub f32);
#[derive(Clone, Copy, Debug, PartialEq)]
pub struct M1(pub bool);

impl BoolMask for M1 {
    fn from_bool(v: bool) -> Self { M1(v) }
    fn is_true(&self) -> bool { self.0 }
    fn is_false(&self) -> bool { !self.0 }
}
impl HasBoolMask for V1 { type Mask = M1; }
impl Select<V1> for M1 { fn select(self, a: V1, b: V1) -> V1 { if self.0 { a } else { b } } }
impl LazySelect<V1> for M1 {
    // like a SIMD mask: BOTH arms are evaluated, the result is blended
    fn lazy_select<A: FnOnce() -> V1, B: FnOnce() -> V1>(self, a: A, b: B) -> V1 { let (x, y) = (a(), b()); if self.0 { x } else { y } }
}
macro_rules! mask_ops { ($($tr:ident $f:ident $op:tt),*) => { $(
    impl $tr for M1 { type Output = M1; fn $f(self, o: M1) -> M1 { M1(self.0 $op o.0) } }
    impl<'a> $tr<&'a M1> for M1 { type Output = M1; fn $f(self, o: &'a M1) -> M1 { M1(self.0 $op o.0) } }
)* } }
mask_ops!(BitAnd bitand &, BitOr bitor |, BitXor bitxor ^);
impl Not for M1 { type Output = M1; fn not(self) -> M1 { M1(!self.0) } }

macro_rules! arith { ($($tr:ident $f:ident $op:tt),*) => { $(
    impl $tr for V1 { type Output = V1; fn $f(self, o: V1) -> V1 { V1(self.0 $op o.0) } }
    impl<'a> $tr<&'a V1> for V1 { type Output = V1; fn $f(self, o: &'a V1) -> V1 { V1(self.0 $op o.0) } }
)* } }
arith!(Add add +, Sub sub -, Mul mul *, Div div /);
impl Neg for V1 { type Output = V1; fn neg(self) -> V1 { V1(-self.0) } }
impl Real for V1 { fn from_f64(n: f64) -> Self { V1(n as f32) } }
impl Zero for V1 { fn zero() -> Self { V1(0.0) } }
impl One for V1 { fn one() -> Self { V1(1.0) } }
impl MinMax for V1 {
    fn min(self, o: Self) -> Self { V1(f32::min(self.0, o.0)) }
    fn max(self, o: Self) -> Self { V1(f32::max(self.0, o.0)) }
    fn min_max(self, o: Self) -> (Self, Self) { (V1(f32::min(self.0, o.0)), V1(f32::max(self.0, o.0))) }
}
impl PartialCmp for V1 {
    fn lt(&self, o: &Self) -> M1 { M1(self.0 < o.0) }
    fn lt_eq(&self, o: &Self) -> M1 { M1(self.0 <= o.0) }
    fn eq(&self, o: &Self) -> M1 { M1(self.0 == o.0) }
    fn neq(&self, o: &Self) -> M1 { M1(self.0 != o.0) }
    fn gt_eq(&self, o: &Self) -> M1 { M1(self.0 >= o.0) }
    fn gt(&self, o: &Self) -> M1 { M1(self.0 > o.0) }
}
impl RealAngle for V1 {
    fn radians_to_degrees(self) -> Self { V1(self.0.to_degrees()) }
    fn degrees_to_radians(self) -> Self { V1(self.0.to_radians()) }
}

fn unit<G: Gen>(g: &mut G) -> f32 { let x = g.f32(); g.assume(x >= 0.0 && x <= 1.0); x }

harnesses! { REG, "C17", "c17v";
    { id: "halves.rgb_to_hsl.lane_in_scalar_range", tier: quick, label: "complete",
      func: "FromColorUnclamped<Rgb> for Hsl: branch-free half (any mask type other than bool) [hsl.rs]",
      desc: "for every f32 RGB colour in [0,1]^3 the branch-free half (run on a one-lane vector type with IEEE f32 lanes and a blending mask) yields what the scalar half is proved to yield (K.finite.rgb_to_hsl_f32 and the C15 range contracts): finite saturation and lightness inside [0, 1] (1e-6) - in particular for colours whose extremes are both just below 1, where the textbook divisor 2 - (max + min) rounds to 0" }
    fn hsl_range(g) {
        let (r, gr, b) = (unit(g), unit(g), unit(g));
        cov!(g, r > 0.9 && gr > 0.9 && b > 0.9 && r != b);
        let v: Hsl<palette::encoding::Srgb, V1> = Hsl::from_color_unclamped(Srgb::new(V1(r), V1(gr), V1(b)));
        ob!("H1.lane_saturation_finite_in_range", v.saturation.0 >= 0.0 && v.saturation.0 <= 1.000001);
        ob!("H1.lane_lightness_finite_in_range", v.lightness.0 >= 0.0 && v.lightness.0 <= 1.000001);
    }
    { id: "halves.rgb_to_hsv.lane_in_scalar_range", tier: quick, label: "complete",
      func: "FromColorUnclamped<Rgb> for Hsv: branch-free half [hsv.rs]",
      desc: "for every f32 RGB colour in [0,1]^3 the branch-free half yields finite saturation and value inside [0, 1] (1e-6), like the scalar half" }
    fn hsv_range(g) {
        let (r, gr, b) = (unit(g), unit(g), unit(g));
        cov!(g, r > 0.9 && gr > 0.9 && b > 0.9 && r != b);
        let v: Hsv<palette::encoding::Srgb, V1> = Hsv::from_color_unclamped(Srgb::new(V1(r), V1(gr), V1(b)));
        ob!("H2.lane_saturation_finite_in_range", v.saturation.0 >= 0.0 && v.saturation.0 <= 1.000001);
        ob!("H2.lane_value_finite_in_range", v.value.0 >= 0.0 && v.value.0 <= 1.0);
    }
    // not registered: the relational contracts (lane saturation bit-identical to / within 1e-5 of the scalar half's) put two f32
    // dividers into one query and CBMC does not finish within 900 s (DESIGN.md 8.5)
}

pub fn registry() -> Vec<&'static crate::macros::Entry> { REG.iter().collect() }
