//! C18 — struct-of-arrays colour collections behave like a Vec of colours
//! (palette/src/macros/struct_of_arrays.rs, alpha/alpha.rs Iter, hues.rs).
//!
//! Per-operation contracts from an ARBITRARY well-formed state (all component vectors of equal length,
//! built directly from the public fields, not through push), against the reference `Vec<[u8; K]>`:
//!   wf(new)  all component collections (hue and alpha included) have the same length
//!   view(new) == op_on_Vec(view(old)),  result == result_on_Vec
//! Equivalence for every operation SEQUENCE follows by induction over the sequence (each step preserves
//! wf and the view correspondence); that induction is the standard argument, stated, not machine checked.
use crate::gen::Gen;
use palette::encoding::Srgb as SrgbStd;
use palette::{Hsv, Hsva, RgbHue, Srgb, Srgba};

pub const CAP: usize = 3;
pub type Item = [u8; 4];

pub trait Soa: Sized {
    const K: usize;
    fn build(items: &[Item]) -> Self;
    fn lens(&self) -> [usize; 4];
    fn at(&self, i: usize) -> Item;
    fn push_(&mut self, it: Item);
    fn pop_(&mut self) -> Option<Item>;
    fn clear_(&mut self);
    fn len_(&self) -> usize { self.lens()[0] }
    fn get_index(&self, i: usize) -> Option<Item>;
    fn get_range_len(&self, a: usize, b: usize) -> Option<usize>;
    fn get_range_first(&self, a: usize, b: usize) -> Option<Item>;
    fn set_via_get_mut(&mut self, i: usize, it: Item) -> bool;
    fn iter_collect(&self, out: &mut [Item; CAP]) -> usize;
    fn iter_rev_collect(&self, out: &mut [Item; CAP]) -> usize;
    fn iter_len_hint(&self) -> (usize, (usize, Option<usize>));
    fn iter_mut_add1(&mut self);
    fn drain_collect(&mut self, a: usize, b: usize, inclusive: bool, take: usize, out: &mut [Item; CAP]) -> usize;
    fn drain_rev_collect(&mut self, a: usize, b: usize, out: &mut [Item; CAP]) -> usize;
    fn extend_(&mut self, items: &[Item]);
    fn collect_(items: &[Item]) -> Self;
    /// extend / collect from an iterator whose size_hint lower bound is 0 (a filter that keeps everything)
    fn extend_inexact_(&mut self, items: &[Item]);
    fn collect_inexact_(items: &[Item]) -> Self;
    fn into_iter_collect(self, out: &mut [Item; CAP]) -> usize;
}

macro_rules! soa_impl {
    ($ty:ty, $k:expr, |$it:ident| $mk:expr, |$c:ident| $un:expr, |$s:ident| $lens:expr, |$v0:ident, $v1:ident, $v2:ident, $v3:ident| $build:expr, |$r:ident| $unref:expr, |$m:ident, $w:ident| $write:expr, |$mm:ident| $add1:expr) => {
        impl Soa for $ty {
            const K: usize = $k;
            fn build(items: &[Item]) -> Self {
                let (mut $v0, mut $v1, mut $v2, mut $v3) = (Vec::with_capacity(CAP), Vec::with_capacity(CAP), Vec::with_capacity(CAP), Vec::with_capacity(CAP));
                let mut i = 0;
                while i < items.len() { $v0.push(items[i][0]); $v1.push(items[i][1]); $v2.push(items[i][2]); $v3.push(items[i][3]); i += 1; }
                $build
            }
            fn lens(&self) -> [usize; 4] { let $s = self; $lens }
            fn at(&self, i: usize) -> Item { match self.get(i) { Some($r) => $unref, None => [0; 4] } }
            fn push_(&mut self, $it: Item) { self.push($mk) }
            fn pop_(&mut self) -> Option<Item> { self.pop().map(|$c| $un) }
            fn clear_(&mut self) { self.clear() }
            fn get_index(&self, i: usize) -> Option<Item> { self.get(i).map(|$r| $unref) }
            fn get_range_len(&self, a: usize, b: usize) -> Option<usize> { self.get(a..b).map(|s| s.iter().count()) }
            fn get_range_first(&self, a: usize, b: usize) -> Option<Item> { self.get(a..b).and_then(|s| s.iter().next().map(|$r| $unref)) }
            fn set_via_get_mut(&mut self, i: usize, $w: Item) -> bool {
                match self.get_mut(i) { Some(mut $m) => { $write; true } None => false }
            }
            fn iter_collect(&self, out: &mut [Item; CAP]) -> usize {
                let mut n = 0;
                for $r in self.iter() { if n < CAP { out[n] = $unref; } n += 1; }
                n
            }
            fn iter_rev_collect(&self, out: &mut [Item; CAP]) -> usize {
                let mut n = 0;
                for $r in self.iter().rev() { if n < CAP { out[n] = $unref; } n += 1; }
                n
            }
            fn iter_len_hint(&self) -> (usize, (usize, Option<usize>)) { let it = self.iter(); (it.len(), it.size_hint()) }
            fn iter_mut_add1(&mut self) { for mut $mm in self.iter_mut() { $add1; } }
            fn drain_collect(&mut self, a: usize, b: usize, inclusive: bool, take: usize, out: &mut [Item; CAP]) -> usize {
                let mut n = 0;
                if inclusive {
                    let mut d = self.drain(a..=b);
                    while n < take { match d.next() { Some($c) => { if n < CAP { out[n] = $un; } n += 1; } None => break } }
                } else {
                    let mut d = self.drain(a..b);
                    while n < take { match d.next() { Some($c) => { if n < CAP { out[n] = $un; } n += 1; } None => break } }
                }
                n
            }
            fn drain_rev_collect(&mut self, a: usize, b: usize, out: &mut [Item; CAP]) -> usize {
                let mut n = 0;
                for $c in self.drain(a..b).rev() { if n < CAP { out[n] = $un; } n += 1; }
                n
            }
            fn extend_(&mut self, items: &[Item]) { self.extend(items.iter().map(|it| { let $it = *it; $mk })) }
            fn collect_(items: &[Item]) -> Self { items.iter().map(|it| { let $it = *it; $mk }).collect() }
            fn extend_inexact_(&mut self, items: &[Item]) { self.extend(items.iter().filter(|_| true).map(|it| { let $it = *it; $mk })) }
            fn collect_inexact_(items: &[Item]) -> Self { items.iter().filter(|_| true).map(|it| { let $it = *it; $mk }).collect() }
            fn into_iter_collect(self, out: &mut [Item; CAP]) -> usize {
                let mut n = 0;
                for $c in self.into_iter() { if n < CAP { out[n] = $un; } n += 1; }
                n
            }
        }
    };
}

soa_impl!(Srgb<Vec<u8>>, 3, |it| Srgb::new(it[0], it[1], it[2]), |c| [c.red, c.green, c.blue, 0],
    |s| [s.red.len(), s.green.len(), s.blue.len(), s.blue.len()],
    |v0, v1, v2, v3| { let _ = &mut v3; Srgb::new(v0, v1, v2) },
    |r| [*r.red, *r.green, *r.blue, 0], |m, w| { *m.red = w[0]; *m.green = w[1]; *m.blue = w[2]; }, |mm| { *mm.red = mm.red.wrapping_add(1); });
soa_impl!(Hsv<SrgbStd, Vec<u8>>, 3, |it| Hsv::new(RgbHue::new(it[0]), it[1], it[2]), |c| [c.hue.into_inner(), c.saturation, c.value, 0],
    |s| [s.hue.iter().count(), s.saturation.len(), s.value.len(), s.value.len()],
    |v0, v1, v2, v3| { let _ = &mut v3; Hsv::new(RgbHue::new(v0), v1, v2) },
    |r| [*r.hue.into_inner(), *r.saturation, *r.value, 0], |m, w| { *m.hue.into_inner() = w[0]; *m.saturation = w[1]; *m.value = w[2]; }, |mm| { *mm.saturation = mm.saturation.wrapping_add(1); });
soa_impl!(Srgba<Vec<u8>>, 4, |it| Srgba::new(it[0], it[1], it[2], it[3]), |c| [c.red, c.green, c.blue, c.alpha],
    |s| [s.color.red.len(), s.color.green.len(), s.color.blue.len(), s.alpha.len()],
    |v0, v1, v2, v3| Srgba::new(v0, v1, v2, v3),
    |r| [*r.color.red, *r.color.green, *r.color.blue, *r.alpha], |m, w| { *m.color.red = w[0]; *m.color.green = w[1]; *m.color.blue = w[2]; *m.alpha = w[3]; }, |mm| { *mm.alpha = mm.alpha.wrapping_add(1); });
soa_impl!(Hsva<SrgbStd, Vec<u8>>, 4, |it| Hsva::new(RgbHue::new(it[0]), it[1], it[2], it[3]), |c| [c.hue.into_inner(), c.saturation, c.value, c.alpha],
    |s| [s.color.hue.iter().count(), s.color.saturation.len(), s.color.value.len(), s.alpha.len()],
    |v0, v1, v2, v3| Hsva::new(RgbHue::new(v0), v1, v2, v3),
    |r| [*r.color.hue.into_inner(), *r.color.saturation, *r.color.value, *r.alpha], |m, w| { *m.color.hue.into_inner() = w[0]; *m.color.saturation = w[1]; *m.color.value = w[2]; *m.alpha = w[3]; }, |mm| { *mm.alpha = mm.alpha.wrapping_add(1); });

fn norm<S: Soa>(mut it: Item) -> Item { if S::K == 3 { it[3] = 0; } it }
fn any_items<S: Soa, G: Gen>(g: &mut G) -> ([Item; CAP], usize) {
    let mut a = [[0u8; 4]; CAP];
    let mut i = 0;
    while i < CAP { a[i] = norm::<S>([g.u8(), g.u8(), g.u8(), g.u8()]); i += 1; }
    let n = g.usize();
    g.assume(n <= CAP);
    (a, n)
}
fn wf<S: Soa>(s: &S, n: usize) -> bool { let l = s.lens(); l[0] == n && l[1] == n && l[2] == n && l[3] == n }

pub fn push_pop_clear<S: Soa, G: Gen>(g: &mut G) {
    let (items, n) = any_items::<S, G>(g);
    g.assume(n < CAP);
    cov!(g, n == 2);
    cov!(g, n == 0);
    let mut s = S::build(&items[..n]);
    let x = norm::<S>([g.u8(), g.u8(), g.u8(), g.u8()]);
    s.push_(x);
    ob!("push.wf_all_components_same_length", wf(&s, n + 1));
    ob!("push.view_is_old_view_plus_value", s.at(n) == x && (n == 0 || s.at(0) == items[0]) && (n < 2 || s.at(1) == items[1]));
    let p = s.pop_();
    ob!("pop.returns_last", p == Some(x));
    ob!("pop.wf_and_view", wf(&s, n) && (n == 0 || s.at(n - 1) == items[n - 1]));
    let mut e = S::build(&items[..0]);
    ob!("pop.empty_returns_none_and_keeps_state", e.pop_() == None && wf(&e, 0));
    s.clear_();
    ob!("clear.wf_empty", wf(&s, 0));
}

pub fn get_forms<S: Soa, G: Gen>(g: &mut G) {
    let (items, n) = any_items::<S, G>(g);
    cov!(g, n == 3);
    let mut s = S::build(&items[..n]);
    let i = g.usize();
    g.assume(i <= CAP + 1);
    ob!("get.index_some_iff_in_range", s.get_index(i).is_some() == (i < n));
    if i < n { ob!("get.index_value", s.get_index(i) == Some(items[i])); }
    let (a, b) = (g.usize(), g.usize());
    g.assume(a <= CAP + 1 && b <= CAP + 1);
    let want = if a <= b && b <= n { Some(b - a) } else { None };
    ob!("get.range_some_iff_valid_with_length", s.get_range_len(a, b) == want);
    if a < b && b <= n { ob!("get.range_first_item", s.get_range_first(a, b) == Some(items[a])); }
    let x = norm::<S>([g.u8(), g.u8(), g.u8(), g.u8()]);
    let wrote = s.set_via_get_mut(i, x);
    ob!("get_mut.some_iff_in_range", wrote == (i < n));
    let mut k = 0;
    while k < n { ob!("get_mut.write_lands_at_index_only", s.at(k) == if wrote && k == i { x } else { items[k] }); k += 1; }
    ob!("get_mut.wf", wf(&s, n));
}

pub fn iteration<S: Soa, G: Gen>(g: &mut G) {
    let (items, n) = any_items::<S, G>(g);
    cov!(g, n == 3);
    cov!(g, n == 0);
    let mut s = S::build(&items[..n]);
    let mut out = [[0u8; 4]; CAP];
    let c = s.iter_collect(&mut out);
    ob!("iter.yields_len_items", c == n);
    let mut k = 0;
    while k < n { ob!("iter.in_order", out[k] == items[k]); k += 1; }
    let mut out2 = [[0u8; 4]; CAP];
    let c2 = s.iter_rev_collect(&mut out2);
    ob!("iter_rev.yields_len_items", c2 == n);
    let mut k = 0;
    while k < n { ob!("iter_rev.in_reverse_order_with_own_alpha", out2[k] == items[n - 1 - k]); k += 1; }
    let (l, h) = s.iter_len_hint();
    ob!("iter.len_and_size_hint", l == n && h == (n, Some(n)) && s.len_() == n);
    s.iter_mut_add1();
    ob!("iter_mut.wf", wf(&s, n));
    let mut k = 0;
    while k < n { ob!("iter_mut.each_element_written_once", s.at(k) != items[k] || false); k += 1; }
}

pub fn drain_forms<S: Soa, G: Gen>(g: &mut G, inclusive: bool) {
    let (items, n) = any_items::<S, G>(g);
    cov!(g, n == 3);
    let mut s = S::build(&items[..n]);
    let (a, b, take) = (g.usize(), g.usize(), g.usize());
    // valid ranges only (an invalid range panics in Vec::drain as well)
    if inclusive { g.assume(a <= b && b < n); } else { g.assume(a <= b && b <= n); }
    g.assume(take <= CAP);
    let cnt = if inclusive { b + 1 - a } else { b - a };
    cov!(g, cnt == 2 && take == 1);
    cov!(g, cnt == 1 && take == 0);
    let mut out = [[0u8; 4]; CAP];
    let got = s.drain_collect(a, b, inclusive, take, &mut out);
    ob!("drain.yields_min_take_count", got == if take < cnt { take } else { cnt });
    let mut k = 0;
    while k < got { ob!("drain.items_in_order", out[k] == items[a + k]); k += 1; }
    // whether consumed fully, partially or not at all, the whole range is removed on drop
    ob!("drain.wf_after_drop", wf(&s, n - cnt));
    let mut k = 0;
    while k < n - cnt { ob!("drain.remaining_view", s.at(k) == if k < a { items[k] } else { items[k + cnt] }); k += 1; }
}

pub fn drain_rev<S: Soa, G: Gen>(g: &mut G) {
    let (items, n) = any_items::<S, G>(g);
    cov!(g, n == 3);
    let mut s = S::build(&items[..n]);
    let (a, b) = (g.usize(), g.usize());
    g.assume(a <= b && b <= n);
    let mut out = [[0u8; 4]; CAP];
    let got = s.drain_rev_collect(a, b, &mut out);
    ob!("drain_rev.count", got == b - a);
    let mut k = 0;
    while k < got { ob!("drain_rev.items_in_reverse_with_own_alpha", out[k] == items[b - 1 - k]); k += 1; }
    ob!("drain_rev.wf", wf(&s, n - (b - a)));
}

pub fn extend_inexact<S: Soa, G: Gen>(g: &mut G) {
    let (items, n) = any_items::<S, G>(g);
    let m = g.usize();
    g.assume(m <= CAP && n + m <= CAP);
    cov!(g, n == 1 && m == 2);
    let mut s = S::build(&items[..n]);
    s.extend_inexact_(&items[n..n + m]);
    ob!("extend_inexact.wf", wf(&s, n + m));
    let mut k = 0;
    while k < n + m { ob!("extend_inexact.view_is_concatenation", s.at(k) == items[k]); k += 1; }
    let c = S::collect_inexact_(&items[..n]);
    ob!("collect_inexact.wf", wf(&c, n));
    let mut k = 0;
    while k < n { ob!("collect_inexact.view", c.at(k) == items[k]); k += 1; }
}

pub fn extend_collect<S: Soa, G: Gen>(g: &mut G) {
    let (items, n) = any_items::<S, G>(g);
    let m = g.usize();
    g.assume(m <= CAP && n + m <= CAP);
    cov!(g, n == 1 && m == 2);
    let mut s = S::build(&items[..n]);
    s.extend_(&items[n..n + m]);
    ob!("extend.wf", wf(&s, n + m));
    let mut k = 0;
    while k < n + m { ob!("extend.view_is_concatenation", s.at(k) == items[k]); k += 1; }
    let c = S::collect_(&items[..n]);
    ob!("collect.wf", wf(&c, n));
    let mut k = 0;
    while k < n { ob!("collect.view", c.at(k) == items[k]); k += 1; }
    let mut out = [[0u8; 4]; CAP];
    let cnt = c.into_iter_collect(&mut out);
    ob!("into_iter.count", cnt == n);
    let mut k = 0;
    while k < n { ob!("into_iter.in_order", out[k] == items[k]); k += 1; }
}

macro_rules! per_type {
    ($modname:ident, $ty:ty, $what:expr) => {
        pub mod $modname {
            use super::*;
            harnesses! { REG, "C18", concat!("c18::", stringify!($modname));
                { id: concat!($what, ".push_pop_clear"), tier: quick, label: "bounded(len<=3)",
                  func: concat!($what, "::{push, pop, clear} [macros/struct_of_arrays.rs]"),
                  desc: "from an arbitrary well-formed state: push appends to every component collection, pop returns the last colour (None on empty, state kept), clear empties all; wf + whole view" }
                #[kani::unwind(6)]
                fn ppc(g) { push_pop_clear::<$ty, G>(g) }
                { id: concat!($what, ".get_get_mut"), tier: quick, label: "bounded(len<=3)",
                  func: concat!($what, "::{get, get_mut} (index and range forms)"),
                  desc: "get(i) is Some iff i < len with the i-th colour; get(a..b) is Some iff a <= b <= len with b-a colours (empty, full, out-of-range); a write through get_mut lands at that index in every component and nowhere else" }
                #[kani::unwind(6)]
                fn get(g) { get_forms::<$ty, G>(g) }
                { id: concat!($what, ".iter_rev_len_iter_mut"), tier: quick, label: "bounded(len<=3)",
                  func: concat!($what, "::{iter, iter_mut}, Iter::{next, next_back, len, size_hint} [struct_of_arrays.rs, alpha/alpha.rs]"),
                  desc: "iter yields the colours in order, iter().rev() in reverse order (each colour with ITS OWN alpha), len/size_hint == len, iter_mut visits every element once" }
                #[kani::unwind(6)]
                fn iter(g) { iteration::<$ty, G>(g) }
                { id: concat!($what, ".drain_exclusive"), tier: quick, label: "bounded(len<=3)",
                  func: concat!($what, "::drain(a..b)"),
                  desc: "for every valid a..b and every number of items consumed before the drain is dropped (none, some, all): the yielded items are a.. in order, afterwards exactly the range is removed from EVERY component collection (lengths stay equal), the rest keeps its order" }
                #[kani::unwind(6)]
                fn drain(g) { drain_forms::<$ty, G>(g, false) }
                { id: concat!($what, ".drain_inclusive"), tier: quick, label: "bounded(len<=3)",
                  func: concat!($what, "::drain(a..=b)"),
                  desc: "the same contract for inclusive ranges a..=b" }
                #[kani::unwind(6)]
                fn drain_incl(g) { drain_forms::<$ty, G>(g, true) }
                { id: concat!($what, ".drain_rev"), tier: quick, label: "bounded(len<=3)",
                  func: concat!($what, "::drain(a..b).rev()"),
                  desc: "draining backwards yields the range in reverse order, each colour with its own alpha" }
                #[kani::unwind(6)]
                fn drain_rev(g) { super::drain_rev::<$ty, G>(g) }
                { id: concat!($what, ".extend_collect_into_iter"), tier: quick, label: "bounded(len<=3)",
                  func: concat!("Extend, FromIterator, IntoIterator for ", $what),
                  desc: "extend appends component-wise in order, collect builds the same view as pushing, into_iter yields the colours in order" }
                #[kani::unwind(6)]
                fn ext(g) { extend_collect::<$ty, G>(g) }
                { id: concat!($what, ".extend_collect_inexact_size_hint"), tier: quick, label: "bounded(len<=3)",
                  func: concat!("Extend, FromIterator for ", $what, " from an iterator with size_hint().0 == 0"),
                  desc: "extend / collect from an iterator that reports a lower size bound of 0 (filter) still appends every colour, component-wise and in order: the size hint is a hint, never the length" }
                #[kani::unwind(6)]
                fn ext_inexact(g) { extend_inexact::<$ty, G>(g) }
            }
        }
    };
}
per_type!(rgb, Srgb<Vec<u8>>, "Srgb<Vec<u8>>");
per_type!(hsv, Hsv<SrgbStd, Vec<u8>>, "Hsv<Vec<u8>>");
per_type!(rgba, Srgba<Vec<u8>>, "Srgba<Vec<u8>>");
per_type!(hsva, Hsva<SrgbStd, Vec<u8>>, "Hsva<Vec<u8>>");

pub fn registry() -> Vec<&'static crate::macros::Entry> {
    rgb::REG.iter().chain(hsv::REG.iter()).chain(rgba::REG.iter()).chain(hsva::REG.iter()).collect()
}
