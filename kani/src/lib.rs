//! Engine K: contract obligations on the real /repo/palette crate, discharged by
//! Kani/CBMC and replayable natively (see gen.rs).
#![allow(clippy::all)]
pub mod gen;
#[macro_use]
pub mod macros;

pub mod lut_dump;
pub mod c03;
pub mod c04;
pub mod c05;
pub mod c06;
pub mod c07;
pub mod c11;
pub mod c12;
pub mod c13;
pub mod c17;
pub mod c17v;
pub mod c18;
pub mod c20;
pub mod extra;

pub fn registry() -> Vec<&'static macros::Entry> {
    let mut v = Vec::new();
    v.extend(c03::registry());
    v.extend(c04::registry());
    v.extend(c05::registry());
    v.extend(c06::registry());
    v.extend(c07::registry());
    v.extend(c11::registry());
    v.extend(c12::registry());
    v.extend(c13::registry());
    v.extend(c17::registry());
    v.extend(c17v::registry());
    v.extend(c18::registry());
    v.extend(c20::registry());
    v.extend(extra::registry());
    v
}
