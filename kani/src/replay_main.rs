//! Native side of engine K: lists the obligation table and re-runs a harness
//! body on the bytes of a Kani counterexample against the real /repo build.
use pv_kani::gen::{AssumeFailed, Bytes};

fn esc(s: &str) -> String {
    let mut o = String::new();
    for c in s.chars() {
        match c {
            '"' => o.push_str("\\\""),
            '\\' => o.push_str("\\\\"),
            '\n' => o.push_str("\\n"),
            c if (c as u32) < 0x20 => o.push_str(&format!("\\u{:04x}", c as u32)),
            c => o.push(c),
        }
    }
    o
}

fn main() {
    let args: Vec<String> = std::env::args().collect();
    if args.len() >= 2 && args[1] == "--list" {
        for e in pv_kani::registry() {
            println!(
                "{{\"prop\":\"{}\",\"harness\":\"{}\",\"id\":\"{}\",\"tier\":\"{}\",\"label\":\"{}\",\"func\":\"{}\",\"desc\":\"{}\"}}",
                esc(e.prop), esc(e.harness), esc(e.id), esc(e.tier), esc(e.label), esc(e.func), esc(e.desc)
            );
        }
        return;
    }
    if args.len() >= 2 && args[1] == "--c20" { pv_kani::c20::debug_dump(); return; }
    if args.len() >= 3 && args[1] == "--lut" {
        pv_kani::lut_dump::dump(&args[2]);
        return;
    }
    if args.len() >= 3 && args[1] == "--run" {
        let name = &args[2];
        let data: Vec<Vec<u8>> = if args.len() >= 4 && !args[3].is_empty() {
            args[3]
                .split(';')
                .map(|h| {
                    h.split(',')
                        .filter(|s| !s.is_empty())
                        .map(|b| b.trim().parse::<u8>().expect("byte"))
                        .collect()
                })
                .collect()
        } else {
            Vec::new()
        };
        let entry = pv_kani::registry().into_iter().find(|e| e.harness == name.as_str());
        let entry = match entry {
            Some(e) => e,
            None => {
                println!("REPLAY-ERROR unknown harness {}", name);
                std::process::exit(3);
            }
        };
        std::panic::set_hook(Box::new(|_| {}));
        let mut g = Bytes::new(data);
        let r = std::panic::catch_unwind(std::panic::AssertUnwindSafe(|| (entry.run)(&mut g)));
        println!("INPUTS {}", g.log.join(" "));
        match r {
            Ok(()) => {
                println!("NOT-REPRODUCED harness body completed without a failed obligation");
                std::process::exit(0);
            }
            Err(p) => {
                if p.downcast_ref::<AssumeFailed>().is_some() {
                    println!("ASSUME-FAILED the input does not satisfy the contract precondition");
                    std::process::exit(0);
                }
                let msg = if let Some(s) = p.downcast_ref::<String>() {
                    s.clone()
                } else if let Some(s) = p.downcast_ref::<&str>() {
                    s.to_string()
                } else {
                    "panic".to_string()
                };
                println!("REPRODUCED {}", msg.replace('\n', " "));
                std::process::exit(10);
            }
        }
    }
    eprintln!("usage: pv_replay --list | --run <harness> <b,b,b;b,b;...>");
    std::process::exit(2);
}
