//! Source of harness inputs: `kani::any()` under Kani, recorded bytes natively.
//! The *same* harness body runs under both, which is how a Kani counterexample
//! is replayed on the real code by an ordinary rustc build.

pub trait Gen {
    fn u8(&mut self) -> u8;
    fn u16(&mut self) -> u16;
    fn u32(&mut self) -> u32;
    fn u64(&mut self) -> u64;
    fn u128(&mut self) -> u128;
    fn usize(&mut self) -> usize;
    fn bool(&mut self) -> bool;
    fn f32(&mut self) -> f32;
    fn f64(&mut self) -> f64;
    fn char(&mut self) -> char;
    /// Precondition of the contract under check.
    fn assume(&mut self, c: bool);
    /// Reachability witness: the driver requires every cover to be satisfied,
    /// so a contradictory `assume` cannot make an obligation pass vacuously.
    fn cover(&mut self, c: bool);
}

#[cfg(kani)]
pub struct K;

#[cfg(kani)]
impl Gen for K {
    #[inline(always)]
    fn u8(&mut self) -> u8 { kani::any() }
    #[inline(always)]
    fn u16(&mut self) -> u16 { kani::any() }
    #[inline(always)]
    fn u32(&mut self) -> u32 { kani::any() }
    #[inline(always)]
    fn u64(&mut self) -> u64 { kani::any() }
    #[inline(always)]
    fn u128(&mut self) -> u128 { kani::any() }
    #[inline(always)]
    fn usize(&mut self) -> usize { kani::any() }
    #[inline(always)]
    fn bool(&mut self) -> bool { kani::any() }
    #[inline(always)]
    fn f32(&mut self) -> f32 { kani::any() }
    #[inline(always)]
    fn f64(&mut self) -> f64 { kani::any() }
    #[inline(always)]
    fn char(&mut self) -> char { kani::any() }
    #[inline(always)]
    fn assume(&mut self, c: bool) { kani::assume(c) }
    #[inline(always)]
    fn cover(&mut self, c: bool) { kani::cover!(c, "VACUITY-GUARD") }
}

/// Marker payload: the replayed input does not satisfy the contract's precondition.
pub struct AssumeFailed;

/// Native input source: the byte vectors printed by Kani's concrete playback,
/// one per `kani::any()` call, in call order.
pub struct Bytes {
    pub data: Vec<Vec<u8>>,
    pub pos: usize,
    pub log: Vec<String>,
}

impl Bytes {
    pub fn new(data: Vec<Vec<u8>>) -> Self { Bytes { data, pos: 0, log: Vec::new() } }
    fn take<const N: usize>(&mut self, what: &str) -> [u8; N] {
        let mut out = [0u8; N];
        if let Some(v) = self.data.get(self.pos) {
            for (o, b) in out.iter_mut().zip(v.iter()) { *o = *b; }
        }
        self.pos += 1;
        self.log.push(format!("{}=0x{}", what, out.iter().rev().map(|b| format!("{:02x}", b)).collect::<String>()));
        out
    }
}

impl Gen for Bytes {
    fn u8(&mut self) -> u8 { u8::from_le_bytes(self.take("u8")) }
    fn u16(&mut self) -> u16 { u16::from_le_bytes(self.take("u16")) }
    fn u32(&mut self) -> u32 { u32::from_le_bytes(self.take("u32")) }
    fn u64(&mut self) -> u64 { u64::from_le_bytes(self.take("u64")) }
    fn u128(&mut self) -> u128 { u128::from_le_bytes(self.take("u128")) }
    fn usize(&mut self) -> usize { usize::from_le_bytes(self.take("usize")) }
    fn bool(&mut self) -> bool { self.take::<1>("bool")[0] & 1 == 1 }
    fn f32(&mut self) -> f32 {
        let v = f32::from_le_bytes(self.take("f32"));
        if let Some(l) = self.log.last_mut() { l.push_str(&format!(" ({:e})", v)); }
        v
    }
    fn f64(&mut self) -> f64 {
        let v = f64::from_le_bytes(self.take("f64"));
        if let Some(l) = self.log.last_mut() { l.push_str(&format!(" ({:e})", v)); }
        v
    }
    fn char(&mut self) -> char {
        let v = u32::from_le_bytes(self.take("char"));
        match char::from_u32(v) {
            Some(c) => c,
            None => std::panic::panic_any(AssumeFailed),
        }
    }
    fn assume(&mut self, c: bool) {
        if !c { std::panic::panic_any(AssumeFailed) }
    }
    fn cover(&mut self, _c: bool) {}
}
