//! C06 — component number-format conversion (palette/src/stimulus.rs).
//!
//! Not in the table (CBMC did not finish within 1500 s on 5 cores, so they are listed as not decided
//! instead of being registered as flaky obligations): f64->u32 (F4), u64->u16, u64->u32, u128->u16,
//! u128->u32 (N1-N3). Their code is the same macro arm as the discharged neighbours
//! (convert_double_to_uint!, convert_uint_to_uint! via f64).
//!
//! Every `IntoStimulus<U> for T` impl is put under a single-call contract against a
//! spec expression written here from the property statement (not from the code):
//!   float -> uint   x <= 0 | -inf -> 0;  x >= 1 | +inf | NaN -> MAX;
//!                   x in [0,1]: y is THE nearest integer (ties to even) to p = fl(x * MAX),
//!                   p computed with one rounding in the documented working precision
//!                   (f32 for f32->u8/u16, f64 otherwise); monotone non-decreasing.
//!   uint -> float   0 -> 0, MAX -> exactly 1.0, result in [0,1], monotone.
//!   uint -> wider   == x * (2^k + 1) (bit replication), MAX -> MAX, monotone.
//!   uint -> narrower  0 -> 0, MAX -> MAX, monotone.
//!   round trips     narrow(widen(x)) == x;  uint -> float -> uint == x where precision allows.
use crate::gen::Gen;
use palette::stimulus::IntoStimulus;

/// y is the nearest integer to p, ties to even (p >= 0, p <= 2^32).
fn is_rne_f32(p: f32, y: u32) -> bool {
    let d = p - (y as f32);
    let a = if d < 0.0 { -d } else { d };
    a <= 0.5 && (a < 0.5 || y % 2 == 0)
}
fn is_rne_f64(p: f64, y: u64) -> bool {
    let d = p - (y as f64);
    let a = if d < 0.0 { -d } else { d };
    a <= 0.5 && (a < 0.5 || y % 2 == 0)
}

macro_rules! f2u_small {
    // float source, working precision $w, target $u (<= 32 bits so that y as $w is exact)
    ($reg:ident; $( $name:ident : $f:ident => $u:ident via $w:ident, $rne:ident, $wide:ident, $tier:ident );* $(;)?) => {
        harnesses! { $reg, "C06", "c06";
            $(
            { id: concat!("f2u.", stringify!($f), "_", stringify!($u)), tier: $tier, label: "complete",
              func: concat!("<", stringify!($f), " as palette::stimulus::IntoStimulus<", stringify!($u), ">>::into_stimulus [stimulus.rs convert_float_to_uint!/convert_double_to_uint!]"),
              desc: "every bit pattern of the source float: saturation at both ends incl. -inf/+inf/NaN; in [0,1] result is the ties-to-even nearest integer of fl(x*MAX)" }
            fn $name(g) {
                let x = g.$f();
                cov!(g, x > 0.25 && x < 0.75);
                cov!(g, x < -1.0e9);
                let y: $u = x.into_stimulus();
                if x <= 0.0 { ob!("F1.nonpositive_and_neg_infinity_map_to_zero", y == 0); }
                else if x >= 1.0 { ob!("F2.at_or_above_one_and_infinity_map_to_max", y == $u::MAX); }
                else if x != x { ob!("F3.nan_maps_to_max", y == $u::MAX); }
                else {
                    let p = (x as $w) * ($u::MAX as $w);
                    ob!("F4.nearest_integer_ties_even_of_rounded_product", $rne(p, y as $wide));
                }
            }
            )*
        }
    };
}

f2u_small! { REG_F2U;
    f32_u8:  f32 => u8  via f32, is_rne_f32, u32, quick;
    f32_u16: f32 => u16 via f32, is_rne_f32, u32, quick;
    f32_u32: f32 => u32 via f64, is_rne_f64, u64, quick;
    f64_u8:  f64 => u8  via f64, is_rne_f64, u64, quick;
    f64_u16: f64 => u16 via f64, is_rne_f64, u64, quick;
}

/// 64/128-bit targets: "53 significant bits" — the result, converted back to f64, is the
/// rounded product itself (every f64 >= 2^53 is an integer) or its ties-to-even rounding.
macro_rules! f2u_big {
    ($reg:ident; $( $name:ident : $f:ident => $u:ident, $tier:ident );* $(;)?) => {
        harnesses! { $reg, "C06", "c06";
            $(
            { id: concat!("f2u.", stringify!($f), "_", stringify!($u)), tier: $tier, label: "complete",
              func: concat!("<", stringify!($f), " as palette::stimulus::IntoStimulus<", stringify!($u), ">>::into_stimulus [stimulus.rs]"),
              desc: "every bit pattern: saturation incl. -inf/+inf/NaN; in (0,1): y is within one f64 rounding (53 significant bits) of x*MAX" }
            fn $name(g) {
                let x = g.$f();
                cov!(g, x > 0.25 && x < 0.75);
                let y: $u = x.into_stimulus();
                if x <= 0.0 { ob!("F1.nonpositive_and_neg_infinity_map_to_zero", y == 0); }
                else if x >= 1.0 { ob!("F2.at_or_above_one_and_infinity_map_to_max", y == $u::MAX); }
                else if x != x { ob!("F3.nan_maps_to_max", y == $u::MAX); }
                else {
                    // MAX as f64 == 2^64 (2^128): the product is an exact scaling of x.
                    let p = (x as f64) * ($u::MAX as f64);
                    let back = y as f64;          // one rounding of y to 53 bits
                    let d = if back > p { back - p } else { p - back };
                    ob!("F4.within_one_rounding_of_product", d <= 0.5 || back == p);
                }
            }
            )*
        }
    };
}
f2u_big! { REG_F2U_BIG;
    f32_u64: f32 => u64, quick;
    f32_u128: f32 => u128, quick;
    f64_u64: f64 => u64, quick;
    f64_u128: f64 => u128, thorough;
}

// ---- relational: monotonicity of float -> uint (f32 sources; f64 is a lemma over the spec) ----
macro_rules! f2u_mono {
    ($reg:ident; $( $name:ident : $f:ident => $u:ident, $tier:ident );* $(;)?) => {
        harnesses! { $reg, "C06", "c06";
            $(
            { id: concat!("f2u_monotone.", stringify!($f), "_", stringify!($u)), tier: $tier, label: "complete",
              func: concat!("<", stringify!($f), " as IntoStimulus<", stringify!($u), ">>::into_stimulus"),
              desc: "all ordered pairs a <= b of non-NaN floats: f(a) <= f(b)" }
            fn $name(g) {
                let a = g.$f(); let b = g.$f();
                g.assume(a <= b);
                cov!(g, a < b && a > 0.0 && b < 1.0);
                let ya: $u = a.into_stimulus(); let yb: $u = b.into_stimulus();
                ob!("F5.monotone_non_decreasing", ya <= yb);
            }
            )*
        }
    };
}
f2u_mono! { REG_F2U_MONO;
    mono_f32_u8: f32 => u8, quick;
    mono_f32_u16: f32 => u16, thorough;
    mono_f32_u32: f32 => u32, thorough;
}

// ---- uint -> float ----
macro_rules! u2f {
    ($reg:ident; $( $name:ident : $u:ident => $f:ident, $tier:ident );* $(;)?) => {
        harnesses! { $reg, "C06", "c06";
            $(
            { id: concat!("u2f.", stringify!($u), "_", stringify!($f)), tier: $tier, label: "complete",
              func: concat!("<", stringify!($u), " as IntoStimulus<", stringify!($f), ">>::into_stimulus [stimulus.rs]"),
              desc: "all source values (pairs for monotonicity): 0 -> 0, MAX -> exactly 1.0, result in [0,1], monotone" }
            fn $name(g) {
                let a = g.$u(); let b = g.$u();
                g.assume(a <= b);
                cov!(g, a < b && a > 0 && b < $u::MAX);
                let ya: $f = a.into_stimulus(); let yb: $f = b.into_stimulus();
                ob!("U1.zero_maps_to_zero", a != 0 || ya == 0.0);
                ob!("U2.max_maps_to_exactly_one", b != $u::MAX || yb == 1.0);
                ob!("U3.result_in_unit_interval", ya >= 0.0 && ya <= 1.0 && yb >= 0.0 && yb <= 1.0);
                ob!("U4.monotone", ya <= yb);
            }
            )*
        }
    };
}
u2f! { REG_U2F;
    u8_f32: u8 => f32, quick;
    u8_f64: u8 => f64, quick;
    u16_f32: u16 => f32, quick;
    u16_f64: u16 => f64, quick;
    u32_f32: u32 => f32, thorough;
    u32_f64: u32 => f64, thorough;
    u64_f32: u64 => f32, quick;
    u64_f64: u64 => f64, thorough;
    u128_f32: u128 => f32, quick;
    u128_f64: u128 => f64, thorough;
}

// ---- uint -> wider uint ----
macro_rules! widen {
    ($reg:ident; $( $name:ident : $u:ident => $v:ident, $tier:ident );* $(;)?) => {
        harnesses! { $reg, "C06", "c06";
            $(
            { id: concat!("widen.", stringify!($u), "_", stringify!($v)), tier: $tier, label: "complete",
              func: concat!("<", stringify!($u), " as IntoStimulus<", stringify!($v), ">>::into_stimulus [convert_uint_to_larger_uint!]"),
              desc: "all source values: result == x * (MAXv / MAXu) (bit replication), so 0->0, MAX->MAX, strictly monotone" }
            fn $name(g) {
                let a = g.$u();
                cov!(g, a > 0 && a < $u::MAX);
                let y: $v = a.into_stimulus();
                ob!("W1.bit_replication", y == (a as $v) * ($v::MAX / ($u::MAX as $v)));
                ob!("W2.max_maps_to_max", a != $u::MAX || y == $v::MAX);
            }
            )*
        }
    };
}
widen! { REG_WIDEN;
    u8_u16: u8 => u16, quick; u8_u32: u8 => u32, quick; u8_u64: u8 => u64, quick; u8_u128: u8 => u128, quick;
    u16_u32: u16 => u32, quick; u16_u64: u16 => u64, quick; u16_u128: u16 => u128, quick;
    u32_u64: u32 => u64, quick; u32_u128: u32 => u128, quick;
}

// ---- uint -> narrower uint ----
macro_rules! narrow {
    ($reg:ident; $( $name:ident : $u:ident => $v:ident, $tier:ident );* $(;)?) => {
        harnesses! { $reg, "C06", "c06";
            $(
            { id: concat!("narrow.", stringify!($u), "_", stringify!($v)), tier: $tier, label: "complete",
              func: concat!("<", stringify!($u), " as IntoStimulus<", stringify!($v), ">>::into_stimulus [convert_uint_to_uint!]"),
              desc: "all ordered pairs of source values: 0 -> 0, MAX -> MAX, monotone" }
            fn $name(g) {
                let a = g.$u(); let b = g.$u();
                g.assume(a <= b);
                cov!(g, a < b && a > 0 && b < $u::MAX);
                let ya: $v = a.into_stimulus(); let yb: $v = b.into_stimulus();
                ob!("N1.zero_maps_to_zero", a != 0 || ya == 0);
                ob!("N2.max_maps_to_max", b != $u::MAX || yb == $v::MAX);
                ob!("N3.monotone", ya <= yb);
            }
            )*
        }
    };
}
narrow! { REG_NARROW;
    u16_u8: u16 => u8, quick;
    u32_u8: u32 => u8, thorough; u32_u16: u32 => u16, thorough;
    u64_u8: u64 => u8, thorough;
    u128_u8: u128 => u8, thorough; u128_u64: u128 => u64, thorough;
}

// ---- round trips ----
macro_rules! rt {
    ($reg:ident; $( $name:ident : $u:ident => $v:ident, $tier:ident, $what:expr );* $(;)?) => {
        harnesses! { $reg, "C06", "c06";
            $(
            { id: concat!("roundtrip.", stringify!($u), "_", stringify!($v)), tier: $tier, label: "complete",
              func: concat!("IntoStimulus<", stringify!($v), "> for ", stringify!($u), " composed with IntoStimulus<", stringify!($u), "> for ", stringify!($v)),
              desc: $what }
            fn $name(g) {
                let a = g.$u();
                cov!(g, a > 0 && a < $u::MAX);
                let m: $v = a.into_stimulus();
                let back: $u = m.into_stimulus();
                ob!("R1.round_trip_is_identity", back == a);
            }
            )*
        }
    };
}
rt! { REG_RT;
    rt_u8_u16: u8 => u16, quick, "narrow(widen(x)) == x for all x";
    rt_u8_u32: u8 => u32, quick, "narrow(widen(x)) == x for all x";
    rt_u8_u64: u8 => u64, quick, "narrow(widen(x)) == x for all x";
    rt_u8_u128: u8 => u128, quick, "narrow(widen(x)) == x for all x";
    rt_u16_u32: u16 => u32, quick, "narrow(widen(x)) == x for all x";
    rt_u16_u64: u16 => u64, quick, "narrow(widen(x)) == x for all x";
    rt_u16_u128: u16 => u128, quick, "narrow(widen(x)) == x for all x";
    rt_u32_u64: u32 => u64, thorough, "narrow(widen(x)) == x for all x";
    rt_u32_u128: u32 => u128, thorough, "narrow(widen(x)) == x for all x";
    rt_u8_f32: u8 => f32, quick, "uint -> float -> uint == x for all x (f32 has the precision for 8 bits)";
    rt_u16_f32: u16 => f32, quick, "uint -> float -> uint == x for all x (f32 has the precision for 16 bits)";
    rt_u8_f64: u8 => f64, quick, "uint -> float -> uint == x for all x";
    rt_u16_f64: u16 => f64, quick, "uint -> float -> uint == x for all x";
    rt_u32_f64: u32 => f64, thorough, "uint -> float -> uint == x for all x (f64 has the precision for 32 bits)";
}

// ---- float <-> float, identity ----
harnesses! { REG_MISC, "C06", "c06";
    { id: "widen.u64_u128", tier: quick, label: "complete",
      func: "<u64 as IntoStimulus<u128>>::into_stimulus [convert_uint_to_larger_uint!]",
      desc: "all source values: both 64-bit halves of the result equal x (== x * (2^64+1)); 0->0, MAX->MAX, strictly monotone" }
    fn u64_u128(g) {
        // (stated with shifts: CBMC 6.11 crashes with SIGFPE on the symbolic u128 multiplication)
        let a = g.u64();
        cov!(g, a > 0 && a < u64::MAX);
        let y: u128 = a.into_stimulus();
        ob!("W1.bit_replication", (y >> 64) as u64 == a && (y as u64) == a);
        ob!("W2.max_maps_to_max", a != u64::MAX || y == u128::MAX);
    }

    { id: "f2f", tier: quick, label: "complete",
      func: "<f32 as IntoStimulus<f64>>, <f64 as IntoStimulus<f32>>, impl<T> IntoStimulus<T> for T",
      desc: "f32->f64 is exact and round-trips; f64->f32 is the correctly rounded cast (0->0, 1->1, monotone); T->T is the identity" }
    fn f2f(g) {
        let x = g.f32();
        g.assume(x == x);
        cov!(g, true);
        let w: f64 = x.into_stimulus();
        ob!("X1.f32_to_f64_exact", w == x as f64);
        let back: f32 = w.into_stimulus();
        ob!("X2.f32_f64_f32_identity", back.to_bits() == x.to_bits());
        let a = g.f64(); let b = g.f64();
        g.assume(a <= b);
        let fa: f32 = a.into_stimulus(); let fb: f32 = b.into_stimulus();
        ob!("X3.f64_to_f32_monotone", fa <= fb);
        ob!("X4.f64_to_f32_endpoints", (a != 0.0 || fa == 0.0) && (b != 1.0 || fb == 1.0));
        let i: f32 = IntoStimulus::<f32>::into_stimulus(x);
        ob!("X5.same_type_identity", i.to_bits() == x.to_bits());
        let u = g.u16();
        let ui: u16 = IntoStimulus::<u16>::into_stimulus(u);
        ob!("X5.same_type_identity", ui == u);
    }

    { id: "into_format.rgb_alpha_luma", tier: quick, label: "complete",
      func: "Rgb::into_format, Alpha::into_format, Luma::into_format, Rgb::from_format [rgb/rgb.rs, alpha/alpha.rs, luma/luma.rs]",
      desc: "into_format/from_format forward every component (alpha included) through IntoStimulus/FromStimulus: component-wise equality with the scalar conversion for all u8 and all f32 components" }
    fn into_format_forwarding(g) {
        use palette::{Srgb, Srgba, SrgbLuma};
        let (r, gr, b, a) = (g.u8(), g.u8(), g.u8(), g.u8());
        cov!(g, true);
        let c: Srgba<u8> = Srgba::new(r, gr, b, a);
        let f: Srgba<f32> = c.into_format();
        let e: (f32, f32, f32, f32) = (r.into_stimulus(), gr.into_stimulus(), b.into_stimulus(), a.into_stimulus());
        ob!("I1.alpha_into_format_componentwise", f.red == e.0 && f.green == e.1 && f.blue == e.2 && f.alpha == e.3);
        let w: Srgb<u16> = Srgb::new(r, gr, b).into_format();
        let e16: (u16, u16, u16) = (r.into_stimulus(), gr.into_stimulus(), b.into_stimulus());
        ob!("I2.rgb_into_format_componentwise", w.red == e16.0 && w.green == e16.1 && w.blue == e16.2);
        let x = g.f32(); let y = g.f32(); let z = g.f32();
        let q: Srgb<u8> = Srgb::new(x, y, z).into_format();
        let eq: (u8, u8, u8) = (x.into_stimulus(), y.into_stimulus(), z.into_stimulus());
        ob!("I3.rgb_float_into_u8_componentwise", q.red == eq.0 && q.green == eq.1 && q.blue == eq.2);
        let q2: Srgb<u8> = Srgb::from_format(Srgb::new(x, y, z));
        ob!("I4.from_format_equals_into_format", q2.red == q.red && q2.green == q.green && q2.blue == q.blue);
        let l: SrgbLuma<u8> = SrgbLuma::new(x).into_format();
        ob!("I5.luma_into_format_componentwise", l.luma == eq.0);
    }
}

pub fn registry() -> Vec<&'static crate::macros::Entry> {
    REG_F2U.iter().chain(REG_F2U_BIG.iter()).chain(REG_F2U_MONO.iter()).chain(REG_U2F.iter())
        .chain(REG_WIDEN.iter()).chain(REG_NARROW.iter()).chain(REG_RT.iter()).chain(REG_MISC.iter()).collect()
}
