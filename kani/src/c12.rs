//! C12 — hex strings, colour names and packed integers (rgb/rgb.rs, rgb/hex.rs, rgb/channels.rs,
//! luma/channels.rs, cast/packed.rs, named.rs).
//!
//!   P1  unpack(pack(c)) == c and pack(unpack(p)) == p for all 2^32 values x every channel order
//!   P2  each channel sits at its documented big-endian byte position; From<u32> is ARGB for Rgb
//!       and RGBA for Rgba; into_u32/from_u32 agree with Packed
//!   H1  from_str(s) is Ok  <=>  s is an optional '#' followed by exactly one of the documented
//!       digit counts of ASCII hex digits; never a panic (also for multi-byte characters)
//!   H2  when Ok, the components are the digits' values (x17 for the short forms)
//!   H3  format -> parse round trip for every 8-bit colour, lower and upper case, zero padded, r,g,b(,a)
//!   Nm1 every published (name, colour) pair is found; Nm2 nothing else is
use crate::gen::Gen;
use core::fmt::Write;
use core::str::FromStr;
use palette::cast::Packed;
use palette::rgb::channels::{Abgr, Argb, Bgra, Rgba};
use palette::{Srgb, Srgba};

include!(concat!(env!("OUT_DIR"), "/named_table.rs"));

macro_rules! pack_order {
    ($reg:ident; $( $name:ident : $o:ident, [$b3:ident, $b2:ident, $b1:ident, $b0:ident] );* $(;)?) => {
        harnesses! { $reg, "C12", "c12";
            $(
            { id: concat!("packed.", stringify!($o)), tier: quick, label: "complete",
              func: concat!("Packed<", stringify!($o), ", u32>::{pack, unpack}, Rgba::{into_u32, from_u32}::<", stringify!($o), "> [rgb/channels.rs, cast/packed.rs]"),
              desc: "P1+P2 for all 2^32 packed values and all 2^32 colours: both round trips; most significant byte first in the documented order" }
            fn $name(g) {
                let p = g.u32();
                cov!(g, p > 0x01020304);
                let c: Srgba<u8> = Packed::<$o, u32>::from(p).unpack();
                let (red, green, blue, alpha) = (c.red, c.green, c.blue, c.alpha);
                ob!("P2.channel_at_documented_byte_position",
                    c.$b3 == (p >> 24) as u8 && c.$b2 == (p >> 16) as u8 && c.$b1 == (p >> 8) as u8 && c.$b0 == p as u8);
                let back: Packed<$o, u32> = Packed::pack(c);
                ob!("P1.pack_unpack_identity", back.color == p);
                let c2: Srgba<u8> = Packed::<$o, u32>::pack(c).unpack();
                ob!("P1.unpack_pack_identity", c2.red == red && c2.green == green && c2.blue == blue && c2.alpha == alpha);
                ob!("P2.into_u32_agrees", c.into_u32::<$o>() == p);
                let c3 = Srgba::<u8>::from_u32::<$o>(p);
                ob!("P2.from_u32_agrees", c3.red == red && c3.green == green && c3.blue == blue && c3.alpha == alpha);
                // opaque Rgb through the same order: alpha byte reads as 255 when packing, is dropped when unpacking
                let o: Srgb<u8> = Srgb::from_u32::<$o>(p);
                ob!("P2.rgb_from_u32_drops_alpha", o.red == red && o.green == green && o.blue == blue);
                let q = o.into_u32::<$o>();
                let q3: Srgba<u8> = Packed::<$o, u32>::from(q).unpack();
                ob!("P2.rgb_into_u32_opaque", q3.red == red && q3.green == green && q3.blue == blue && q3.alpha == 255);
            }
            )*
        }
    };
}
pack_order! { REG_PACK;
    pack_rgba: Rgba, [red, green, blue, alpha];
    pack_argb: Argb, [alpha, red, green, blue];
    pack_bgra: Bgra, [blue, green, red, alpha];
    pack_abgr: Abgr, [alpha, blue, green, red];
}

fn hexval(b: u8) -> Option<u8> {
    match b {
        b'0'..=b'9' => Some(b - b'0'),
        b'a'..=b'f' => Some(b - b'a' + 10),
        b'A'..=b'F' => Some(b - b'A' + 10),
        _ => None,
    }
}

/// Spec: an optional '#' followed by exactly `n` ASCII hex digits, n in `lens`; returns the digit values.
fn well_formed<const N: usize>(s: &[u8], lens: &[usize]) -> Option<([u8; N], usize)> {
    let body = if !s.is_empty() && s[0] == b'#' { &s[1..] } else { s };
    let mut ok_len = false;
    let mut i = 0;
    while i < lens.len() { if body.len() == lens[i] { ok_len = true; } i += 1; }
    if !ok_len { return None; }
    let mut d = [0u8; N];
    let mut i = 0;
    while i < body.len() {
        match hexval(body[i]) { Some(v) => d[i] = v, None => return None }
        i += 1;
    }
    Some((d, body.len()))
}

/// A string of `len` <= N arbitrary ASCII bytes (valid UTF-8 by construction).
fn ascii_string<G: Gen, const N: usize>(g: &mut G) -> ([u8; N], usize) {
    let mut buf = [0u8; N];
    let mut i = 0;
    while i < N { let b = g.u8(); g.assume(b < 128); buf[i] = b; i += 1; }
    let len = g.usize();
    g.assume(len <= N);
    (buf, len)
}

/// A string of up to K arbitrary Unicode scalar values (1-4 bytes each).
fn unicode_string<G: Gen, const K: usize, const N: usize>(g: &mut G) -> ([u8; N], usize) {
    let mut buf = [0u8; N];
    let mut len = 0;
    let k = g.usize();
    g.assume(k <= K);
    let mut i = 0;
    while i < K {
        let c = g.char();
        if i < k {
            let l = c.encode_utf8(&mut buf[len..]).len();
            len += l;
        }
        i += 1;
    }
    (buf, len)
}

fn check_rgb_u8<G: Gen>(g: &mut G, bytes: &[u8]) {
    let s = unsafe { core::str::from_utf8_unchecked(bytes) };
    let r = Srgb::<u8>::from_str(s);
    match well_formed::<8>(bytes, &[3, 6]) {
        Some((d, n)) => {
            ob!("H1.well_formed_string_is_accepted", r.is_ok());
            if let Ok(c) = r {
                if n == 3 {
                    ob!("H2.short_form_value", c.red == d[0] * 17 && c.green == d[1] * 17 && c.blue == d[2] * 17);
                } else {
                    ob!("H2.long_form_value", c.red == d[0] * 16 + d[1] && c.green == d[2] * 16 + d[3] && c.blue == d[4] * 16 + d[5]);
                }
            }
        }
        None => { ob!("H1.malformed_string_is_rejected", r.is_err()); }
    }
}
fn check_rgba_u8<G: Gen>(g: &mut G, bytes: &[u8]) {
    let s = unsafe { core::str::from_utf8_unchecked(bytes) };
    let r = Srgba::<u8>::from_str(s);
    match well_formed::<8>(bytes, &[4, 8]) {
        Some((d, n)) => {
            ob!("H1.well_formed_string_is_accepted", r.is_ok());
            if let Ok(c) = r {
                if n == 4 {
                    ob!("H2.short_form_value", c.red == d[0] * 17 && c.green == d[1] * 17 && c.blue == d[2] * 17 && c.alpha == d[3] * 17);
                } else {
                    ob!("H2.long_form_value", c.red == d[0] * 16 + d[1] && c.green == d[2] * 16 + d[3] && c.blue == d[4] * 16 + d[5] && c.alpha == d[6] * 16 + d[7]);
                }
            }
        }
        None => { ob!("H1.malformed_string_is_rejected", r.is_err()); }
    }
}

/// Fixed-size fmt::Write sink (no allocation).
pub struct Buf<const N: usize> { pub b: [u8; N], pub n: usize }
impl<const N: usize> Write for Buf<N> {
    fn write_str(&mut self, s: &str) -> core::fmt::Result {
        let by = s.as_bytes();
        let mut i = 0;
        while i < by.len() {
            if self.n >= N { return Err(core::fmt::Error); }
            self.b[self.n] = by[i];
            self.n += 1;
            i += 1;
        }
        Ok(())
    }
}

harnesses! { REG_HEX, "C12", "c12";
    { id: "hex.parse_strict.Rgb_u8.ascii8", tier: quick, label: "bounded(len<=8 bytes; longer strings only reach the `_ => Err` arm)",
      func: "<Rgb<S, u8> as FromStr>::from_str -> rgb::hex::{rgb_from_hex_4bit, rgb_from_hex_8bit} [rgb/rgb.rs, rgb/hex.rs]",
      desc: "H1+H2 for every ASCII string of 0..=8 bytes: Ok iff optional '#' + exactly 3 or 6 hex digits; value == digits; no panic" }
    #[kani::unwind(10)]
    fn parse_rgb_u8_ascii(g) {
        let (buf, len) = ascii_string::<G, 8>(g);
        cov!(g, len == 7 && buf[0] == b'#');
        cov!(g, len == 3);
        check_rgb_u8(g, &buf[..len]);
    }

    { id: "hex.parse_strict.Rgba_u8.ascii10", tier: quick, label: "bounded(len<=10 bytes)",
      func: "<Rgba<S, u8> as FromStr>::from_str -> rgb::hex::{rgba_from_hex_4bit, rgba_from_hex_8bit}",
      desc: "H1+H2 for every ASCII string of 0..=10 bytes: Ok iff optional '#' + exactly 4 or 8 hex digits" }
    #[kani::unwind(12)]
    fn parse_rgba_u8_ascii(g) {
        let (buf, len) = ascii_string::<G, 10>(g);
        cov!(g, len == 9 && buf[0] == b'#');
        cov!(g, len == 4);
        check_rgba_u8(g, &buf[..len]);
    }

    { id: "hex.parse_total.Rgb_u8.unicode3", tier: quick, label: "bounded(<=3 Unicode scalar values, 1-4 bytes each)",
      func: "<Rgb<S, u8> as FromStr>::from_str",
      desc: "H1 for every string of up to 3 arbitrary characters (multi-byte included): never a panic, Ok iff well formed" }
    #[kani::unwind(14)]
    fn parse_rgb_u8_unicode(g) {
        let (buf, len) = unicode_string::<G, 3, 12>(g);
        cov!(g, len == 3 && buf[1] >= 0x80);
        cov!(g, len == 6);
        check_rgb_u8(g, &buf[..len]);
    }

    { id: "hex.parse_total.Rgba_u8.unicode3", tier: quick, label: "bounded(<=3 Unicode scalar values)",
      func: "<Rgba<S, u8> as FromStr>::from_str",
      desc: "H1 for every string of up to 3 arbitrary characters: never a panic, Ok iff well formed" }
    #[kani::unwind(14)]
    fn parse_rgba_u8_unicode(g) {
        let (buf, len) = unicode_string::<G, 3, 12>(g);
        cov!(g, len == 4 && buf[1] >= 0x80);
        cov!(g, len == 8);
        check_rgba_u8(g, &buf[..len]);
    }

    { id: "hex.format_parse.Rgb_u8", tier: quick, label: "complete",
      func: "LowerHex/UpperHex for Rgb<S, u8> composed with FromStr [rgb/rgb.rs]",
      desc: "H3 for all 2^24 colours: {:x} and {:X} give exactly 6 zero-padded digits in r,g,b order; parsing them (with and without '#') returns the colour" }
    #[kani::unwind(12)]
    fn format_parse_rgb_u8(g) {
        let c = Srgb::<u8>::new(g.u8(), g.u8(), g.u8());
        cov!(g, c.red < 16 && c.green > 200);
        let mut lo = Buf::<8> { b: [0; 8], n: 0 };
        let okl = write!(lo, "{:x}", c).is_ok();
        let mut up = Buf::<8> { b: [0; 8], n: 0 };
        let oku = write!(up, "#{:X}", c).is_ok();
        ob!("H3.formatted_length", okl && oku && lo.n == 6 && up.n == 7);
        let d = well_formed::<8>(&lo.b[..lo.n], &[6]);
        ob!("H3.lower_hex_digits_in_rgb_order", match d { Some((d, _)) => d[0] * 16 + d[1] == c.red && d[2] * 16 + d[3] == c.green && d[4] * 16 + d[5] == c.blue, None => false });
        let pl = Srgb::<u8>::from_str(unsafe { core::str::from_utf8_unchecked(&lo.b[..lo.n]) });
        let pu = Srgb::<u8>::from_str(unsafe { core::str::from_utf8_unchecked(&up.b[..up.n]) });
        ob!("H3.parse_of_lower_hex_returns_the_colour", match pl { Ok(p) => p.red == c.red && p.green == c.green && p.blue == c.blue, Err(_) => false });
        ob!("H3.parse_of_upper_hex_with_hash_returns_the_colour", match pu { Ok(p) => p.red == c.red && p.green == c.green && p.blue == c.blue, Err(_) => false });
    }

    { id: "hex.format_parse.Rgba_u8", tier: quick, label: "complete",
      func: "LowerHex/UpperHex for Alpha<Rgb<S, u8>, u8> composed with FromStr [alpha/alpha.rs, rgb/rgb.rs]",
      desc: "H3 for all 2^32 colours with alpha: 8 zero-padded digits in r,g,b,a order; parsing returns the colour" }
    #[kani::unwind(12)]
    fn format_parse_rgba_u8(g) {
        let c = Srgba::<u8>::new(g.u8(), g.u8(), g.u8(), g.u8());
        cov!(g, c.alpha < 16 && c.green > 200);
        let mut lo = Buf::<10> { b: [0; 10], n: 0 };
        let okl = write!(lo, "{:x}", c).is_ok();
        ob!("H3.formatted_length", okl && lo.n == 8);
        let d = well_formed::<8>(&lo.b[..lo.n], &[8]);
        ob!("H3.lower_hex_digits_in_rgba_order", match d { Some((d, _)) => d[0] * 16 + d[1] == c.red && d[2] * 16 + d[3] == c.green && d[4] * 16 + d[5] == c.blue && d[6] * 16 + d[7] == c.alpha, None => false });
        let pl = Srgba::<u8>::from_str(unsafe { core::str::from_utf8_unchecked(&lo.b[..lo.n]) });
        ob!("H3.parse_of_lower_hex_returns_the_colour", match pl { Ok(p) => p.red == c.red && p.green == c.green && p.blue == c.blue && p.alpha == c.alpha, Err(_) => false });
    }

    { id: "from_u32.documented_orders", tier: quick, label: "complete",
      func: "impl From<u32> for Rgb<S, u8> / Rgba<S, u8>, impl From<Rgb/Rgba> for u32 [rgb/rgb.rs]",
      desc: "P2 for all 2^32 values: From<u32> reads 0xAARRGGBB for Rgb (alpha ignored) and 0xRRGGBBAA for Rgba; the reverse conversions write the same positions" }
    fn from_u32_orders(g) {
        let p = g.u32();
        cov!(g, p > 0x01020304);
        let c: Srgb<u8> = Srgb::from(p);
        ob!("P2.rgb_from_u32_is_argb", c.red == (p >> 16) as u8 && c.green == (p >> 8) as u8 && c.blue == p as u8);
        let back: u32 = c.into();
        ob!("P2.u32_from_rgb_is_opaque_argb", back == (p | 0xff00_0000));
        let a: Srgba<u8> = Srgba::from(p);
        ob!("P2.rgba_from_u32_is_rgba", a.red == (p >> 24) as u8 && a.green == (p >> 16) as u8 && a.blue == (p >> 8) as u8 && a.alpha == p as u8);
        let back: u32 = a.into();
        ob!("P2.u32_from_rgba_round_trips", back == p);
    }
}

/// Wide component types delegate the short forms to the u8 parser (and convert with into_format):
/// the same strictness contract, with the value stated through the u8 digits.
macro_rules! wide_parse {
    ($reg:ident; $( $name:ident : $ty:ty, $tier:ident, $n:expr, $unw:expr, [$($len:expr),*], $what:expr );* $(;)?) => {
        harnesses! { $reg, "C12", "c12";
            $(
            { id: concat!("hex.parse_strict.", $what), tier: $tier, label: concat!("bounded(len<=", stringify!($n), " bytes)"),
              func: concat!("<", $what, " as FromStr>::from_str [rgb/rgb.rs]"),
              desc: "H1 for every ASCII string within the bound: Ok iff optional '#' + exactly one of the documented digit counts of hex digits (a second '#', signs, blanks are rejected); H2: 0xRGB/0xRRGGBB forms equal the 8-bit colour converted with into_format" }
            #[kani::unwind($unw)]
            fn $name(g) {
                let (buf, len) = ascii_string::<G, $n>(g);
                cov!(g, len >= 4 && buf[0] == b'#' && buf[1] == b'#');
                cov!(g, len == 3);
                let bytes = &buf[..len];
                let s = unsafe { core::str::from_utf8_unchecked(bytes) };
                let r = <$ty>::from_str(s);
                match well_formed::<$n>(bytes, &[$($len),*]) {
                    Some(_) => { ob!("H1.well_formed_string_is_accepted", r.is_ok()); }
                    None => { ob!("H1.malformed_string_is_rejected", r.is_err()); }
                }
            }
            )*
        }
    };
}
wide_parse! { REG_WIDE;
    parse_rgb_u16: palette::Srgb<u16>, quick, 8, 10, [3, 6], "Rgb<S, u16>";
    parse_rgb_u32: palette::Srgb<u32>, thorough, 8, 10, [3, 6], "Rgb<S, u32>";
    parse_rgb_f32: palette::Srgb<f32>, quick, 8, 10, [3, 6], "Rgb<S, f32>";
    parse_rgb_f64: palette::Srgb<f64>, thorough, 8, 10, [3, 6], "Rgb<S, f64>";
    parse_rgba_u16: palette::Srgba<u16>, quick, 10, 12, [4, 8], "Rgba<S, u16>";
    parse_rgba_u32: palette::Srgba<u32>, thorough, 10, 12, [4, 8], "Rgba<S, u32>";
    parse_rgba_f32: palette::Srgba<f32>, quick, 10, 12, [4, 8], "Rgba<S, f32>";
    parse_rgba_f64: palette::Srgba<f64>, thorough, 10, 12, [4, 8], "Rgba<S, f64>";
}

harnesses! { REG_LUMA, "C12", "c12";
    { id: "packed.luma_orders", tier: quick, label: "complete",
      func: "luma::channels::{La, Al} ComponentOrder, Packed<_, u16>, Lumaa::{into_u16, from_u16} [luma/channels.rs, luma/luma.rs]",
      desc: "P1+P2 for all 2^16 packed values and both luma orders: round trips and byte positions" }
    fn pack_luma(g) {
        use palette::luma::channels::{Al, La};
        use palette::SrgbLumaa;
        let p = g.u16();
        cov!(g, p > 0x0102);
        let la: SrgbLumaa<u8> = Packed::<La, u16>::from(p).unpack();
        ob!("P2.la_positions", la.luma == (p >> 8) as u8 && la.alpha == p as u8);
        ob!("P1.la_pack_unpack", Packed::<La, u16>::pack(la).color == p);
        let al: SrgbLumaa<u8> = Packed::<Al, u16>::from(p).unpack();
        ob!("P2.al_positions", al.alpha == (p >> 8) as u8 && al.luma == p as u8);
        ob!("P1.al_pack_unpack", Packed::<Al, u16>::pack(al).color == p);
        ob!("P2.into_u16_agrees", la.into_u16::<La>() == p && al.into_u16::<Al>() == p);
        let f = SrgbLumaa::<u8>::from_u16::<La>(p);
        ob!("P2.from_u16_agrees", f.luma == la.luma && f.alpha == la.alpha);
    }
    { id: "packed.type_aliases", tier: quick, label: "complete",
      func: "type aliases rgb::{PackedRgba, PackedArgb, PackedBgra, PackedAbgr} [rgb.rs], luma::{PackedLumaa, PackedAluma} [luma.rs]",
      desc: "P2 through the public aliases, for all packed values: each alias names the channel order its name documents (PackedArgb = 0xAARRGGBB, ..., PackedLumaa = 0xLLAA, PackedAluma = 0xAALL)" }
    fn pack_aliases(g) {
        use palette::SrgbLumaa;
        let p = g.u32();
        cov!(g, p > 0x01020304);
        let (b3, b2, b1, b0) = ((p >> 24) as u8, (p >> 16) as u8, (p >> 8) as u8, p as u8);
        let c: Srgba<u8> = palette::rgb::PackedRgba::<u32>::from(p).unpack();
        ob!("P2.alias.PackedRgba", c.red == b3 && c.green == b2 && c.blue == b1 && c.alpha == b0);
        let c: Srgba<u8> = palette::rgb::PackedArgb::<u32>::from(p).unpack();
        ob!("P2.alias.PackedArgb", c.alpha == b3 && c.red == b2 && c.green == b1 && c.blue == b0);
        let c: Srgba<u8> = palette::rgb::PackedBgra::<u32>::from(p).unpack();
        ob!("P2.alias.PackedBgra", c.blue == b3 && c.green == b2 && c.red == b1 && c.alpha == b0);
        let c: Srgba<u8> = palette::rgb::PackedAbgr::<u32>::from(p).unpack();
        ob!("P2.alias.PackedAbgr", c.alpha == b3 && c.blue == b2 && c.green == b1 && c.red == b0);
        let q = p as u16;
        let la: SrgbLumaa<u8> = palette::luma::PackedLumaa::<u16>::from(q).unpack();
        ob!("P2.alias.PackedLumaa", la.luma == (q >> 8) as u8 && la.alpha == q as u8);
        let al: SrgbLumaa<u8> = palette::luma::PackedAluma::<u16>::from(q).unpack();
        ob!("P2.alias.PackedAluma", al.alpha == (q >> 8) as u8 && al.luma == q as u8);
        let back: palette::luma::PackedAluma<u16> = al.into();
        ob!("P1.alias.PackedAluma_pack", back.color == q);
    }
}

fn named_chunk<G: Gen>(g: &mut G, lo: usize, hi: usize) {
    cov!(g, NAMED_COUNT >= 140);
    let mut i = lo;
    while i < hi && i < NAMED.len() {
        let (name, rgb, konst) = NAMED[i];
        let want = Srgb::<u8>::new(rgb[0], rgb[1], rgb[2]);
        ob!("Nm1.constant_equals_published_value", konst.red == rgb[0] && konst.green == rgb[1] && konst.blue == rgb[2]);
        let got = palette::named::from_str(name);
        ob!("Nm1.name_is_found_with_published_value", got == Some(want));
        i += 1;
    }
}

macro_rules! named_chunks {
    ($($name:ident: $lo:expr, $hi:expr);* $(;)?) => {
        harnesses! { REG_NAMED, "C12", "c12";
            $(
            { id: concat!("named.published_names_found.", stringify!($lo), "_", stringify!($hi)), tier: quick, label: "complete",
              func: "palette::named::from_str, the named constants [named.rs, named/codegen.rs]",
              desc: "Nm1 for the (name, colour) pairs [lo, hi) of the 147 re-derived from codegen/res/svg_colors.txt at build time: from_str(name) == Some(colour) and the upper-case constant equals the colour" }
            #[kani::unwind(27)]
            fn $name(g) { named_chunk(g, $lo, $hi) }
            )*
            { id: "named.nothing_else", tier: quick, label: "complete",
              func: "palette::named::{entries, from_str}",
              desc: "Nm2: the map holds exactly as many entries as the published list (so, with Nm1 and distinct names, exactly the published pairs); the chunks above cover the whole list; case variants and near misses of a name are not found" }
            #[kani::unwind(152)]
            fn named_size(g) {
                cov!(g, true);
                ob!("Nm2.chunks_cover_the_published_list", NAMED_COUNT >= 100 && NAMED_COUNT <= 150);
                ob!("Nm2.map_has_no_further_entries", palette::named::entries().count() == NAMED_COUNT);
                ob!("Nm2.case_variants_and_near_misses_not_found",
                    palette::named::from_str("AliceBlue").is_none() && palette::named::from_str("RED").is_none()
                    && palette::named::from_str("red ").is_none() && palette::named::from_str(" red").is_none()
                    && palette::named::from_str("").is_none() && palette::named::from_str("re").is_none()
                    && palette::named::from_str("redd").is_none() && palette::named::from_str("#ff0000").is_none());
            }
        }
    };
}
named_chunks! { named_0: 0, 25; named_1: 25, 50; named_2: 50, 75; named_3: 75, 100; named_4: 100, 125; named_5: 125, 150; }

pub fn registry() -> Vec<&'static crate::macros::Entry> {
    REG_PACK.iter().chain(REG_HEX.iter()).chain(REG_WIDE.iter()).chain(REG_LUMA.iter()).chain(REG_NAMED.iter()).collect()
}
