//! Native evaluation of the real LUT encoders/decoders at their break points, for the
//! exact-rational accuracy certificate (engine X, C05 T6). Binary search is justified by the
//! monotonicity contract T3 that engine K discharges for all pairs of f32.
use palette::encoding::{AdobeRgb, FromLinear, IntoLinear, P3Gamma, ProPhotoRgb, RecOetf, Srgb};

fn breakpoints(max: u32, f: &dyn Fn(f32) -> u32) -> Vec<u32> {
    // lo[k] = smallest bit pattern b in [0, bits(1.0)] with f(from_bits(b)) >= k
    let top = 1.0f32.to_bits();
    let mut out = Vec::with_capacity(max as usize + 1);
    for k in 0..=max {
        let (mut lo, mut hi) = (0u32, top);
        // invariant: f(hi) >= k (f(1.0) == MAX is contract T2)
        while lo < hi {
            let mid = lo + (hi - lo) / 2;
            if f(f32::from_bits(mid)) >= k { hi = mid } else { lo = mid + 1 }
        }
        out.push(lo);
    }
    out
}

fn join<T: std::fmt::Display>(v: &[T]) -> String {
    v.iter().map(|x| x.to_string()).collect::<Vec<_>>().join(",")
}

macro_rules! dump_enc {
    ($enc:ty, $code:ty, $name:expr) => {{
        let max = <$code>::MAX as u32;
        let lo = breakpoints(max, &|x| <$enc as FromLinear<f32, $code>>::from_linear(x) as u32);
        let at_lo: Vec<u32> = lo.iter().map(|b| <$enc as FromLinear<f32, $code>>::from_linear(f32::from_bits(*b)) as u32).collect();
        let below: Vec<u32> = lo.iter().map(|b| if *b == 0 { 0 } else { <$enc as FromLinear<f32, $code>>::from_linear(f32::from_bits(*b - 1)) as u32 }).collect();
        let d32: Vec<u32> = (0..=max).map(|c| <$enc as IntoLinear<f32, $code>>::into_linear(c as $code).to_bits()).collect();
        let d64: Vec<u64> = (0..=max).map(|c| <$enc as IntoLinear<f64, $code>>::into_linear(c as $code).to_bits()).collect();
        println!("{{\"enc\":\"{}\",\"max\":{},\"lo\":[{}],\"at_lo\":[{}],\"below_lo\":[{}],\"dec32\":[{}],\"dec64\":[{}]}}",
                 $name, max, join(&lo), join(&at_lo), join(&below), join(&d32), join(&d64));
    }};
}

pub fn dump(which: &str) {
    match which {
        "Srgb" => dump_enc!(Srgb, u8, "Srgb"),
        "RecOetf" => dump_enc!(RecOetf, u8, "RecOetf"),
        "AdobeRgb" => dump_enc!(AdobeRgb, u8, "AdobeRgb"),
        "P3Gamma" => dump_enc!(P3Gamma, u8, "P3Gamma"),
        "ProPhotoRgb" => dump_enc!(ProPhotoRgb, u16, "ProPhotoRgb"),
        _ => { eprintln!("unknown encoding"); std::process::exit(2) }
    }
}
