//! C04 — zero-copy casts (palette/src/cast/{array,uint,packed}.rs and the unsafe ArrayCast/UintCast impls).
//!   L1  layout: size_of/align_of of the colour equal those of its Array/Uint (what every pointer cast relies on)
//!   L2  components appear in declared field order, alpha last; from_* is the inverse; bit-for-bit round trip
//!   L3  reference forms view the same memory (pointer identity), mutation through the view is seen by the owner
//!   S1  slices/boxed slices: length scales exactly by N, same pointer, element correspondence at every index
//!   S2  try_from_component_*: Err iff len % N != 0, the rejected buffer is handed back unchanged
//!   V1  Vec forms: pointer, len and capacity (scaled exactly by N) preserved; Err(LengthMismatch) iff len % N != 0,
//!       else Err(CapacityMismatch) iff cap % N != 0, with the same Vec (ptr,len,cap) inside the error
//! Kani's pointer/allocation checks cover the unsafe blocks (from_raw_parts, pointer casts, transmute_copy).
use crate::gen::Gen;
use palette::cast::{self, Packed};
use palette::rgb::channels::{Argb, Rgba};
use palette::white_point::D65;
use palette::{Alpha, Hsv, Lab, LinSrgb, Srgb, Srgba};

#[allow(non_camel_case_types)]
type Luma16 = palette::luma::Luma<palette::encoding::Srgb, u16>;

harnesses! { REG_VALUE, "C04", "c04";
    { id: "value.rgb_rgba_u8", tier: quick, label: "complete",
      func: "cast::{into_array, from_array, into_array_ref, from_array_ref, into_array_mut, from_array_mut} for Rgb/Alpha<Rgb> [cast/array.rs], unsafe impl ArrayCast for Rgb/Alpha [derive, alpha/alpha.rs]",
      desc: "L1-L3 for all component values: layout equality, declared field order r,g,b(,a) with alpha last, bit-exact round trip, pointer identity of the reference forms, write-through of the mutable view" }
    fn value_rgb(g) {
        let (r, gr, b, a) = (g.u8(), g.u8(), g.u8(), g.u8());
        cov!(g, r != gr && gr != b && b != a);
        ob!("L1.layout_rgb", core::mem::size_of::<Srgb<u8>>() == core::mem::size_of::<[u8; 3]>() && core::mem::align_of::<Srgb<u8>>() == core::mem::align_of::<[u8; 3]>());
        ob!("L1.layout_rgba", core::mem::size_of::<Srgba<u8>>() == core::mem::size_of::<[u8; 4]>() && core::mem::align_of::<Srgba<u8>>() == core::mem::align_of::<[u8; 4]>());
        let c = Srgb::new(r, gr, b);
        let arr: [u8; 3] = cast::into_array(c);
        ob!("L2.field_order_rgb", arr[0] == r && arr[1] == gr && arr[2] == b);
        let back: Srgb<u8> = cast::from_array(arr);
        ob!("L2.round_trip_rgb", back.red == r && back.green == gr && back.blue == b);
        let ca = Srgba::new(r, gr, b, a);
        let arr4: [u8; 4] = cast::into_array(ca);
        ob!("L2.field_order_rgba_alpha_last", arr4[0] == r && arr4[1] == gr && arr4[2] == b && arr4[3] == a);
        let back4: Srgba<u8> = cast::from_array(arr4);
        ob!("L2.round_trip_rgba", back4.red == r && back4.green == gr && back4.blue == b && back4.alpha == a);
        // references
        let rf: &[u8; 3] = cast::into_array_ref(&c);
        ob!("L3.ref_same_memory", rf.as_ptr() as usize == &c as *const Srgb<u8> as usize && rf[1] == gr);
        let cr: &Srgb<u8> = cast::from_array_ref(&arr);
        ob!("L3.from_ref_same_memory", cr as *const Srgb<u8> as usize == arr.as_ptr() as usize && cr.blue == b);
        let mut m = ca;
        let p0 = &m as *const Srgba<u8> as usize;
        {
            let mv: &mut [u8; 4] = cast::into_array_mut(&mut m);
            ob!("L3.mut_same_memory", mv.as_ptr() as usize == p0);
            mv[3] = mv[3].wrapping_add(1);
            mv[0] = mv[0].wrapping_add(2);
        }
        ob!("L3.write_through_mutable_view", m.alpha == a.wrapping_add(1) && m.red == r.wrapping_add(2) && m.green == gr && m.blue == b);
        let mut arr_m = arr4;
        { let cm: &mut Srgba<u8> = cast::from_array_mut(&mut arr_m); cm.green = cm.green.wrapping_add(3); }
        ob!("L3.write_through_from_array_mut", arr_m[1] == gr.wrapping_add(3) && arr_m[0] == r && arr_m[3] == a);
    }

    { id: "value.float_hue_alpha_types", tier: quick, label: "complete",
      func: "cast::{into_array, from_array} for Hsv (hue first), Lab, Alpha<Lab>, PreAlpha<Rgb> (NextArray) [alpha/alpha.rs, blend/pre_alpha.rs, hsv.rs, lab.rs]",
      desc: "L1+L2 for all f32 bit patterns: declared field order (hue, saturation, value / l, a, b, alpha last), bit-exact round trip incl. NaN payloads, layout equality" }
    fn value_float(g) {
        let (x, y, z, w) = (g.u32(), g.u32(), g.u32(), g.u32());
        cov!(g, x != y && y != z);
        let (fx, fy, fz, fw) = (f32::from_bits(x), f32::from_bits(y), f32::from_bits(z), f32::from_bits(w));
        let h: Hsv<palette::encoding::Srgb, f32> = Hsv::new(fx, fy, fz);
        let arr: [f32; 3] = cast::into_array(h);
        ob!("L2.field_order_hsv_hue_first", arr[0].to_bits() == x && arr[1].to_bits() == y && arr[2].to_bits() == z);
        let hb: Hsv<palette::encoding::Srgb, f32> = cast::from_array(arr);
        ob!("L2.round_trip_hsv_bit_exact", hb.hue.into_raw_degrees().to_bits() == x && hb.saturation.to_bits() == y && hb.value.to_bits() == z);
        let l: Alpha<Lab<D65, f32>, f32> = Alpha { color: Lab::new(fx, fy, fz), alpha: fw };
        let arr4: [f32; 4] = cast::into_array(l);
        ob!("L2.field_order_laba_alpha_last", arr4[0].to_bits() == x && arr4[1].to_bits() == y && arr4[2].to_bits() == z && arr4[3].to_bits() == w);
        let lb: Alpha<Lab<D65, f32>, f32> = cast::from_array(arr4);
        ob!("L2.round_trip_laba_bit_exact", lb.color.l.to_bits() == x && lb.color.b.to_bits() == z && lb.alpha.to_bits() == w);
        let p: palette::blend::PreAlpha<LinSrgb<f32>> = palette::blend::PreAlpha { color: LinSrgb::new(fx, fy, fz), alpha: fw };
        let parr: [f32; 4] = cast::into_array(p);
        ob!("L2.field_order_prealpha_alpha_last", parr[0].to_bits() == x && parr[2].to_bits() == z && parr[3].to_bits() == w);
        ob!("L1.layout_float_types",
            core::mem::size_of::<Hsv<palette::encoding::Srgb, f32>>() == 12 && core::mem::align_of::<Hsv<palette::encoding::Srgb, f32>>() == 4
            && core::mem::size_of::<Alpha<Lab<D65, f32>, f32>>() == 16 && core::mem::size_of::<palette::blend::PreAlpha<LinSrgb<f32>>>() == 16
            && core::mem::size_of::<Alpha<Lab<D65, f64>, f64>>() == 32 && core::mem::align_of::<Alpha<Lab<D65, f64>, f64>>() == 8);
    }

    { id: "value.uint_casts", tier: quick, label: "complete",
      func: "cast::{into_uint, from_uint, into_uint_ref, from_uint_ref, into_uint_mut} for Packed<_, u32>, Luma<_, u16> [cast/uint.rs, cast/packed.rs, luma/luma.rs]",
      desc: "L1-L3 for all 2^32 / 2^16 values: unsigned-integer casts are the identity on the bits, both directions, same memory for the reference forms" }
    fn value_uint(g) {
        let p = g.u32();
        cov!(g, p > 0x01020304);
        let packed: Packed<Rgba, u32> = p.into();
        let u: u32 = cast::into_uint(packed);
        ob!("L2.packed_into_uint_identity", u == p);
        let back: Packed<Argb, u32> = cast::from_uint(p);
        ob!("L2.packed_from_uint_identity", back.color == p);
        let rf: &u32 = cast::into_uint_ref(&packed);
        ob!("L3.uint_ref_same_memory", rf as *const u32 as usize == &packed as *const Packed<Rgba, u32> as usize && *rf == p);
        let l = g.u16();
        let luma: Luma16 = palette::luma::Luma::new(l);
        let lu: u16 = cast::into_uint(luma);
        ob!("L2.luma_into_uint_identity", lu == l);
        let lb: Luma16 = cast::from_uint(l);
        ob!("L2.luma_from_uint_identity", lb.luma == l);
        let mut m = luma;
        { let mv: &mut u16 = cast::into_uint_mut(&mut m); *mv = mv.wrapping_add(5); }
        ob!("L3.uint_write_through", m.luma == l.wrapping_add(5));
        ob!("L1.layout_uint", core::mem::size_of::<Packed<Rgba, u32>>() == 4 && core::mem::align_of::<Packed<Rgba, u32>>() == 4 && core::mem::size_of::<Luma16>() == 2 && core::mem::align_of::<Luma16>() == 2);
        // Packed<_, [u8;4]> is an array cast
        let pa: Packed<Rgba, [u8; 4]> = Packed::from(p.to_be_bytes());
        let arr: [u8; 4] = cast::into_array(pa);
        ob!("L2.packed_array_identity", arr == p.to_be_bytes());
    }
}

/// a slice of up to N symbolic bytes
fn bytes<G: Gen, const N: usize>(g: &mut G) -> ([u8; N], usize) {
    let mut b = [0u8; N];
    let mut i = 0;
    while i < N { b[i] = g.u8(); i += 1; }
    let n = g.usize();
    g.assume(n <= N);
    (b, n)
}

harnesses! { REG_SLICE, "C04", "c04";
    { id: "slice.component_slices_rgb_u8", tier: quick, label: "bounded(len<=10 components)",
      func: "cast::{try_from_component_slice, from_component_slice, into_component_slice, into_array_slice, from_array_slice} [cast/array.rs]",
      desc: "S1+S2 for every length 0..=10 and all contents: Err iff len % 3 != 0; Ok has len/3 colours at the same address; colour i is components 3i..3i+2 in order; casting back gives the same pointer and length" }
    #[kani::unwind(12)]
    fn slice_rgb(g) {
        let (buf, n) = bytes::<G, 10>(g);
        cov!(g, n == 9);
        cov!(g, n == 7);
        cov!(g, n == 0);
        let s = &buf[..n];
        match cast::try_from_component_slice::<Srgb<u8>>(s) {
            Ok(colors) => {
                ob!("S2.ok_iff_multiple", n % 3 == 0);
                ob!("S1.length_scales_exactly", colors.len() * 3 == n);
                ob!("S1.same_memory", colors.as_ptr() as usize == s.as_ptr() as usize);
                let i = g.usize();
                if i < colors.len() {
                    ob!("S1.element_correspondence", colors[i].red == buf[3 * i] && colors[i].green == buf[3 * i + 1] && colors[i].blue == buf[3 * i + 2]);
                }
                let back: &[u8] = cast::into_component_slice(colors);
                ob!("S1.round_trip_same_slice", back.as_ptr() as usize == s.as_ptr() as usize && back.len() == n);
                let arrs: &[[u8; 3]] = cast::into_array_slice(colors);
                ob!("S1.array_slice_same_memory_and_len", arrs.as_ptr() as usize == s.as_ptr() as usize && arrs.len() == colors.len());
                let again: &[Srgb<u8>] = cast::from_array_slice(arrs);
                ob!("S1.from_array_slice_round_trip", again.as_ptr() as usize == s.as_ptr() as usize && again.len() == colors.len());
            }
            Err(_) => { ob!("S2.err_iff_not_multiple", n % 3 != 0); }
        }
    }

    { id: "slice.component_slices_mut_rgba_u8", tier: quick, label: "bounded(len<=9 components)",
      func: "cast::{try_from_component_slice_mut, into_component_slice_mut} [cast/array.rs]",
      desc: "S1+S2 for the mutable forms over a 4-component colour: Err iff len % 4 != 0; writes through the colour view land in the component buffer at the declared positions and nowhere else" }
    #[kani::unwind(11)]
    fn slice_mut_rgba(g) {
        let (mut buf, n) = bytes::<G, 9>(g);
        cov!(g, n == 8);
        cov!(g, n == 5);
        let orig = buf;
        let base = buf.as_ptr() as usize;
        let i = g.usize();
        let mut wrote = false;
        match cast::try_from_component_slice_mut::<Srgba<u8>>(&mut buf[..n]) {
            Ok(colors) => {
                ob!("S2.ok_iff_multiple", n % 4 == 0);
                ob!("S1.length_scales_exactly", colors.len() * 4 == n);
                ob!("S1.same_memory", colors.as_ptr() as usize == base);
                if i < colors.len() { colors[i].alpha = colors[i].alpha.wrapping_add(1); wrote = true; }
                let back: &mut [u8] = cast::into_component_slice_mut(colors);
                ob!("S1.round_trip_same_slice", back.as_ptr() as usize == base && back.len() == n);
            }
            Err(_) => { ob!("S2.err_iff_not_multiple", n % 4 != 0); }
        }
        let mut k = 0;
        while k < 9 {
            let want = if wrote && k == 4 * i + 3 { orig[k].wrapping_add(1) } else { orig[k] };
            ob!("S1.write_through_and_frame", buf[k] == want);
            k += 1;
        }
    }

    { id: "slice.boxed_slices_rgb_u8", tier: quick, label: "bounded(len<=7 components)",
      func: "cast::{try_from_component_slice_box, into_component_slice_box, into_array_slice_box, from_array_slice_box} [cast/array.rs]",
      desc: "S1+S2 for boxed slices: Err iff len % 3 != 0 and the error hands the same allocation back (same pointer, length, contents); Ok keeps the allocation (same pointer), length scales exactly" }
    #[kani::unwind(9)]
    fn boxed_rgb(g) {
        let n = g.usize();
        g.assume(n <= 7);
        cov!(g, n == 6);
        cov!(g, n == 4);
        let mut v: Vec<u8> = Vec::with_capacity(n);
        let mut i = 0;
        while i < n { v.push(g.u8()); i += 1; }
        let first = if n > 0 { v[0] } else { 0 };
        let b: Box<[u8]> = v.into_boxed_slice();
        let p0 = b.as_ptr() as usize;
        match cast::try_from_component_slice_box::<Srgb<u8>>(b) {
            Ok(colors) => {
                ob!("S2.ok_iff_multiple", n % 3 == 0);
                ob!("S1.length_scales_exactly", colors.len() * 3 == n);
                ob!("S1.same_allocation", n == 0 || colors.as_ptr() as usize == p0);
                if n >= 3 { ob!("S1.element_correspondence", colors[0].red == first); }
                let back: Box<[u8]> = cast::into_component_slice_box(colors);
                ob!("S1.round_trip_same_allocation", back.len() == n && (n == 0 || back.as_ptr() as usize == p0));
            }
            Err(e) => {
                ob!("S2.err_iff_not_multiple", n % 3 != 0);
                ob!("S2.rejected_buffer_handed_back_unchanged", e.values.len() == n && e.values.as_ptr() as usize == p0 && e.values[0] == first);
            }
        }
    }
}

harnesses! { REG_VEC, "C04", "c04";
    { id: "vec.component_vec_rgb_u8", tier: quick, label: "bounded(len<=6, capacity<=8 components)",
      func: "cast::{try_from_component_vec, into_component_vec} [cast/array.rs]",
      desc: "V1 for every (len, capacity) within the bound: Err(LengthMismatch) iff len % 3 != 0, else Err(CapacityMismatch) iff cap % 3 != 0 (also for EMPTY vectors), the error carries the same Vec (pointer, len, capacity); Ok keeps the pointer, len and capacity scale exactly by 3; casting back restores them" }
    #[kani::unwind(9)]
    fn vec_rgb(g) {
        let cap = g.usize();
        let n = g.usize();
        g.assume(cap <= 8 && n <= 6 && n <= cap);
        cov!(g, n == 6 && cap == 6);
        cov!(g, n == 0 && cap == 4);
        cov!(g, n == 3 && cap == 7);
        let mut v: Vec<u8> = Vec::with_capacity(cap);
        let mut i = 0;
        while i < n { v.push(g.u8()); i += 1; }
        let (p0, l0, c0) = (v.as_ptr() as usize, v.len(), v.capacity());
        let first = if n > 0 { v[0] } else { 0 };
        match cast::try_from_component_vec::<Srgb<u8>>(v) {
            Ok(colors) => {
                ob!("V1.ok_iff_len_and_capacity_multiples", l0 % 3 == 0 && c0 % 3 == 0);
                ob!("V1.same_pointer", colors.as_ptr() as usize == p0);
                ob!("V1.len_and_capacity_scale_exactly", colors.len() * 3 == l0 && colors.capacity() * 3 == c0);
                if l0 >= 3 { ob!("V1.element_correspondence", colors[0].red == first); }
                let back: Vec<u8> = cast::into_component_vec(colors);
                ob!("V1.round_trip_restores_pointer_len_capacity", back.as_ptr() as usize == p0 && back.len() == l0 && back.capacity() == c0);
            }
            Err(e) => {
                ob!("V1.err_iff_mismatch", l0 % 3 != 0 || c0 % 3 != 0);
                let kind_ok = match e.kind {
                    palette::cast::VecCastErrorKind::LengthMismatch => l0 % 3 != 0,
                    palette::cast::VecCastErrorKind::CapacityMismatch => l0 % 3 == 0 && c0 % 3 != 0,
                };
                ob!("V1.error_kind", kind_ok);
                ob!("V1.rejected_vec_handed_back_unchanged", e.values.as_ptr() as usize == p0 && e.values.len() == l0 && e.values.capacity() == c0);
            }
        }
    }

    { id: "vec.array_and_uint_vecs", tier: quick, label: "bounded(len<=3, capacity<=5 colours)",
      func: "cast::{into_array_vec, from_array_vec, into_component_vec, from_component_vec, into_uint_vec, from_uint_vec} [cast/array.rs, cast/uint.rs]",
      desc: "V1 for every (len, capacity) within the bound, incl. spare capacity: pointer preserved, len and capacity preserved (array/uint forms) or scaled exactly by N (component forms), contents in order" }
    #[kani::unwind(7)]
    fn vec_array_uint(g) {
        let cap = g.usize();
        let n = g.usize();
        g.assume(cap <= 5 && n <= 3 && n <= cap);
        cov!(g, n == 2 && cap == 5);
        cov!(g, n == 0 && cap == 3);
        let mut v: Vec<Packed<Rgba, u32>> = Vec::with_capacity(cap);
        let mut i = 0;
        while i < n { v.push(Packed::from(g.u32())); i += 1; }
        let (p0, l0, c0) = (v.as_ptr() as usize, v.len(), v.capacity());
        let first = if n > 0 { v[0].color } else { 0 };
        let u: Vec<u32> = cast::into_uint_vec(v);
        ob!("V1.into_uint_vec_keeps_pointer_len_capacity", u.as_ptr() as usize == p0 && u.len() == l0 && u.capacity() == c0);
        if n > 0 { ob!("V1.into_uint_vec_contents", u[0] == first); }
        let back: Vec<Packed<Rgba, u32>> = cast::from_uint_vec(u);
        ob!("V1.from_uint_vec_keeps_pointer_len_capacity", back.as_ptr() as usize == p0 && back.len() == l0 && back.capacity() == c0);
        // array / component forms on a 4-component colour
        let mut w: Vec<Srgba<u8>> = Vec::with_capacity(cap);
        let mut i = 0;
        while i < n { w.push(Srgba::new(g.u8(), g.u8(), g.u8(), g.u8())); i += 1; }
        let (q0, m0, d0) = (w.as_ptr() as usize, w.len(), w.capacity());
        let a: Vec<[u8; 4]> = cast::into_array_vec(w);
        ob!("V1.into_array_vec_keeps_pointer_len_capacity", a.as_ptr() as usize == q0 && a.len() == m0 && a.capacity() == d0);
        let c: Vec<Srgba<u8>> = cast::from_array_vec(a);
        ob!("V1.from_array_vec_keeps_pointer_len_capacity", c.as_ptr() as usize == q0 && c.len() == m0 && c.capacity() == d0);
        let comps: Vec<u8> = cast::into_component_vec(c);
        ob!("V1.into_component_vec_scales_by_4", comps.as_ptr() as usize == q0 && comps.len() == 4 * m0 && comps.capacity() == 4 * d0);
        let again: Vec<Srgba<u8>> = cast::from_component_vec(comps);
        ob!("V1.from_component_vec_scales_back", again.as_ptr() as usize == q0 && again.len() == m0 && again.capacity() == d0);
    }
}

pub fn registry() -> Vec<&'static crate::macros::Entry> {
    REG_VALUE.iter().chain(REG_SLICE.iter()).chain(REG_VEC.iter()).collect()
}
