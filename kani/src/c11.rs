//! C11 — hues behave as angles on a circle (palette/src/angle.rs, palette/src/hues.rs).
//!
//! For every f32 angle x with |x| <= 2^20 (all bit patterns in that range), per hue type:
//!   N1  0 - e <= into_positive_degrees() <= 360 + e          e = rounding error of the stored angle
//!   N2  -180 - e <= into_degrees() <= 180 + e                 (<= max(|x|,360) * 2^-22)
//!   N3  both normal forms are congruent to x modulo 360: result == x - 360k for an integer k,
//!       up to e (checked in exact f64 arithmetic, k found among floor(x/360)+{-1,0,1})
//!   N5  every accessor of the signed form agrees: f32::from(h), f64::from(h), into_radians
//!   E1  Hue(a) == Hue(b) whenever b == a + 360n exactly (n integer, both representable)
//!   A1  degree / radian accessors are consistent (one multiplication by a constant)
//!   U1  u8 <-> float: every 8-bit hue round-trips; float -> u8 is round(u/360*256) with 256 -> 0
//!   S1  Add/Sub forward to the raw angle
use crate::gen::Gen;
use palette::hues::{Cam16Hue, LabHue, LuvHue, OklabHue, RgbHue};

pub trait H32: Copy + PartialEq {
    fn new(x: f32) -> Self;
    fn raw(self) -> f32;
    fn pos(self) -> f32;
    fn signed(self) -> f32;
    fn signed_rad(self) -> f32;
    fn pos_rad(self) -> f32;
    fn raw_rad(self) -> f32;
    fn from_rad(r: f32) -> Self;
    fn to_f32(self) -> f32;
    fn to_f64(self) -> f64;
    fn to_u8(self) -> u8;
    fn from_u8(c: u8) -> Self;
    fn add(self, o: Self) -> Self;
    fn sub(self, o: Self) -> Self;
    fn add_raw(self, o: f32) -> Self;
}
pub trait H64: Copy + PartialEq {
    fn new(x: f64) -> Self;
    fn pos(self) -> f64;
    fn signed(self) -> f64;
    fn to_f32(self) -> f32;
    fn to_f64(self) -> f64;
    fn to_u8(self) -> u8;
    fn from_u8(c: u8) -> Self;
}
macro_rules! himpl {
    ($($h:ident),*) => { $(
        impl H32 for $h<f32> {
            fn new(x: f32) -> Self { $h::from_degrees(x) }
            fn raw(self) -> f32 { self.into_raw_degrees() }
            fn pos(self) -> f32 { self.into_positive_degrees() }
            fn signed(self) -> f32 { self.into_degrees() }
            fn signed_rad(self) -> f32 { self.into_radians() }
            fn pos_rad(self) -> f32 { self.into_positive_radians() }
            fn raw_rad(self) -> f32 { self.into_raw_radians() }
            fn from_rad(r: f32) -> Self { $h::from_radians(r) }
            fn to_f32(self) -> f32 { f32::from(self) }
            fn to_f64(self) -> f64 { f64::from(self) }
            fn to_u8(self) -> u8 { self.into_format::<u8>().into_inner() }
            fn from_u8(c: u8) -> Self { $h::<u8>::new(c).into_format::<f32>() }
            fn add(self, o: Self) -> Self { self + o }
            fn sub(self, o: Self) -> Self { self - o }
            fn add_raw(self, o: f32) -> Self { self + o }
        }
        impl H64 for $h<f64> {
            fn new(x: f64) -> Self { $h::from_degrees(x) }
            fn pos(self) -> f64 { self.into_positive_degrees() }
            fn signed(self) -> f64 { self.into_degrees() }
            fn to_f32(self) -> f32 { f32::from(self) }
            fn to_f64(self) -> f64 { f64::from(self) }
            fn to_u8(self) -> u8 { self.into_format::<u8>().into_inner() }
            fn from_u8(c: u8) -> Self { $h::<u8>::new(c).into_format::<f64>() }
        }
    )* };
}
himpl!(RgbHue, LabHue, LuvHue, OklabHue, Cam16Hue);

const LIM: f32 = 1048576.0; // 2^20

fn angle<G: Gen>(g: &mut G) -> f32 {
    let x = g.f32();
    g.assume(x >= -LIM && x <= LIM);
    x
}
fn eps(x: f32) -> f64 {
    let a = if x < 0.0 { -x } else { x };
    let m = if a > 360.0 { a } else { 360.0 };
    (m as f64) * (1.0 / 4194304.0) // 2^-22
}
/// r is congruent to x modulo 360 up to e: r == x - 360k for an integer k (exact f64 arithmetic;
/// k is searched among the five integers around trunc(x * (1/360))).
fn congruent(x: f32, r: f32, e: f64) -> bool {
    let k0 = (x * (1.0 / 360.0)) as i32;
    let t0 = (x as f64) - ((k0 * 360) as f64) - (r as f64);
    let c = |t: f64| -> bool { let a = if t < 0.0 { -t } else { t }; a <= e };
    c(t0) || c(t0 - 360.0) || c(t0 + 360.0) || c(t0 - 720.0) || c(t0 + 720.0)
}

pub fn normal_forms<Hh: H32, G: Gen>(g: &mut G, part: u8) {
    let x = angle(g);
    cov!(g, x > 1000.0);
    cov!(g, x < -1000.0);
    let h = Hh::new(x);
    let e = eps(x);
    if part == 1 {
        let u = h.pos();
        ob!("N1.unsigned_normal_form_in_0_360", (u as f64) >= -e && (u as f64) <= 360.0 + e);
    } else if part == 2 {
        let s = h.signed();
        ob!("N2.signed_normal_form_in_m180_180", (s as f64) >= -180.0 - e && (s as f64) <= 180.0 + e);
    } else if part == 3 {
        let u = h.pos();
        ob!("N3.unsigned_congruent_mod_360", congruent(x, u, e));
    } else {
        let s = h.signed();
        ob!("N3.signed_congruent_mod_360", congruent(x, s, e));
    }
}

pub fn accessors<Hh: H32, G: Gen>(g: &mut G, part: u8) {
    let x = angle(g);
    cov!(g, x > 200.0 && x < 300.0);
    let h = Hh::new(x);
    let e = eps(x);
    if part == 1 {
        // the scalar conversions are under the same range + congruence contract as into_degrees
        let s = h.to_f32();
        ob!("N5.f32_from_hue_in_m180_180", (s as f64) >= -180.0 - e && (s as f64) <= 180.0 + e);
        ob!("N5.f32_from_hue_congruent", congruent(x, s, e));
    } else if part == 2 {
        let s = h.to_f64();
        ob!("N5.f64_from_hue_in_m180_180", s >= -180.0 - e && s <= 180.0 + e);
        ob!("N5.f64_from_hue_congruent", congruent(x, s as f32, e) && (s as f32) as f64 == s);
    } else if part == 3 {
        ob!("A1.raw_degrees_is_stored_angle", h.raw().to_bits() == x.to_bits());
        ob!("A1.into_raw_radians_consistent", h.raw_rad().to_bits() == x.to_radians().to_bits());
        ob!("A1.from_radians_consistent", Hh::from_rad(x).raw().to_bits() == x.to_degrees().to_bits());
        let y = angle(g);
        ob!("S1.add_forwards_to_raw_angle", h.add(Hh::new(y)).raw().to_bits() == (x + y).to_bits());
        ob!("S1.sub_forwards_to_raw_angle", h.sub(Hh::new(y)).raw().to_bits() == (x - y).to_bits());
        ob!("S1.add_scalar_forwards_to_raw_angle", h.add_raw(y).raw().to_bits() == (x + y).to_bits());
    } else if part == 4 {
        // radians of the signed form: in [-pi - e', pi + e'] (one multiplication by pi/180 after the normal form)
        let r = h.signed_rad();
        let er = e * 0.0175 + 1.0e-6;
        ob!("A1.into_radians_in_mpi_pi", (r as f64) >= -3.14159265358979 - er && (r as f64) <= 3.14159265358979 + er);
    } else {
        let r = h.pos_rad();
        let er = e * 0.0175 + 1.0e-6;
        ob!("A1.into_positive_radians_in_0_2pi", (r as f64) >= -er && (r as f64) <= 6.28318530717959 + er);
    }
}

pub fn equality_whole_turns<Hh: H32, G: Gen>(g: &mut G, lim: f32, nlim: i32) {
    let a = angle(g);
    let b = angle(g);
    g.assume(a >= -lim && a <= lim && b >= -lim && b <= lim);
    let n = g.u16() as i32 - 32768;
    g.assume(n >= -nlim && n <= nlim);
    // b == a + 360 n EXACTLY: the f64 sum and the f64 difference must both be exact (a rounded f64 sum
    // can coincide with an f32 when |a| is tiny; the reverse subtraction then does not give a back)
    let t = (n * 360) as f64;
    g.assume((b as f64) == (a as f64) + t && (a as f64) == (b as f64) - t);
    cov!(g, n == 1 && a > 1.0);
    cov!(g, n < -3);
    ob!("E1.equal_to_itself_shifted_by_whole_turns", Hh::new(a) == Hh::new(b));
}

pub fn equality_sound<Hh: H32, G: Gen>(g: &mut G, lim: f32) {
    // hues comparing equal are congruent modulo 360 up to rounding (the "unequal when they differ by more" clause)
    let a = angle(g);
    let b = angle(g);
    g.assume(a >= -lim && a <= lim && b >= -lim && b <= lim);
    g.assume(Hh::new(a) == Hh::new(b));
    cov!(g, a != b);
    let e = eps(a) + eps(b);
    let ub = Hh::new(b).pos();
    ob!("E2.equal_implies_congruent", congruent(a, ub, e));
}

pub fn u8_roundtrip<Hh: H32, G: Gen>(g: &mut G) {
    let c = g.u8();
    cov!(g, c > 200);
    let f = Hh::from_u8(c);
    ob!("U1.u8_to_float_is_c_over_256_turns", f.raw() == (c as f32) * 1.40625);
    ob!("U1.every_8bit_hue_round_trips", f.to_u8() == c);
}

pub fn float_to_u8<Hh: H32, G: Gen>(g: &mut G) {
    let x = angle(g);
    cov!(g, x > 359.5 && x < 360.0);
    cov!(g, x < -10.0);
    let h = Hh::new(x);
    let c = h.to_u8();
    // spec from the normal form: t = u/360*256 in [0,256]; code is the nearest integer to t, 256 wrapping to 0
    let u = h.pos();
    let t = (u as f64) * (256.0 / 360.0);
    let cf = c as f64;
    let d0 = t - cf;
    let d0 = if d0 < 0.0 { -d0 } else { d0 };
    let d1 = t - (cf + 256.0);
    let d1 = if d1 < 0.0 { -d1 } else { d1 };
    let tol = 0.5 + 1.0e-4;
    ob!("U2.float_to_u8_is_nearest_code_with_wraparound", d0 <= tol || (c == 0 && d1 <= tol));
}

macro_rules! per_hue {
    ($reg:ident, $mp:expr, $f:ident, $idp:expr, $tier_first:ident, $tier_rest:ident, $func:expr, $desc:expr) => {
        harnesses! { $reg, "C11", $mp;
            { id: concat!($idp, ".RgbHue"), tier: $tier_first, label: "complete", func: concat!("palette::RgbHue: ", $func), desc: $desc }
            fn rgb(g) { $f::<RgbHue<f32>, G>(g) }
            { id: concat!($idp, ".LabHue"), tier: $tier_rest, label: "complete", func: concat!("palette::LabHue: ", $func), desc: $desc }
            fn lab(g) { $f::<LabHue<f32>, G>(g) }
            { id: concat!($idp, ".LuvHue"), tier: $tier_rest, label: "complete", func: concat!("palette::LuvHue: ", $func), desc: $desc }
            fn luv(g) { $f::<LuvHue<f32>, G>(g) }
            { id: concat!($idp, ".OklabHue"), tier: $tier_rest, label: "complete", func: concat!("palette::OklabHue: ", $func), desc: $desc }
            fn oklab(g) { $f::<OklabHue<f32>, G>(g) }
            { id: concat!($idp, ".Cam16Hue"), tier: $tier_rest, label: "complete", func: concat!("palette::hues::Cam16Hue: ", $func), desc: $desc }
            fn cam16(g) { $f::<Cam16Hue<f32>, G>(g) }
        }
    };
}

macro_rules! per_hue_part {
    ($reg:ident, $mp:expr, $f:ident, $part:expr, $idp:expr, $tier_first:ident, $tier_rest:ident, $func:expr, $desc:expr) => {
        harnesses! { $reg, "C11", $mp;
            { id: concat!($idp, ".RgbHue"), tier: $tier_first, label: "complete", func: concat!("palette::RgbHue: ", $func), desc: $desc }
            fn rgb(g) { $f::<RgbHue<f32>, G>(g, $part) }
            { id: concat!($idp, ".LabHue"), tier: $tier_rest, label: "complete", func: concat!("palette::LabHue: ", $func), desc: $desc }
            fn lab(g) { $f::<LabHue<f32>, G>(g, $part) }
            { id: concat!($idp, ".LuvHue"), tier: $tier_rest, label: "complete", func: concat!("palette::LuvHue: ", $func), desc: $desc }
            fn luv(g) { $f::<LuvHue<f32>, G>(g, $part) }
            { id: concat!($idp, ".OklabHue"), tier: $tier_rest, label: "complete", func: concat!("palette::OklabHue: ", $func), desc: $desc }
            fn oklab(g) { $f::<OklabHue<f32>, G>(g, $part) }
            { id: concat!($idp, ".Cam16Hue"), tier: $tier_rest, label: "complete", func: concat!("palette::hues::Cam16Hue: ", $func), desc: $desc }
            fn cam16(g) { $f::<Cam16Hue<f32>, G>(g, $part) }
        }
    };
}
pub mod nf1 { use super::*; per_hue_part!(REG, "c11::nf1", normal_forms, 1, "unsigned_range", quick, quick,
    "into_positive_degrees -> angle::normalize_unsigned_angle", "N1 for every f32 with |x| <= 2^20: unsigned normal form in [0,360] within the rounding error of the stored angle"); }
pub mod nf2 { use super::*; per_hue_part!(REG, "c11::nf2", normal_forms, 2, "signed_range", quick, quick,
    "into_degrees -> angle::normalize_signed_angle", "N2 for every f32 with |x| <= 2^20: signed normal form in [-180,180] within the rounding error"); }
pub mod nf3 { use super::*; per_hue_part!(REG, "c11::nf3", normal_forms, 3, "unsigned_congruent", quick, thorough,
    "into_positive_degrees -> angle::normalize_unsigned_angle", "N3 for every f32 with |x| <= 2^20: result == x - 360k for an integer k, up to the rounding error (exact f64 arithmetic)"); }
pub mod nf4 { use super::*; per_hue_part!(REG, "c11::nf4", normal_forms, 4, "signed_congruent", quick, thorough,
    "into_degrees -> angle::normalize_signed_angle", "N3 for every f32 with |x| <= 2^20: result == x - 360k for an integer k, up to the rounding error"); }
pub mod acc1 { use super::*; per_hue_part!(REG, "c11::acc1", accessors, 1, "f32_from_hue", quick, thorough,
    "impl From<Hue<f32>> for f32", "N5: the scalar conversion is under the same contract as into_degrees: in [-180,180] and congruent to the stored angle"); }
pub mod acc2 { use super::*; per_hue_part!(REG, "c11::acc2", accessors, 2, "f64_from_hue", quick, quick,
    "impl From<Hue<f32>> for f64", "N5: in [-180,180], congruent to the stored angle, and exactly an f32 value widened"); }
pub mod acc3 { use super::*; per_hue_part!(REG, "c11::acc3", accessors, 3, "raw_accessors_add_sub", quick, thorough,
    "into_raw_degrees, into_raw_radians, from_radians, Add, Sub", "A1/S1 bitwise: raw accessors return the stored angle (times pi/180), from_radians stores r*180/pi, Add/Sub act on the raw angle"); }
pub mod acc4 { use super::*; per_hue_part!(REG, "c11::acc4", accessors, 4, "into_radians_range", quick, thorough,
    "into_radians", "A1: the signed radian accessor lies in [-pi, pi] within rounding"); }
pub mod acc5 { use super::*; per_hue_part!(REG, "c11::acc5", accessors, 5, "into_positive_radians_range", quick, thorough,
    "into_positive_radians", "A1: the unsigned radian accessor lies in [0, 2pi] within rounding"); }
harnesses! { REG_EQ, "C11", "c11";
    { id: "equality_whole_turns.RgbHue.range2048", tier: quick, label: "bounded(|angle|<=2048,|turns|<=6)",
      func: "PartialEq for RgbHue -> AngleEq::angle_eq [hues.rs, angle.rs]",
      desc: "E1 for all pairs (a, b = a + 360n exactly representable) in the stated range: the hues compare equal" }
    fn eq_small(g) { equality_whole_turns::<RgbHue<f32>, G>(g, 2048.0, 6) }
    { id: "equality_whole_turns.RgbHue", tier: unreached, label: "complete",
      func: "PartialEq for RgbHue -> AngleEq::angle_eq [hues.rs, angle.rs]",
      desc: "E1 for all pairs (a, b = a + 360n exactly representable), |a|,|b| <= 2^20" }
    fn eq_full(g) { equality_whole_turns::<RgbHue<f32>, G>(g, 1048576.0, 5900) }
    { id: "equality_sound.RgbHue.range2048", tier: quick, label: "bounded(|angle|<=2048)",
      func: "PartialEq for RgbHue -> AngleEq::angle_eq",
      desc: "E2 for all pairs comparing equal in the stated range: congruent modulo 360 up to rounding" }
    fn eqs_small(g) { equality_sound::<RgbHue<f32>, G>(g, 2048.0) }
    { id: "equality.special_values", tier: quick, label: "complete",
      func: "PartialEq for every hue type",
      desc: "0 == 360 == -360 == 720 and 180 == -180 == 540, 90 != 91, for each of the five hue types (concrete)" }
    fn eq_special(g) {
        cov!(g, true);
        macro_rules! sp { ($h:ident) => {
            ob!("E1.zero_360_m360_equal", $h::<f32>::new(0.0) == $h::new(360.0) && $h::<f32>::new(0.0) == $h::new(-360.0) && $h::<f32>::new(360.0) == $h::new(-360.0) && $h::<f32>::new(720.0) == $h::new(0.0));
            ob!("E1.180_m180_equal", $h::<f32>::new(180.0) == $h::new(-180.0) && $h::<f32>::new(540.0) == $h::new(-180.0));
            ob!("E2.distinct_unequal", $h::<f32>::new(90.0) != $h::new(91.0) && $h::<f32>::new(0.0) != $h::new(180.0));
        } }
        sp!(RgbHue); sp!(LabHue); sp!(LuvHue); sp!(OklabHue); sp!(Cam16Hue);
    }
}
pub mod u8rt { use super::*;
    per_hue!(REG, "c11::u8rt", u8_roundtrip, "u8_roundtrip", quick, quick,
        "Hue<u8>::into_format::<f32>, Hue<f32>::into_format::<u8> -> FromAngle<u8> for f32, FromAngle<f32> for u8",
        "U1 for all 256 codes: u8 -> f32 is c/256 of a turn exactly, and converting back reproduces c"); }
pub mod f2u8 { use super::*;
    per_hue!(REG, "c11::f2u8", float_to_u8, "float_to_u8", quick, thorough,
        "Hue<f32>::into_format::<u8> -> FromAngle<f32> for u8",
        "U2 for every f32 with |x| <= 2^20: the code is the nearest integer to (unsigned normal form)/360*256, with 256 wrapping to 0"); }

pub fn f64_suite<Hh: H64, G: Gen>(g: &mut G, part: u8) {
    let x = g.f64();
    g.assume(x >= -1048576.0 && x <= 1048576.0);
    cov!(g, x > 1000.0);
    let h = Hh::new(x);
    let a = if x < 0.0 { -x } else { x };
    let e = (if a > 360.0 { a } else { 360.0 }) * (1.0 / 1125899906842624.0); // 2^-50
    if part == 0 {
        let u = h.pos();
        ob!("N1.unsigned_normal_form_in_0_360", u >= -e && u <= 360.0 + e);
    } else if part == 1 {
        let s = h.signed();
        ob!("N2.signed_normal_form_in_m180_180", s >= -180.0 - e && s <= 180.0 + e);
        ob!("N5.f64_from_hue_is_signed_normal_form", h.to_f64().to_bits() == s.to_bits());
        ob!("N5.f32_from_hue_is_signed_normal_form", h.to_f32().to_bits() == (s as f32).to_bits());
    } else {
        let c = g.u8();
        let f = Hh::from_u8(c);
        ob!("U1.every_8bit_hue_round_trips", f.to_u8() == c);
    }
}

harnesses! { REG_F64, "C11", "c11";
    { id: "f64.unsigned_range.RgbHue", tier: thorough, label: "complete",
      func: "palette::RgbHue<f64>::into_positive_degrees", desc: "N1 for every f64 with |x| <= 2^20 (single call)" }
    fn f64_unsigned(g) { f64_suite::<RgbHue<f64>, G>(g, 0) }
    { id: "f64.signed_range.RgbHue", tier: thorough, label: "complete",
      func: "palette::RgbHue<f64>::into_degrees, From<RgbHue<f64>> for f64/f32", desc: "N2/N5 for every f64 with |x| <= 2^20 (single call)" }
    fn f64_signed(g) { f64_suite::<RgbHue<f64>, G>(g, 1) }
    { id: "f64.u8_roundtrip.RgbHue", tier: quick, label: "complete",
      func: "FromAngle<u8> for f64, FromAngle<f64> for u8", desc: "U1 through f64 for all 256 codes" }
    fn f64_u8(g) { f64_suite::<RgbHue<f64>, G>(g, 2) }
}

pub fn registry() -> Vec<&'static crate::macros::Entry> {
    nf1::REG.iter().chain(nf2::REG.iter()).chain(nf3::REG.iter()).chain(nf4::REG.iter()).chain(acc1::REG.iter()).chain(acc2::REG.iter()).chain(acc3::REG.iter()).chain(acc4::REG.iter()).chain(acc5::REG.iter()).chain(REG_EQ.iter())
        .chain(u8rt::REG.iter()).chain(f2u8::REG.iter()).chain(REG_F64.iter()).collect()
}
