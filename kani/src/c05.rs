//! C05 — integer fast paths of the transfer functions (palette/src/encoding/lut.rs and the
//! `FromLinear<f32|f64, u8|u16>` / `IntoLinear<..>` impls of every encoding).
//!
//! Contracts, for EVERY f32 bit pattern (NaN, +-inf, negatives, subnormals included):
//!   T1  total and memory safe: the table read behind `get_unchecked` is in bounds
//!       (Kani checks the precondition of the unsafe read itself), no panic
//!   T2  x <= 0 (and -inf) -> 0;  x >= 1 (and +inf) -> MAX
//!   T3  monotone non-decreasing for all ordered pairs
//!   T4  encode(decode(c)) == c for every code c
//!   T5  the f64 entry point equals the f32 one on `x as f32`
//! (accuracy against the exact curve, T6, is the exact-rational certificate of engine X).
use crate::gen::Gen;
use palette::encoding::{AdobeRgb, FromLinear, IntoLinear, P3Gamma, ProPhotoRgb, RecOetf, Srgb};

macro_rules! lut_suite {
    ($reg:ident; $( $m:ident : $enc:ty, $code:ident, $name:expr, $tier1:ident, $tier4:ident );* $(;)?) => {
        $( pub mod $m {
            use super::*;
            harnesses! { REG, "C05", concat!("c05::", stringify!($m));
                { id: concat!("lut.", $name, ".total_safe_saturating"), tier: $tier1, label: "complete",
                  func: concat!("<", $name, " as FromLinear<f32, ", stringify!($code), ">>::from_linear -> encoding::lut::linear_f32_to_encoded_* [unsafe get_unchecked]"),
                  desc: "T1+T2 for every f32 bit pattern: in-bounds table read (Kani's get_unchecked precondition), no panic; x<=0 | -inf -> 0; x>=1 | +inf -> MAX" }
                fn total(g) {
                    let x = g.f32();
                    cov!(g, x != x);
                    cov!(g, x > 0.001 && x < 0.999);
                    cov!(g, x == f32::INFINITY);
                    let y: $code = <$enc as FromLinear<f32, $code>>::from_linear(x);
                    if x <= 0.0 { ob!("T2.nonpositive_maps_to_zero", y == 0); }
                    if x >= 1.0 { ob!("T2.at_or_above_one_maps_to_max", y == $code::MAX); }
                    ob!("T1.total", y <= $code::MAX);
                }

                { id: concat!("lut.", $name, ".monotone"), tier: $tier4, label: "complete",
                  func: concat!("<", $name, " as FromLinear<f32, ", stringify!($code), ">>::from_linear"),
                  desc: "T3 for all ordered pairs a <= b of f32 (non-NaN): f(a) <= f(b)" }
                fn monotone(g) {
                    let a = g.f32(); let b = g.f32();
                    g.assume(a <= b);
                    cov!(g, a < b && a > 0.0 && b < 1.0);
                    let ya: $code = <$enc as FromLinear<f32, $code>>::from_linear(a);
                    let yb: $code = <$enc as FromLinear<f32, $code>>::from_linear(b);
                    ob!("T3.monotone_non_decreasing", ya <= yb);
                }

                { id: concat!("lut.", $name, ".decode_encode"), tier: $tier4, label: "complete",
                  func: concat!("<", $name, " as IntoLinear<f32|f64, ", stringify!($code), ">>::into_linear composed with FromLinear"),
                  desc: "T4 for every code c: from_linear(into_linear(c)) == c through the f32 and the f64 decoder; decoded value in [0,1], 0 -> 0.0, MAX -> 1.0" }
                fn decode_encode(g) {
                    let c = g.$code();
                    cov!(g, c > 0 && c < $code::MAX);
                    let d32: f32 = <$enc as IntoLinear<f32, $code>>::into_linear(c);
                    let d64: f64 = <$enc as IntoLinear<f64, $code>>::into_linear(c);
                    ob!("T4.decoded_in_unit_interval", d32 >= 0.0 && d32 <= 1.0 && d64 >= 0.0 && d64 <= 1.0);
                    ob!("T4.decode_endpoints", (c != 0 || (d32 == 0.0 && d64 == 0.0)) && (c != $code::MAX || (d32 == 1.0 && d64 == 1.0)));
                    let e32: $code = <$enc as FromLinear<f32, $code>>::from_linear(d32);
                    let e64: $code = <$enc as FromLinear<f64, $code>>::from_linear(d64);
                    ob!("T4.decode_then_encode_f32", e32 == c);
                    ob!("T4.decode_then_encode_f64", e64 == c);
                }

                { id: concat!("lut.", $name, ".f64_entry"), tier: $tier4, label: "complete",
                  func: concat!("<", $name, " as FromLinear<f64, ", stringify!($code), ">>::from_linear"),
                  desc: "T5 for every f64 bit pattern: equals the f32 entry point on (x as f32); hence total, safe, saturating and monotone as well" }
                fn f64_entry(g) {
                    let x = g.f64();
                    cov!(g, x > 0.001 && x < 0.999);
                    let y: $code = <$enc as FromLinear<f64, $code>>::from_linear(x);
                    let z: $code = <$enc as FromLinear<f32, $code>>::from_linear(x as f32);
                    ob!("T5.f64_entry_equals_f32_entry", y == z);
                }
            }
        } )*
        pub fn registry() -> Vec<&'static crate::macros::Entry> {
            let mut v: Vec<&'static crate::macros::Entry> = Vec::new();
            $( v.extend($m::REG.iter()); )*
            v
        }
    };
}

lut_suite! { REG_ALL;
    srgb: Srgb, u8, "Srgb", quick, quick;
    rec_oetf: RecOetf, u8, "RecOetf", quick, quick;
    adobe: AdobeRgb, u8, "AdobeRgb", quick, quick;
    p3_gamma: P3Gamma, u8, "P3Gamma", quick, quick;
    // the three relational / exhaustive obligations of the 16-bit encoder are beyond CBMC within 900 s (65536-entry table, two lookups):
    // tier `unreached` = declared, never run, reported as not decided (lib/props.py C05 not_decided)
    prophoto: ProPhotoRgb, u16, "ProPhotoRgb", quick, unreached;
}
