//! Contracts added after the second round of seeded changes (obligations for C03, C04, C06, C11, C13 that the first
//! harness files did not state): the scalar clamp family of num.rs, clamping conversion of boxed slices / vectors,
//! the From / AsRef / TryFrom cast impls of macros/casting.rs (incl. allocation identity of the Box forms), end points of
//! all 42 number-format pairs, exactness of the hue normal forms inside the principal range, mixed guard chains.
use crate::c13::{A, B, C};
use crate::gen::Gen;
use palette::convert::{FromColor, FromColorUnclamped, FromColorUnclampedMut};
use palette::num::{Clamp as NClamp, ClampAssign as NClampAssign};
use palette::stimulus::IntoStimulus;
use palette::{Clamp, ClampAssign, IsWithinBounds};

// ---------------- C03: scalar clamp family (num.rs impl_uint! / impl_float!) ----------------
macro_rules! uint_clamp {
    ($reg:ident; $( $name:ident : $u:ident ),*) => {
        harnesses! { $reg, "C03", "extra";
            $(
            { id: concat!("num.clamp.", stringify!($u)), tier: quick, label: "complete",
              func: concat!("impl Clamp / ClampAssign for ", stringify!($u), " [num.rs impl_uint!]"),
              desc: "all values x, lo <= hi: clamp == the nearest value of [lo, hi], clamp_min == max(x, lo), clamp_max == min(x, hi), and the three assigning forms equal the by-value forms" }
            fn $name(g) {
                let (x, lo, hi) = (g.$u(), g.$u(), g.$u());
                g.assume(lo <= hi);
                cov!(g, x < lo && lo < hi);
                let spec = if x < lo { lo } else if x > hi { hi } else { x };
                ob!("S1.clamp", NClamp::clamp(x, lo, hi) == spec);
                ob!("S2.clamp_min", NClamp::clamp_min(x, lo) == if x < lo { lo } else { x });
                ob!("S3.clamp_max", NClamp::clamp_max(x, hi) == if x > hi { hi } else { x });
                let mut t = x; NClampAssign::clamp_assign(&mut t, lo, hi); ob!("S4.clamp_assign", t == spec);
                let mut t = x; NClampAssign::clamp_min_assign(&mut t, lo); ob!("S5.clamp_min_assign", t == if x < lo { lo } else { x });
                let mut t = x; NClampAssign::clamp_max_assign(&mut t, hi); ob!("S6.clamp_max_assign", t == if x > hi { hi } else { x });
            }
            )*
        }
    };
}
uint_clamp! { REG_UCLAMP; uclamp_u8: u8, uclamp_u16: u16, uclamp_u32: u32, uclamp_u64: u64, uclamp_u128: u128 }

macro_rules! float_clamp {
    ($reg:ident; $( $name:ident : $f:ident ),*) => {
        harnesses! { $reg, "C03", "extra";
            $(
            { id: concat!("num.clamp.", stringify!($f)), tier: quick, label: "complete",
              func: concat!("impl Clamp / ClampAssign for ", stringify!($f), " [num.rs impl_float!]"),
              desc: "all non-NaN x, lo <= hi: clamp, clamp_min, clamp_max and their assigning forms equal the nearest value of the interval (bitwise for in-range x)" }
            fn $name(g) {
                let (x, lo, hi) = (g.$f(), g.$f(), g.$f());
                g.assume(!x.is_nan() && !lo.is_nan() && !hi.is_nan() && lo <= hi);
                cov!(g, x < lo && lo < hi);
                let spec = if x < lo { lo } else if x > hi { hi } else { x };
                ob!("S1.clamp", NClamp::clamp(x, lo, hi) == spec);
                ob!("S2.clamp_min", NClamp::clamp_min(x, lo) == if x < lo { lo } else { x });
                ob!("S3.clamp_max", NClamp::clamp_max(x, hi) == if x > hi { hi } else { x });
                let mut t = x; NClampAssign::clamp_assign(&mut t, lo, hi); ob!("S4.clamp_assign", t == spec);
                let mut t = x; NClampAssign::clamp_min_assign(&mut t, lo); ob!("S5.clamp_min_assign", t == if x < lo { lo } else { x });
                let mut t = x; NClampAssign::clamp_max_assign(&mut t, hi); ob!("S6.clamp_max_assign", t == if x > hi { hi } else { x });
            }
            )*
        }
    };
}
float_clamp! { REG_FCLAMP; fclamp_f32: f32, fclamp_f64: f64 }

harnesses! { REG_C03X, "C03", "extra";
    { id: "clamp.integer_colours_assign_eq_clamp", tier: quick, label: "complete",
      func: "ClampAssign / Clamp / IsWithinBounds for Lms<_, u8>, Rgb<_, u8>, Luma<_, u16>, Alpha<Rgb<_, u8>, u8> [macros/clamp.rs, alpha/alpha.rs]",
      desc: "integer components, all values: clamp_assign == clamp, an in-bounds colour is unchanged by both, the result is within bounds (lower-bound-only components included: Lms)" }
    fn int_colour_clamp(g) {
        use palette::lms::VonKriesLms;
        use palette::white_point::D65;
        let (a, b, c, d) = (g.u8(), g.u8(), g.u8(), g.u8());
        cov!(g, a > 3 && b < 250);
        let l: VonKriesLms<D65, u8> = VonKriesLms::new(a, b, c);
        let by_value = l.clamp();
        let mut asg = l; asg.clamp_assign();
        ob!("B5.lms_clamp_assign_eq_clamp", asg.long == by_value.long && asg.medium == by_value.medium && asg.short == by_value.short);
        ob!("B2.lms_in_bounds_unchanged", !l.is_within_bounds() || (by_value.long == a && by_value.medium == b && by_value.short == c));
        ob!("B1.lms_within_after_clamp", by_value.is_within_bounds());
        let r: palette::Srgb<u8> = palette::Srgb::new(a, b, c);
        let mut ra = r; ra.clamp_assign();
        ob!("B5.rgb_u8_clamp_assign_eq_clamp", ra == r.clamp() && ra == r);
        let w: palette::Srgba<u8> = palette::Srgba::new(a, b, c, d);
        let mut wa = w; wa.clamp_assign();
        ob!("B5.rgba_u8_clamp_assign_eq_clamp", wa == w.clamp() && wa == w);
        let lu: palette::luma::Luma<palette::encoding::Srgb, u16> = palette::luma::Luma::new(g.u16());
        let mut la = lu; la.clamp_assign();
        ob!("B5.luma_u16_clamp_assign_eq_clamp", la == lu.clamp() && la == lu);
    }

    { id: "from_color.boxed_slice_and_vec_clamp", tier: quick, label: "bounded(len 2)",
      func: "impl FromColor<Box<[T]>> for Box<[U]>, impl FromColor<Vec<T>> for Vec<U> [convert/from_into_color.rs]; the unclamped siblings [convert/from_into_color_unclamped.rs]",
      desc: "contract-level colour types (non-trivial clamp), all element values, two elements: the clamping conversion of a boxed slice / vector equals, element for element, the unclamped conversion followed by clamp; the unclamped conversion does not clamp" }
    #[kani::unwind(4)]
    fn boxed_vec_from_color(g) {
        let a0 = A { x: g.u32(), y: g.u32(), z: g.u32() };
        let a1 = A { x: g.u32(), y: g.u32(), z: g.u32() };
        cov!(g, a0.x > 5000 && a1.x < 10);
        let want0 = B::from_color_unclamped(a0).clamp();
        let want1 = B::from_color_unclamped(a1).clamp();
        let vb: Vec<B> = Vec::<B>::from_color(vec![a0, a1]);
        ob!("C1.vec_from_color_is_unclamped_then_clamp", vb.len() == 2 && vb[0] == want0 && vb[1] == want1);
        let bb: Box<[B]> = Box::<[B]>::from_color(vec![a0, a1].into_boxed_slice());
        ob!("C1.boxed_slice_from_color_is_unclamped_then_clamp", bb.len() == 2 && bb[0] == want0 && bb[1] == want1);
        let vu: Vec<B> = Vec::<B>::from_color_unclamped(vec![a0, a1]);
        ob!("C1.vec_unclamped_does_not_clamp", vu.len() == 2 && vu[0] == B::from_color_unclamped(a0) && vu[1] == B::from_color_unclamped(a1));
        let bu: Box<[B]> = Box::<[B]>::from_color_unclamped(vec![a0, a1].into_boxed_slice());
        ob!("C1.boxed_slice_unclamped_does_not_clamp", bu.len() == 2 && bu[0] == B::from_color_unclamped(a0) && bu[1] == B::from_color_unclamped(a1));
    }
}

// ---------------- C04: From / AsRef / AsMut / TryFrom impls of macros/casting.rs ----------------
harnesses! { REG_C04X, "C04", "extra";
    { id: "value.casting_trait_impls", tier: quick, label: "complete",
      func: "impl_array_casts! [macros/casting.rs]: From<Box<[T;N]>> for Box<Color> and back, From<&Color> for &[T;N] / &[T], From<&[T;N]> for &Color, the &mut forms, AsRef / AsMut, TryFrom<&[T]> for &Color",
      desc: "all component values: every trait-based cast views the SAME memory (same address; for the boxed forms the same allocation), components in field order, writes through the &mut forms land in the colour, TryFrom rejects exactly the wrong lengths" }
    fn casting_trait_impls(g) {
        use core::convert::TryFrom;
        let arr = [g.u8(), g.u8(), g.u8()];
        cov!(g, arr[0] != arr[1] && arr[1] != arr[2]);
        // boxed forms: allocation identity
        let b: Box<[u8; 3]> = Box::new(arr);
        let p = &*b as *const [u8; 3] as usize;
        let c: Box<palette::Srgb<u8>> = b.into();
        ob!("L1.box_array_to_box_colour_same_allocation", &*c as *const palette::Srgb<u8> as usize == p);
        ob!("L1.box_array_to_box_colour_field_order", c.red == arr[0] && c.green == arr[1] && c.blue == arr[2]);
        let back: Box<[u8; 3]> = c.into();
        ob!("L1.box_colour_to_box_array_same_allocation", &*back as *const [u8; 3] as usize == p && *back == arr);
        // with alpha (4 components)
        let arr4 = [arr[0], arr[1], arr[2], g.u8()];
        let b4: Box<[u8; 4]> = Box::new(arr4);
        let p4 = &*b4 as *const [u8; 4] as usize;
        let c4: Box<palette::Srgba<u8>> = b4.into();
        ob!("L1.box_array_to_box_alpha_colour", &*c4 as *const palette::Srgba<u8> as usize == p4 && c4.color.red == arr4[0] && c4.alpha == arr4[3]);
        // shared references
        let col = palette::Srgb::new(arr[0], arr[1], arr[2]);
        let addr = &col as *const palette::Srgb<u8> as usize;
        let r: &[u8; 3] = (&col).into();
        ob!("L2.ref_colour_to_ref_array", r as *const [u8; 3] as usize == addr && *r == arr);
        let s: &[u8] = (&col).into();
        ob!("L2.ref_colour_to_slice", s.as_ptr() as usize == addr && s.len() == 3 && s[2] == arr[2]);
        let ar: &[u8; 3] = col.as_ref();
        let asl: &[u8] = col.as_ref();
        ob!("L2.as_ref", ar as *const [u8; 3] as usize == addr && asl.as_ptr() as usize == addr && asl.len() == 3);
        let rc: &palette::Srgb<u8> = (&arr).into();
        ob!("L2.ref_array_to_ref_colour", rc as *const palette::Srgb<u8> as usize == &arr as *const [u8; 3] as usize && rc.blue == arr[2]);
        let rc2: &palette::Srgb<u8> = arr.as_ref();
        ob!("L2.array_as_ref_colour", rc2 as *const palette::Srgb<u8> as usize == &arr as *const [u8; 3] as usize);
        // TryFrom on slices: exactly length 3
        let buf = [arr[0], arr[1], arr[2], arr4[3]];
        ob!("L3.try_from_exact_length", <&palette::Srgb<u8>>::try_from(&buf[..3]).map(|c| c as *const palette::Srgb<u8> as usize == buf.as_ptr() as usize && c.green == arr[1]).unwrap_or(false));
        ob!("L3.try_from_rejects_other_lengths", <&palette::Srgb<u8>>::try_from(&buf[..2]).is_err() && <&palette::Srgb<u8>>::try_from(&buf[..4]).is_err() && <&palette::Srgb<u8>>::try_from(&buf[..0]).is_err());
        // mutable forms
        let v = g.u8();
        let mut m = palette::Srgb::new(arr[0], arr[1], arr[2]);
        let maddr = &m as *const palette::Srgb<u8> as usize;
        { let ma: &mut [u8; 3] = (&mut m).into(); ob!("L4.mut_same_address", ma as *const [u8; 3] as usize == maddr); ma[1] = v; }
        ob!("L4.write_through_mut_array", m.green == v && m.red == arr[0] && m.blue == arr[2]);
        { let ms: &mut [u8] = m.as_mut(); ob!("L4.as_mut_slice", ms.as_ptr() as usize == maddr && ms.len() == 3); ms[0] = v; }
        ob!("L4.write_through_as_mut", m.red == v);
        let mut marr = arr;
        { let mc: &mut palette::Srgb<u8> = (&mut marr).into(); mc.blue = v; }
        ob!("L4.write_through_mut_colour", marr[2] == v && marr[0] == arr[0]);
    }

    { id: "traits.slice_array_component_uint_forms", tier: quick, label: "bounded(len<=2 colours)",
      func: "AsArrays / AsArraysMut / ArraysAs / ArraysAsMut, AsComponents / AsComponentsMut / ComponentsAs / TryComponentsAs, AsUints / UintsAs, FromArrays / IntoArrays / ArraysFrom / ArraysInto, FromComponents / IntoComponents / TryFromComponents / ComponentsInto, FromUints / IntoUints / UintsFrom / UintsInto for slices, arrays, Box<[T]> and Vec<T> [cast/as_*_traits.rs, cast/from_into_*_traits.rs]",
      desc: "every trait form views the same memory as the argument (same address; Vec: same capacity scaled exactly), with length scaled exactly by the component count, components in field order, and round-trips; the Try forms reject exactly the non-multiples" }
    #[kani::unwind(20)]
    fn cast_trait_forms(g) {
        use palette::cast::{ArraysAs, ArraysAsMut, ArraysFrom, ArraysInto, AsArrays, AsArraysMut, AsComponents, AsComponentsMut, AsUints, ComponentsAs, ComponentsInto,
            FromArrays, FromComponents, FromUints, IntoArrays, IntoComponents, IntoUints, TryComponentsAs, TryFromComponents, UintsAs, UintsFrom, UintsInto};
        use palette::rgb::channels::Rgba;
        use palette::cast::Packed;
        let c = [palette::Srgb::new(g.u8(), g.u8(), g.u8()), palette::Srgb::new(g.u8(), g.u8(), g.u8())];
        cov!(g, c[0].red != c[1].red);
        let base = c.as_ptr() as usize;
        // borrowed forms on slices
        let arrs: &[[u8; 3]] = c[..].as_arrays();
        ob!("T1.as_arrays", arrs.as_ptr() as usize == base && arrs.len() == 2 && arrs[1] == [c[1].red, c[1].green, c[1].blue]);
        let comps: &[u8] = c[..].as_components();
        ob!("T1.as_components", comps.as_ptr() as usize == base && comps.len() == 6 && comps[0] == c[0].red && comps[5] == c[1].blue);
        let back: &[palette::Srgb<u8>] = arrs.arrays_as();
        ob!("T1.arrays_as", back.as_ptr() as usize == base && back.len() == 2 && back[0] == c[0]);
        let back: &[palette::Srgb<u8>] = comps.components_as();
        ob!("T1.components_as", back.as_ptr() as usize == base && back.len() == 2 && back[1] == c[1]);
        let tr: Result<&[palette::Srgb<u8>], _> = comps[..5].try_components_as();
        ob!("T2.try_components_as_rejects_non_multiple", tr.is_err());
        let tr: Result<&[palette::Srgb<u8>], _> = comps[..3].try_components_as();
        ob!("T2.try_components_as_accepts_multiple", tr.map(|s| s.len() == 1 && s.as_ptr() as usize == base).unwrap_or(false));
        // arrays (by value and by reference)
        let a2: [[u8; 3]; 2] = c.into_arrays();
        ob!("T3.into_arrays_array", a2[0] == [c[0].red, c[0].green, c[0].blue] && a2[1][2] == c[1].blue);
        let c2: [palette::Srgb<u8>; 2] = <[palette::Srgb<u8>; 2]>::from_arrays(a2);
        ob!("T3.from_arrays_array", c2 == c);
        let c3: [palette::Srgb<u8>; 2] = a2.arrays_into();
        let a3: [[u8; 3]; 2] = <[[u8; 3]; 2]>::arrays_from(c);
        ob!("T3.arrays_into_and_from", c3 == c && a3 == a2);
        let k6: [u8; 6] = c.into_components();
        let c4: [palette::Srgb<u8>; 2] = <[palette::Srgb<u8>; 2]>::from_components(k6);
        let c5: [palette::Srgb<u8>; 2] = k6.components_into();
        ob!("T3.components_array_round_trip", k6[4] == c[1].green && c4 == c && c5 == c);
        // mutable forms
        let mut m = c;
        let mbase = m.as_ptr() as usize;
        { let ma: &mut [[u8; 3]] = m[..].as_arrays_mut(); ob!("T4.as_arrays_mut_same_memory", ma.as_ptr() as usize == mbase && ma.len() == 2); ma[1][0] = 7; }
        ob!("T4.write_through_as_arrays_mut", m[1].red == 7 && m[0] == c[0]);
        { let mc: &mut [u8] = m[..].as_components_mut(); ob!("T4.as_components_mut_same_memory", mc.as_ptr() as usize == mbase && mc.len() == 6); mc[2] = 9; }
        ob!("T4.write_through_as_components_mut", m[0].blue == 9);
        let mut ma2 = a2;
        { let mc: &mut [palette::Srgb<u8>] = ma2[..].arrays_as_mut(); mc[0].green = 11; }
        ob!("T4.write_through_arrays_as_mut", ma2[0][1] == 11);
        // owned buffers: Vec and Box keep their allocation
        let mut v: Vec<palette::Srgb<u8>> = Vec::with_capacity(3);
        v.push(c[0]); v.push(c[1]);
        let (vp, vc) = (v.as_ptr() as usize, v.capacity());
        let va: Vec<[u8; 3]> = v.into_arrays();
        ob!("T5.vec_into_arrays", va.as_ptr() as usize == vp && va.len() == 2 && va.capacity() == vc && va[1] == a2[1]);
        let vk: Vec<u8> = Vec::<palette::Srgb<u8>>::from_arrays(va).into_components();
        ob!("T5.vec_into_components", vk.as_ptr() as usize == vp && vk.len() == 6 && vk.capacity() == vc * 3 && vk[3] == c[1].red);
        let tv: Result<Vec<palette::Srgb<u8>>, _> = Vec::<palette::Srgb<u8>>::try_from_components(vk);
        ob!("T5.vec_try_from_components", tv.map(|w| w.as_ptr() as usize == vp && w.len() == 2 && w.capacity() == vc && w[0] == c[0]).unwrap_or(false));
        let b: Box<[palette::Srgb<u8>]> = vec![c[0], c[1]].into_boxed_slice();
        let bp = b.as_ptr() as usize;
        let bk: Box<[u8]> = b.into_components();
        ob!("T5.box_into_components", bk.as_ptr() as usize == bp && bk.len() == 6 && bk[5] == c[1].blue);
        let bc: Box<[palette::Srgb<u8>]> = bk.components_into();
        ob!("T5.box_components_into", bc.as_ptr() as usize == bp && bc.len() == 2 && bc[1] == c[1]);
        // unsigned integer forms (Packed)
        let p = [Packed::<Rgba, u32>::from(g.u32()), Packed::<Rgba, u32>::from(g.u32())];
        let pb = p.as_ptr() as usize;
        let us: &[u32] = p[..].as_uints();
        ob!("T6.as_uints", us.as_ptr() as usize == pb && us.len() == 2 && us[1] == p[1].color);
        let pk: &[Packed<Rgba, u32>] = us.uints_as();
        ob!("T6.uints_as", pk.as_ptr() as usize == pb && pk.len() == 2 && pk[0].color == p[0].color);
        let ua: [u32; 2] = p.into_uints();
        let pa: [Packed<Rgba, u32>; 2] = <[Packed<Rgba, u32>; 2]>::from_uints(ua);
        let pa2: [Packed<Rgba, u32>; 2] = ua.uints_into();
        let ua2: [u32; 2] = <[u32; 2]>::uints_from(p);
        ob!("T6.uint_array_round_trip", ua == [p[0].color, p[1].color] && pa[1].color == p[1].color && pa2[0].color == p[0].color && ua2 == ua);
    }

    { id: "value.casting_trait_impls_hue_f32", tier: quick, label: "complete",
      func: "impl_array_casts! for Hsv (hue first) and Lab with f32 components [macros/casting.rs, hsv.rs, lab.rs]",
      desc: "all component bit patterns: the boxed and reference forms view the same memory with the hue first; bit-exact" }
    fn casting_trait_impls_hue(g) {
        let arr = [g.f32(), g.f32(), g.f32()];
        cov!(g, arr[0].to_bits() != arr[1].to_bits());
        let b: Box<[f32; 3]> = Box::new(arr);
        let p = &*b as *const [f32; 3] as usize;
        let c: Box<palette::Hsv<palette::encoding::Srgb, f32>> = b.into();
        ob!("L1.box_same_allocation", &*c as *const palette::Hsv<palette::encoding::Srgb, f32> as usize == p);
        ob!("L1.hue_first", c.hue.into_raw_degrees().to_bits() == arr[0].to_bits() && c.saturation.to_bits() == arr[1].to_bits() && c.value.to_bits() == arr[2].to_bits());
        let back: Box<[f32; 3]> = c.into();
        ob!("L1.box_back_same_allocation", &*back as *const [f32; 3] as usize == p && back[0].to_bits() == arr[0].to_bits() && back[2].to_bits() == arr[2].to_bits());
        let lab = palette::Lab::<palette::white_point::D65, f32>::new(arr[0], arr[1], arr[2]);
        let r: &[f32; 3] = (&lab).into();
        ob!("L2.lab_ref", r as *const [f32; 3] as usize == &lab as *const _ as usize && r[1].to_bits() == arr[1].to_bits());
    }
}

// ---------------- C06: end points of every number-format pair (concrete inputs: cheap, all 42 pairs) ----------------
macro_rules! endpoints {
    (@uu $g:ident, $s:ident => $($t:ident),*) => { $(
        ob!("E.uint_zero_maps_to_zero", <$s as IntoStimulus<$t>>::into_stimulus(0 as $s) == 0);
        ob!("E.uint_max_maps_to_max", <$s as IntoStimulus<$t>>::into_stimulus($s::MAX) == $t::MAX);
    )* };
    (@uf $g:ident, $s:ident => $($t:ident),*) => { $(
        ob!("E.uint_zero_maps_to_zero_float", <$s as IntoStimulus<$t>>::into_stimulus(0 as $s) == 0.0);
        ob!("E.uint_max_maps_to_exactly_one", <$s as IntoStimulus<$t>>::into_stimulus($s::MAX) == 1.0);
        ob!("E.uint_mid_in_unit_interval", { let y = <$s as IntoStimulus<$t>>::into_stimulus($s::MAX / 2); y > 0.49 && y < 0.51 });
    )* };
    (@fu $g:ident, $s:ident => $($t:ident),*) => { $(
        ob!("E.float_zero_and_below_map_to_zero", <$s as IntoStimulus<$t>>::into_stimulus(0.0) == 0 && <$s as IntoStimulus<$t>>::into_stimulus(-1.5) == 0 && <$s as IntoStimulus<$t>>::into_stimulus($s::NEG_INFINITY) == 0);
        ob!("E.float_one_and_above_map_to_max", <$s as IntoStimulus<$t>>::into_stimulus(1.0) == $t::MAX && <$s as IntoStimulus<$t>>::into_stimulus(2.5) == $t::MAX && <$s as IntoStimulus<$t>>::into_stimulus($s::INFINITY) == $t::MAX && <$s as IntoStimulus<$t>>::into_stimulus($s::NAN) == $t::MAX);
    )* };
}
harnesses! { REG_C06X, "C06", "extra";
    { id: "endpoints.all_42_pairs", tier: quick, label: "complete",
      func: "every IntoStimulus impl between u8, u16, u32, u64, u128, f32, f64 [stimulus.rs: all conversion macros and their invocation tables]",
      desc: "the end points of all 42 ordered format pairs (concrete inputs, so every pair is cheap): 0 -> 0, MAX -> MAX / exactly 1.0, mid-range -> about one half, float <= 0 / -inf -> 0, float >= 1 / +inf / NaN -> MAX" }
    fn endpoints_all_pairs(g) {
        cov!(g, true);
        endpoints!(@uu g, u8 => u8, u16, u32, u64, u128);
        endpoints!(@uu g, u16 => u8, u16, u32, u64, u128);
        endpoints!(@uu g, u32 => u8, u16, u32, u64, u128);
        endpoints!(@uu g, u64 => u8, u16, u32, u64, u128);
        endpoints!(@uu g, u128 => u8, u16, u32, u64, u128);
        endpoints!(@uf g, u8 => f32, f64);
        endpoints!(@uf g, u16 => f32, f64);
        endpoints!(@uf g, u32 => f32, f64);
        endpoints!(@uf g, u64 => f32, f64);
        endpoints!(@uf g, u128 => f32, f64);
        endpoints!(@fu g, f32 => u8, u16, u32, u64, u128);
        endpoints!(@fu g, f64 => u8, u16, u32, u64, u128);
        ob!("E.float_identity", <f32 as IntoStimulus<f32>>::into_stimulus(0.25) == 0.25 && <f64 as IntoStimulus<f64>>::into_stimulus(0.25) == 0.25
            && <f32 as IntoStimulus<f64>>::into_stimulus(0.25) == 0.25 && <f64 as IntoStimulus<f32>>::into_stimulus(0.25) == 0.25);
    }
}

// ---------------- C11: the normal forms are exact inside the principal range ----------------
macro_rules! principal {
    ($reg:ident; $( $tier:ident $sd:ident $ud:ident $sr:ident $ur:ident : $h:ident ),*) => {
        harnesses! { $reg, "C11", "extra";
            $(
            { id: concat!("normal_form.signed_exact_inside_principal_range.", stringify!($h)), tier: $tier, label: "complete",
              func: concat!(stringify!($h), "::into_degrees [hues.rs], impl SignedAngle for f32 [angle.rs]"),
              desc: "every f32 angle x in (-180, 180] is returned unchanged, bit for bit, by the signed normal form (the rounding error of the stored angle is zero there, so 'within the rounding error of the stored angle' means exactly)" }
            fn $sd(g) {
                let x = g.f32();
                g.assume(x > -180.0 && x <= 180.0);
                cov!(g, x > 0.0 && x < 1.0e-3);
                let h = palette::hues::$h::<f32>::from_degrees(x);
                ob!("N4.signed_form_is_identity_inside_range", h.into_degrees().to_bits() == x.to_bits() || (x == 0.0 && h.into_degrees() == 0.0));
            }
            { id: concat!("normal_form.unsigned_exact_inside_principal_range.", stringify!($h)), tier: $tier, label: "complete",
              func: concat!(stringify!($h), "::into_positive_degrees [hues.rs], impl UnsignedAngle for f32 [angle.rs]"),
              desc: "every f32 angle x in [0, 360) is returned unchanged, bit for bit, by the unsigned normal form" }
            fn $ud(g) {
                let x = g.f32();
                g.assume(x >= 0.0 && x < 360.0);
                cov!(g, x > 0.0 && x < 1.0e-3);
                let h = palette::hues::$h::<f32>::from_degrees(x);
                ob!("N4.unsigned_form_is_identity_inside_range", h.into_positive_degrees().to_bits() == x.to_bits() || (x == 0.0 && h.into_positive_degrees() == 0.0));
            }
            { id: concat!("normal_form.signed_radians_inside_principal_range.", stringify!($h)), tier: thorough, label: "complete",
              func: concat!(stringify!($h), "::into_radians [hues.rs], impl SignedAngle / RealAngle for f32 [angle.rs]"),
              desc: "for every f32 angle x in (-180, 180] the signed radian accessor is x * (pi / 180) with one rounding (f32::to_radians), bit for bit: degree and radian accessors are consistent" }
            fn $sr(g) {
                let x = g.f32();
                g.assume(x > -180.0 && x <= 180.0);
                cov!(g, x > 0.0 && x < 1.0e-3);
                let h = palette::hues::$h::<f32>::from_degrees(x);
                ob!("N4.signed_radians_is_degrees_times_pi_over_180", h.into_radians().to_bits() == x.to_radians().to_bits() || (x == 0.0 && h.into_radians() == 0.0));
            }
            { id: concat!("normal_form.unsigned_radians_inside_principal_range.", stringify!($h)), tier: thorough, label: "complete",
              func: concat!(stringify!($h), "::into_positive_radians [hues.rs], impl UnsignedAngle / RealAngle for f32 [angle.rs]"),
              desc: "for every f32 angle x in [0, 360) the unsigned radian accessor is x * (pi / 180) with one rounding, bit for bit, and lies in [0, 2 pi]" }
            fn $ur(g) {
                let x = g.f32();
                g.assume(x >= 0.0 && x < 360.0);
                cov!(g, x > 0.0 && x < 1.0e-3);
                let h = palette::hues::$h::<f32>::from_degrees(x);
                let pr = h.into_positive_radians();
                ob!("N4.positive_radians_in_0_2pi", pr >= 0.0 && pr <= 6.2831860);
                ob!("N4.positive_radians_is_degrees_times_pi_over_180", pr.to_bits() == x.to_radians().to_bits() || (x == 0.0 && pr == 0.0));
            }
            )*
        }
    };
}
principal! { REG_C11X; quick p_sd_rgb p_ud_rgb p_sr_rgb p_ur_rgb: RgbHue, quick p_sd_lab p_ud_lab p_sr_lab p_ur_lab: LabHue, quick p_sd_luv p_ud_luv p_sr_luv p_ur_luv: LuvHue,
    quick p_sd_oklab p_ud_oklab p_sr_oklab p_ur_oklab: OklabHue, quick p_sd_cam16 p_ud_cam16 p_sr_cam16 p_ur_cam16: Cam16Hue }

// ---------------- C13: mixed guard chains starting from an UNCLAMPED guard ----------------
harnesses! { REG_C13X, "C13", "extra";
    { id: "single.unclamped_guard_then_clamped_step", tier: quick, label: "complete",
      func: "FromColorUnclampedMutGuard::{then_into_color_mut, then_into_color_unclamped_mut} [convert/from_into_color_unclamped_mut.rs]",
      desc: "G5 for all element values: from an unclamped guard over B (obtained from A), then_into_color_mut::<C> shows C::from_color(CURRENT B contents) - converted directly, not through the original type - and drop converts back from C in one clamped step; the unclamped continuation likewise" }
    fn unclamped_then_clamped(g) {
        let a0 = A { x: g.u32(), y: g.u32(), z: g.u32() };
        let v = g.u32();
        cov!(g, a0.x > 5000 && v > 7);
        let mut a = a0;
        {
            let mut gu = B::from_color_unclamped_mut(&mut a);
            gu.x = v;
            let gc = gu.then_into_color_mut::<C>();
            ob!("G5.unclamped_guard_then_into_color_mut_from_current", *gc == C::from_color(B { x: v, ..B::from_color_unclamped(a0) }));
        }
        ob!("G5.unclamped_then_clamped_drop_single_step_back", a == A::from_color(C::from_color(B { x: v, ..B::from_color_unclamped(a0) })));
        let mut a = a0;
        {
            let mut gu = B::from_color_unclamped_mut(&mut a);
            gu.y = v;
            let gc = gu.then_into_color_unclamped_mut::<C>();
            ob!("G5.unclamped_guard_then_unclamped_from_current", *gc == C::from_color_unclamped(B { y: v, ..B::from_color_unclamped(a0) }));
        }
        ob!("G5.unclamped_chain_drop_single_step_back", a == A::from_color_unclamped(C::from_color_unclamped(B { y: v, ..B::from_color_unclamped(a0) })));
    }
}

pub fn registry() -> Vec<&'static crate::macros::Entry> {
    REG_UCLAMP.iter().chain(REG_FCLAMP.iter()).chain(REG_C03X.iter()).chain(REG_C04X.iter()).chain(REG_C06X.iter()).chain(REG_C11X.iter()).chain(REG_C13X.iter()).collect()
}
