//! C17 — palette's SIMD wrappers act lane by lane exactly like the scalar operations
//! (palette/src/num/wide.rs, bool_mask/wide.rs, angle/wide.rs, macros/simd.rs).
//!
//! Modular set-up: the x86 vendor intrinsics under `wide` (`maxps`, `cmpps`, `sqrtps`) are outside CBMC, so the
//! handful of `safe_arch` primitives palette's wrappers reach are replaced, under Kani only, by stubs that state
//! their ASSUMED contract ("the primitive acts lane-wise with the x86 semantics"); palette's own wrapper code and
//! `wide`'s portable glue are then verified against the scalar operations for every lane and every bit pattern.
//! Natively (replay) the same harness bodies run the real SIMD instructions.
//!   W1  PartialCmp::{lt, lt_eq, eq, neq, gt_eq, gt}: mask lane is all-ones iff the scalar comparison holds (NaN included)
//!   W2  Select / LazySelect pick lane-wise; IsValidDivisor lane == (x != 0)
//!   W3  BoolMask::{from_bool, is_true, is_false}: is_true iff every lane is set, is_false iff no lane is set
//!   W4  MinMax / Clamp / ClampAssign == the scalar forms in every lane
//!   W5  Signum, Abs == scalar in every lane (NaN lanes included)
//!   W6  Round::{floor, ceil} == scalar in every lane
//!   W7  angle normal forms and AngleEq == the scalar impl_angle_float! forms in every lane
//!   W8  FromScalarArray / IntoScalarArray / FromScalar / Real::from_f64 / Zero / One keep lane order and splat
//!   W9  Hypot == sqrt(x*x + y*y) with the dependency's lane-wise sqrt; Powi/Powu == repeated product; Recip (f64) == 1/x
//!   P1  packing [Color<T>; N] -> Color<V> puts colour i in lane i of every component (hue and alpha included),
//!       unpacking inverts it (contract-level lane type: all component values)
use crate::gen::Gen;
use palette::angle::{AngleEq, FullRotation, HalfRotation, SignedAngle, UnsignedAngle};
use palette::bool_mask::{BoolMask, LazySelect, Select};
use palette::num::{
    Abs, Clamp, ClampAssign, FromScalar, FromScalarArray, Hypot, IntoScalarArray, IsValidDivisor, MinMax, One, PartialCmp, Powi, Powu, Real,
    Recip, Round, Signum, Zero,
};
use wide::{f32x4, f64x2};

// ---- assumed contracts of the dependency primitives (Kani only) ----
#[cfg(kani)]
pub mod stubs {
    use safe_arch::{m128, m128d};
    fn m32(b: bool) -> f32 { if b { f32::from_bits(u32::MAX) } else { 0.0 } }
    fn m64(b: bool) -> f64 { if b { f64::from_bits(u64::MAX) } else { 0.0 } }
    macro_rules! cmp128 {
        ($n:ident, $nd:ident, $op:expr) => {
            pub fn $n(a: m128, b: m128) -> m128 { let (a, b) = (a.to_array(), b.to_array()); let f: fn(f32, f32) -> bool = $op; m128::from_array([m32(f(a[0], b[0])), m32(f(a[1], b[1])), m32(f(a[2], b[2])), m32(f(a[3], b[3]))]) }
            pub fn $nd(a: m128d, b: m128d) -> m128d { let (a, b) = (a.to_array(), b.to_array()); let f: fn(f64, f64) -> bool = $op; m128d::from_array([m64(f(a[0], b[0])), m64(f(a[1], b[1]))]) }
        };
    }
    cmp128!(lt, ltd, |x, y| x < y);
    cmp128!(le, led, |x, y| x <= y);
    cmp128!(eq, eqd, |x, y| x == y);
    cmp128!(ne, ned, |x, y| x != y);
    cmp128!(ge, ged, |x, y| x >= y);
    cmp128!(gt, gtd, |x, y| x > y);
    cmp128!(un, und, |x, y| x.is_nan() || y.is_nan());
    // x86 MAXPS/MINPS: (a > b) ? a : b   /   (a < b) ? a : b   (second operand on NaN or equal)
    pub fn max(a: m128, b: m128) -> m128 { let (a, b) = (a.to_array(), b.to_array()); let f = |i: usize| if a[i] > b[i] { a[i] } else { b[i] }; m128::from_array([f(0), f(1), f(2), f(3)]) }
    pub fn min(a: m128, b: m128) -> m128 { let (a, b) = (a.to_array(), b.to_array()); let f = |i: usize| if a[i] < b[i] { a[i] } else { b[i] }; m128::from_array([f(0), f(1), f(2), f(3)]) }
    pub fn maxd(a: m128d, b: m128d) -> m128d { let (a, b) = (a.to_array(), b.to_array()); let f = |i: usize| if a[i] > b[i] { a[i] } else { b[i] }; m128d::from_array([f(0), f(1)]) }
    pub fn mind(a: m128d, b: m128d) -> m128d { let (a, b) = (a.to_array(), b.to_array()); let f = |i: usize| if a[i] < b[i] { a[i] } else { b[i] }; m128d::from_array([f(0), f(1)]) }
    // lane-wise IEEE arithmetic (ADDPS/SUBPS/MULPS/DIVPS): Kani does not model float SIMD arithmetic (it applies an integer
    // overflow check to it and assumes the result away), so these primitives are stubbed by their contract as well
    macro_rules! arith128 {
        ($n:ident, $nd:ident, $op:tt) => {
            pub fn $n(a: m128, b: m128) -> m128 { let (a, b) = (a.to_array(), b.to_array()); m128::from_array([a[0] $op b[0], a[1] $op b[1], a[2] $op b[2], a[3] $op b[3]]) }
            pub fn $nd(a: m128d, b: m128d) -> m128d { let (a, b) = (a.to_array(), b.to_array()); m128d::from_array([a[0] $op b[0], a[1] $op b[1]]) }
        };
    }
    arith128!(add, addd, +);
    arith128!(sub, subd, -);
    arith128!(mul, muld, *);
    arith128!(div, divd, /);
    /// stand-in for the lane-wise square root: ANY lane-wise function will do for the structural contract W9
    pub fn root(x: f32) -> f32 { x * 0.5 + 1.0 }
    pub fn sqrt(a: m128) -> m128 { let a = a.to_array(); m128::from_array([root(a[0]), root(a[1]), root(a[2]), root(a[3])]) }
}
#[cfg(not(kani))]
pub mod stubs { pub fn root(x: f32) -> f32 { x.sqrt() } }

fn arr4<G: Gen>(g: &mut G) -> [f32; 4] { [g.f32(), g.f32(), g.f32(), g.f32()] }
fn arr2<G: Gen>(g: &mut G) -> [f64; 2] { [g.f64(), g.f64()] }
fn bits4(v: f32x4) -> [u32; 4] { let a: [f32; 4] = v.into(); [a[0].to_bits(), a[1].to_bits(), a[2].to_bits(), a[3].to_bits()] }
fn bits2(v: f64x2) -> [u64; 2] { let a: [f64; 2] = v.into(); [a[0].to_bits(), a[1].to_bits()] }
fn same32(a: f32, b: f32) -> bool { a.to_bits() == b.to_bits() || (a.is_nan() && b.is_nan()) }
fn same64(a: f64, b: f64) -> bool { a.to_bits() == b.to_bits() || (a.is_nan() && b.is_nan()) }

harnesses! { REG_W, "C17", "c17";
    { id: "wide.f32x4.cmp_select", tier: quick, label: "complete",
      func: "impl PartialCmp / IsValidDivisor for f32x4 [num/wide.rs], impl Select / LazySelect for f32x4 [bool_mask/wide.rs]",
      desc: "W1+W2 for every bit pattern in every lane: each of the six comparisons yields an all-ones lane iff the scalar comparison holds (NaN lanes included), select/lazy_select pick lane-wise, is_valid_divisor lane == (x != 0)" }
    #[kani::stub(safe_arch::cmp_lt_mask_m128, stubs::lt)]
    #[kani::stub(safe_arch::cmp_le_mask_m128, stubs::le)]
    #[kani::stub(safe_arch::cmp_eq_mask_m128, stubs::eq)]
    #[kani::stub(safe_arch::cmp_neq_mask_m128, stubs::ne)]
    #[kani::stub(safe_arch::cmp_ge_mask_m128, stubs::ge)]
    #[kani::stub(safe_arch::cmp_gt_mask_m128, stubs::gt)]
    fn w_cmp_select_f32x4(g) {
        let (a, b, x, y) = (arr4(g), arr4(g), arr4(g), arr4(g));
        cov!(g, a[0] < b[0] && a[1] > b[1] && a[2].is_nan());
        let (va, vb, vx, vy) = (f32x4::from(a), f32x4::from(b), f32x4::from(x), f32x4::from(y));
        let m = |c: bool| if c { u32::MAX } else { 0 };
        let (lt, le, eq, ne, ge, gt) = (bits4(PartialCmp::lt(&va, &vb)), bits4(PartialCmp::lt_eq(&va, &vb)), bits4(PartialCmp::eq(&va, &vb)),
            bits4(PartialCmp::neq(&va, &vb)), bits4(PartialCmp::gt_eq(&va, &vb)), bits4(PartialCmp::gt(&va, &vb)));
        let sel = bits4(Select::select(PartialCmp::lt(&va, &vb), vx, vy));
        let lsel = bits4(LazySelect::lazy_select(PartialCmp::gt_eq(&va, &vb), || vx, || vy));
        let ivd = bits4(IsValidDivisor::is_valid_divisor(&va));
        for i in 0..4 {
            ob!("W1.lt", lt[i] == m(a[i] < b[i]));
            ob!("W1.lt_eq", le[i] == m(a[i] <= b[i]));
            ob!("W1.eq", eq[i] == m(a[i] == b[i]));
            ob!("W1.neq", ne[i] == m(a[i] != b[i]));
            ob!("W1.gt_eq", ge[i] == m(a[i] >= b[i]));
            ob!("W1.gt", gt[i] == m(a[i] > b[i]));
            ob!("W2.select_lane_wise", sel[i] == if a[i] < b[i] { x[i].to_bits() } else { y[i].to_bits() });
            ob!("W2.lazy_select_lane_wise", lsel[i] == if a[i] >= b[i] { x[i].to_bits() } else { y[i].to_bits() });
            ob!("W2.is_valid_divisor_lane_is_nonzero", ivd[i] == m(a[i] != 0.0));
        }
    }

    { id: "wide.f32x4.bool_mask", tier: quick, label: "complete",
      func: "impl BoolMask for f32x4 [bool_mask/wide.rs]",
      desc: "W3 for every mask a comparison can produce: is_true iff every lane is set, is_false iff no lane is set; from_bool(true) is all-set, from_bool(false) all-clear" }
    #[kani::stub(safe_arch::cmp_lt_mask_m128, stubs::lt)]
    fn w_bool_mask_f32x4(g) {
        let (a, b) = (arr4(g), arr4(g));
        cov!(g, a[0] < b[0] && !(a[1] < b[1]));
        let m = PartialCmp::lt(&f32x4::from(a), &f32x4::from(b));
        let all = (0..4).all(|i| a[i] < b[i]);
        let none = (0..4).all(|i| !(a[i] < b[i]));
        ob!("W3.is_true_iff_all_lanes", BoolMask::is_true(&m) == all);
        ob!("W3.is_false_iff_no_lane", BoolMask::is_false(&m) == none);
        let t = <f32x4 as BoolMask>::from_bool(true);
        let f = <f32x4 as BoolMask>::from_bool(false);
        ob!("W3.from_bool_true", bits4(t) == [u32::MAX; 4] && t.is_true() && !t.is_false());
        ob!("W3.from_bool_false", bits4(f) == [0; 4] && f.is_false() && !f.is_true());
    }

    { id: "wide.f32x4.minmax_clamp", tier: quick, label: "complete",
      func: "impl MinMax / Clamp / ClampAssign for f32x4 [num/wide.rs]",
      desc: "W4 for all non-NaN lanes with min <= max: min, max, min_max, clamp, clamp_min, clamp_max and the assigning forms equal the scalar f32 forms in every lane" }
    #[kani::stub(safe_arch::max_m128, stubs::max)]
    #[kani::stub(safe_arch::min_m128, stubs::min)]
    #[kani::stub(safe_arch::cmp_unord_mask_m128, stubs::un)]
    fn w_minmax_clamp_f32x4(g) {
        let (a, lo, hi) = (arr4(g), arr4(g), arr4(g));
        for i in 0..4 { g.assume(!a[i].is_nan() && !lo[i].is_nan() && !hi[i].is_nan() && lo[i] <= hi[i]); }
        cov!(g, a[0] < lo[0] && a[1] > hi[1] && a[2] > lo[2] && a[2] < hi[2]);
        let (va, vlo, vhi) = (f32x4::from(a), f32x4::from(lo), f32x4::from(hi));
        let mn: [f32; 4] = MinMax::min(va, vhi).into();
        let mx: [f32; 4] = MinMax::max(va, vlo).into();
        let (mm0, mm1) = MinMax::min_max(va, vlo);
        let (mm0, mm1): ([f32; 4], [f32; 4]) = (mm0.into(), mm1.into());
        let c: [f32; 4] = Clamp::clamp(va, vlo, vhi).into();
        let cmin: [f32; 4] = Clamp::clamp_min(va, vlo).into();
        let cmax: [f32; 4] = Clamp::clamp_max(va, vhi).into();
        let mut t = va; ClampAssign::clamp_assign(&mut t, vlo, vhi); let ca: [f32; 4] = t.into();
        let mut t = va; ClampAssign::clamp_min_assign(&mut t, vlo); let cmina: [f32; 4] = t.into();
        let mut t = va; ClampAssign::clamp_max_assign(&mut t, vhi); let cmaxa: [f32; 4] = t.into();
        for i in 0..4 {
            ob!("W4.min", mn[i] == a[i].min(hi[i]));
            ob!("W4.max", mx[i] == a[i].max(lo[i]));
            ob!("W4.min_max", mm0[i] == a[i].min(lo[i]) && mm1[i] == a[i].max(lo[i]));
            ob!("W4.clamp", c[i] == Clamp::clamp(a[i], lo[i], hi[i]));
            ob!("W4.clamp_min", cmin[i] == Clamp::clamp_min(a[i], lo[i]));
            ob!("W4.clamp_max", cmax[i] == Clamp::clamp_max(a[i], hi[i]));
            ob!("W4.clamp_assign", ca[i] == c[i] && cmina[i] == cmin[i] && cmaxa[i] == cmax[i]);
        }
    }

    { id: "wide.f32x4.signum_abs_round", tier: quick, label: "complete",
      func: "impl Signum / Abs / Round::{floor, ceil} for f32x4 [num/wide.rs]",
      desc: "W5+W6 for every bit pattern in every lane: signum (NaN lanes stay NaN, signed zeros keep their sign), abs, floor and ceil equal the scalar f32 results" }
    #[kani::stub(safe_arch::cmp_unord_mask_m128, stubs::un)]
    fn w_signum_abs_round_f32x4(g) {
        let a = arr4(g);
        cov!(g, a[0].is_nan() && a[1] < 0.0 && a[2] == 0.0 && a[3] > 1.5);
        let va = f32x4::from(a);
        let s: [f32; 4] = Signum::signum(va).into();
        let ab: [f32; 4] = Abs::abs(va).into();
        let fl: [f32; 4] = Round::floor(va).into();
        let ce: [f32; 4] = Round::ceil(va).into();
        for i in 0..4 {
            ob!("W5.signum", same32(s[i], a[i].signum()));
            ob!("W5.abs", same32(ab[i], a[i].abs()));
            ob!("W6.floor", same32(fl[i], a[i].floor()));
            ob!("W6.ceil", same32(ce[i], a[i].ceil()));
        }
    }

    { id: "wide.f32x4.angles", tier: quick, label: "complete",
      func: "impl SignedAngle / UnsignedAngle / HalfRotation / FullRotation for f32x4 [angle/wide.rs]",
      desc: "W7 for every f32 angle with |x| <= 2^20 in one lane (the other lanes hold 180, -180 and 540, the values where floor- and ceil-based forms differ): both normal forms are bit-identical to the scalar impl_angle_float! forms in every lane; the rotation constants are 180/360 in every lane" }
    #[kani::stub(safe_arch::add_m128, stubs::add)]
    #[kani::stub(safe_arch::sub_m128, stubs::sub)]
    #[kani::stub(safe_arch::mul_m128, stubs::mul)]
    #[kani::stub(safe_arch::div_m128, stubs::div)]
    fn w_angles_f32x4(g) {
        let p = g.f32();
        g.assume(p.abs() <= 1048576.0);
        cov!(g, p > 400.0);
        let a = [p, 180.0, -180.0, 540.0];
        let va = f32x4::from(a);
        let sg: [f32; 4] = SignedAngle::normalize_signed_angle(va).into();
        let us: [f32; 4] = UnsignedAngle::normalize_unsigned_angle(va).into();
        for i in 0..4 {
            ob!("W7.signed_normal_form", same32(sg[i], SignedAngle::normalize_signed_angle(a[i])));
            ob!("W7.unsigned_normal_form", same32(us[i], UnsignedAngle::normalize_unsigned_angle(a[i])));
        }
        ob!("W7.rotations", bits4(<f32x4 as HalfRotation>::half_rotation()) == [180f32.to_bits(); 4] && bits4(<f32x4 as FullRotation>::full_rotation()) == [360f32.to_bits(); 4]);
    }

    { id: "wide.f32x4.angle_eq", tier: thorough, label: "complete",
      func: "impl AngleEq for f32x4 [angle/wide.rs]",
      desc: "W7 for every pair of f32 angles with |x| <= 2^20 in one lane (the other lanes: 180 vs 540, -180 vs 180, 0 vs 360): the mask lane of angle_eq is set iff the scalar angle_eq holds" }
    #[kani::stub(safe_arch::cmp_eq_mask_m128, stubs::eq)]
    #[kani::stub(safe_arch::add_m128, stubs::add)]
    #[kani::stub(safe_arch::sub_m128, stubs::sub)]
    #[kani::stub(safe_arch::mul_m128, stubs::mul)]
    #[kani::stub(safe_arch::div_m128, stubs::div)]
    fn w_angle_eq_f32x4(g) {
        let (p, r) = (g.f32(), g.f32());
        g.assume(p.abs() <= 1048576.0 && r.abs() <= 1048576.0);
        cov!(g, p > 400.0 && r < -400.0);
        let a = [p, 180.0, -180.0, 0.0];
        let b = [r, 540.0, 180.0, 360.0];
        let eq = bits4(AngleEq::angle_eq(&f32x4::from(a), &f32x4::from(b)));
        for i in 0..4 {
            ob!("W7.angle_eq", eq[i] == if AngleEq::angle_eq(&a[i], &b[i]) { u32::MAX } else { 0 });
        }
    }

    { id: "wide.f32x4.angle_eq_whole_turns", tier: quick, label: "complete",
      func: "impl AngleEq for f32x4 [angle/wide.rs]",
      desc: "W7 on the lanes that matter for whole turns (concrete: 180 vs 540, -180 vs 180, 0 vs 360, 90 vs 91 and a lane shifted by a symbolic number of turns): the mask lane of angle_eq is set iff the scalar angle_eq holds; the full-domain form is the thorough-tier obligation wide.f32x4.angle_eq" }
    #[kani::stub(safe_arch::cmp_eq_mask_m128, stubs::eq)]
    #[kani::stub(safe_arch::add_m128, stubs::add)]
    #[kani::stub(safe_arch::sub_m128, stubs::sub)]
    #[kani::stub(safe_arch::mul_m128, stubs::mul)]
    #[kani::stub(safe_arch::div_m128, stubs::div)]
    fn w_angle_eq_consts_f32x4(g) {
        let k = g.u8();
        cov!(g, k > 3);
        let a = [180.0f32, -180.0, 0.0, 90.0];
        let b = [540.0f32, 180.0, 360.0 * (k as f32), 91.0];
        let eq = bits4(AngleEq::angle_eq(&f32x4::from(a), &f32x4::from(b)));
        for i in 0..4 {
            ob!("W7.angle_eq", eq[i] == if AngleEq::angle_eq(&a[i], &b[i]) { u32::MAX } else { 0 });
        }
    }

    { id: "wide.f32x4.arrays_and_constants", tier: quick, label: "complete",
      func: "impl FromScalarArray<4> / IntoScalarArray<4> / FromScalar / Real / Zero / One for f32x4 [num/wide.rs]",
      desc: "W8 for all lane values: from_array/into_array keep the lane order and round-trip bit for bit, from_scalar and from_f64 splat, zero/one are 0/1 in every lane" }
    fn w_arrays_f32x4(g) {
        let a = arr4(g);
        let s = g.f32();
        cov!(g, a[0] != a[1] && a[1] != a[2]);
        let v = <f32x4 as FromScalarArray<4>>::from_array(a);
        let back = <f32x4 as IntoScalarArray<4>>::into_array(v);
        let direct: [f32; 4] = v.into();
        for i in 0..4 {
            ob!("W8.array_round_trip_in_order", back[i].to_bits() == a[i].to_bits() && direct[i].to_bits() == a[i].to_bits());
        }
        ob!("W8.from_scalar_splats", bits4(<f32x4 as FromScalar>::from_scalar(s)) == [s.to_bits(); 4]);
        ob!("W8.from_f64_splats", bits4(<f32x4 as Real>::from_f64(0.75)) == [0.75f32.to_bits(); 4]);
        ob!("W8.zero_one", bits4(<f32x4 as Zero>::zero()) == [0; 4] && bits4(<f32x4 as One>::one()) == [1f32.to_bits(); 4]);
    }

    { id: "wide.f32x4.hypot_pow", tier: quick, label: "bounded(lane values: integers -128..=127)",
      func: "impl Hypot / Powu / Powi for f32x4 [num/wide.rs], num::pow",
      desc: "W9 (structural, lanes restricted to small integers so that CBMC can compare the multipliers): hypot lane == root(x*x + y*y) for the dependency's lane-wise square root; powu/powi with exponents 0..3 equal the repeated product in every lane" }
    #[kani::stub(safe_arch::sqrt_m128, stubs::sqrt)]
    #[kani::stub(safe_arch::add_m128, stubs::add)]
    #[kani::stub(safe_arch::mul_m128, stubs::mul)]
    #[kani::stub(safe_arch::div_m128, stubs::div)]
    fn w_hypot_pow_f32x4(g) {
        let sm = |g: &mut G| -> [f32; 4] { [(g.u8() as i8) as f32, (g.u8() as i8) as f32, (g.u8() as i8) as f32, (g.u8() as i8) as f32] };
        let (a, b) = (sm(g), sm(g));
        cov!(g, a[0] > 3.0 && b[1] < -2.0);
        let (va, vb) = (f32x4::from(a), f32x4::from(b));
        let h: [f32; 4] = Hypot::hypot(va, vb).into();
        let p0: [f32; 4] = Powu::powu(va, 0).into();
        let p1: [f32; 4] = Powu::powu(va, 1).into();
        let p2: [f32; 4] = Powu::powu(va, 2).into();
        let p3: [f32; 4] = Powi::powi(va, 3).into();
        for i in 0..4 {
            ob!("W9.hypot", same32(h[i], stubs::root(a[i] * a[i] + b[i] * b[i])));
            ob!("W9.powu0", p0[i] == 1.0);
            ob!("W9.powu1", same32(p1[i], a[i]));
            ob!("W9.powu2", same32(p2[i], a[i] * a[i]));
            ob!("W9.powi3", same32(p3[i], a[i] * a[i] * a[i]) || same32(p3[i], a[i] * (a[i] * a[i])));
        }
    }

    { id: "wide.f64x2.cmp_select_mask", tier: quick, label: "complete",
      func: "impl PartialCmp / IsValidDivisor / Select / LazySelect / BoolMask for f64x2 [num/wide.rs, bool_mask/wide.rs]",
      desc: "W1-W3 for the f64x2 instantiation of the same macros, every bit pattern in both lanes" }
    #[kani::stub(safe_arch::cmp_lt_mask_m128d, stubs::ltd)]
    #[kani::stub(safe_arch::cmp_le_mask_m128d, stubs::led)]
    #[kani::stub(safe_arch::cmp_eq_mask_m128d, stubs::eqd)]
    #[kani::stub(safe_arch::cmp_neq_mask_m128d, stubs::ned)]
    #[kani::stub(safe_arch::cmp_ge_mask_m128d, stubs::ged)]
    #[kani::stub(safe_arch::cmp_gt_mask_m128d, stubs::gtd)]
    fn w_cmp_select_f64x2(g) {
        let (a, b, x, y) = (arr2(g), arr2(g), arr2(g), arr2(g));
        cov!(g, a[0] < b[0] && a[1].is_nan());
        let (va, vb, vx, vy) = (f64x2::from(a), f64x2::from(b), f64x2::from(x), f64x2::from(y));
        let m = |c: bool| if c { u64::MAX } else { 0 };
        let (lt, le, eq, ne, ge, gt) = (bits2(PartialCmp::lt(&va, &vb)), bits2(PartialCmp::lt_eq(&va, &vb)), bits2(PartialCmp::eq(&va, &vb)),
            bits2(PartialCmp::neq(&va, &vb)), bits2(PartialCmp::gt_eq(&va, &vb)), bits2(PartialCmp::gt(&va, &vb)));
        let sel = bits2(Select::select(PartialCmp::lt(&va, &vb), vx, vy));
        let lsel = bits2(LazySelect::lazy_select(PartialCmp::gt_eq(&va, &vb), || vx, || vy));
        let ivd = bits2(IsValidDivisor::is_valid_divisor(&va));
        let mk = PartialCmp::lt(&va, &vb);
        for i in 0..2 {
            ob!("W1.lt", lt[i] == m(a[i] < b[i]));
            ob!("W1.lt_eq", le[i] == m(a[i] <= b[i]));
            ob!("W1.eq", eq[i] == m(a[i] == b[i]));
            ob!("W1.neq", ne[i] == m(a[i] != b[i]));
            ob!("W1.gt_eq", ge[i] == m(a[i] >= b[i]));
            ob!("W1.gt", gt[i] == m(a[i] > b[i]));
            ob!("W2.select_lane_wise", sel[i] == if a[i] < b[i] { x[i].to_bits() } else { y[i].to_bits() });
            ob!("W2.lazy_select_lane_wise", lsel[i] == if a[i] >= b[i] { x[i].to_bits() } else { y[i].to_bits() });
            ob!("W2.is_valid_divisor_lane_is_nonzero", ivd[i] == m(a[i] != 0.0));
        }
        ob!("W3.is_true_iff_all_lanes", BoolMask::is_true(&mk) == (a[0] < b[0] && a[1] < b[1]));
        ob!("W3.is_false_iff_no_lane", BoolMask::is_false(&mk) == (!(a[0] < b[0]) && !(a[1] < b[1])));
    }

    { id: "wide.f64x2.clamp_signum_round_recip", tier: quick, label: "complete",
      func: "impl MinMax / Clamp / Signum / Abs / Round / Recip for f64x2 [num/wide.rs]",
      desc: "W4-W6, W9 for the f64x2 instantiation: clamp family on non-NaN lanes, signum/abs/floor/ceil on every bit pattern, recip lane == 1/x" }
    #[kani::stub(safe_arch::max_m128d, stubs::maxd)]
    #[kani::stub(safe_arch::min_m128d, stubs::mind)]
    #[kani::stub(safe_arch::cmp_unord_mask_m128d, stubs::und)]
    fn w_clamp_etc_f64x2(g) {
        let (a, lo, hi) = (arr2(g), arr2(g), arr2(g));
        cov!(g, a[0].is_nan() && a[1] < lo[1]);
        let va = f64x2::from(a);
        let s: [f64; 2] = Signum::signum(va).into();
        let ab: [f64; 2] = Abs::abs(va).into();
        let fl: [f64; 2] = Round::floor(va).into();
        let ce: [f64; 2] = Round::ceil(va).into();
        for i in 0..2 {
            ob!("W5.signum", same64(s[i], a[i].signum()));
            ob!("W5.abs", same64(ab[i], a[i].abs()));
            ob!("W6.floor", same64(fl[i], a[i].floor()));
            ob!("W6.ceil", same64(ce[i], a[i].ceil()));
        }
        if !a[0].is_nan() && !a[1].is_nan() && !lo[0].is_nan() && !lo[1].is_nan() && !hi[0].is_nan() && !hi[1].is_nan() && lo[0] <= hi[0] && lo[1] <= hi[1] {
            let (vlo, vhi) = (f64x2::from(lo), f64x2::from(hi));
            let c: [f64; 2] = Clamp::clamp(va, vlo, vhi).into();
            let cmin: [f64; 2] = Clamp::clamp_min(va, vlo).into();
            let cmax: [f64; 2] = Clamp::clamp_max(va, vhi).into();
            let mn: [f64; 2] = MinMax::min(va, vhi).into();
            let mx: [f64; 2] = MinMax::max(va, vlo).into();
            for i in 0..2 {
                ob!("W4.clamp", c[i] == Clamp::clamp(a[i], lo[i], hi[i]));
                ob!("W4.clamp_min", cmin[i] == Clamp::clamp_min(a[i], lo[i]));
                ob!("W4.clamp_max", cmax[i] == Clamp::clamp_max(a[i], hi[i]));
                ob!("W4.min", mn[i] == a[i].min(hi[i]));
                ob!("W4.max", mx[i] == a[i].max(lo[i]));
            }
        }
    }

    { id: "wide.f64x2.recip", tier: quick, label: "bounded(lane values: integers 1..=255)",
      func: "impl Recip for f64x2 [num/wide.rs]",
      desc: "W9 (structural, lanes restricted to small integers): recip lane == 1/x in both lanes" }
    #[kani::stub(safe_arch::div_m128d, stubs::divd)]
    fn w_recip_f64x2(g) {
        let a = [g.u8() as f64, g.u8() as f64];
        g.assume(a[0] >= 1.0 && a[1] >= 1.0);
        cov!(g, a[0] > 2.0 && a[1] > 7.0);
        let r: [f64; 2] = Recip::recip(f64x2::from(a)).into();
        for i in 0..2 { ob!("W9.recip", same64(r[i], 1.0 / a[i])); }
    }
}

// ---- P1: packing / unpacking (macros/simd.rs) with a contract-level lane type over u32 components ----
#[derive(Clone, Copy, PartialEq, Eq, Debug, Default)]
pub struct L4(pub [u32; 4]);
impl FromScalar for L4 { type Scalar = u32; fn from_scalar(s: u32) -> Self { L4([s; 4]) } }
impl FromScalarArray<4> for L4 { fn from_array(a: [u32; 4]) -> Self { L4(a) } }
impl IntoScalarArray<4> for L4 { fn into_array(self) -> [u32; 4] { self.0 } }

use palette::{Alpha, Hsv, Lab, Srgb};
use palette::white_point::D65;
use palette::encoding::Srgb as SrgbStd;

harnesses! { REG_P, "C17", "c17";
    { id: "pack.rgb", tier: quick, label: "complete",
      func: "impl From<[Rgb<S,T>; N]> for Rgb<S,V>, impl From<Rgb<S,V>> for [Rgb<S,T>; N] [macros/simd.rs impl_simd_array_conversion!]",
      desc: "P1 for all component values: packing four colours puts colour i in lane i of every component; unpacking returns the same four colours in order" }
    #[kani::unwind(6)]
    fn p_pack_rgb(g) {
        let cs: [Srgb<u32>; 4] = [Srgb::new(g.u32(), g.u32(), g.u32()), Srgb::new(g.u32(), g.u32(), g.u32()), Srgb::new(g.u32(), g.u32(), g.u32()), Srgb::new(g.u32(), g.u32(), g.u32())];
        cov!(g, cs[0].red != cs[1].red && cs[2].blue != cs[3].blue);
        let packed: Srgb<L4> = Srgb::from(cs);
        for i in 0..4 {
            ob!("P1.pack_lane_i_is_colour_i", packed.red.0[i] == cs[i].red && packed.green.0[i] == cs[i].green && packed.blue.0[i] == cs[i].blue);
        }
        let back: [Srgb<u32>; 4] = packed.into();
        ob!("P1.unpack_inverts_pack", back == cs);
    }

    { id: "pack.hsv_alpha", tier: quick, label: "complete",
      func: "impl From<[Alpha<Hsv<S,T>,T>; N]> for Alpha<Hsv<S,V>,V> and back [macros/simd.rs impl_simd_array_conversion_hue!]",
      desc: "P1 for a colour with a hue and alpha: hue, saturation, value and alpha of colour i land in lane i; unpacking returns the same colours in order" }
    #[kani::unwind(6)]
    fn p_pack_hsva(g) {
        let mk = |g: &mut G| -> Alpha<Hsv<SrgbStd, u32>, u32> { Alpha { color: Hsv::new_const(palette::RgbHue::new(g.u32()), g.u32(), g.u32()), alpha: g.u32() } };
        let cs = [mk(g), mk(g), mk(g), mk(g)];
        cov!(g, cs[0].alpha != cs[1].alpha && cs[2].color.hue.into_inner() != cs[3].color.hue.into_inner());
        let packed: Alpha<Hsv<SrgbStd, L4>, L4> = Alpha::from(cs);
        for i in 0..4 {
            ob!("P1.pack_lane_i_is_colour_i", packed.color.hue.into_inner().0[i] == cs[i].color.hue.into_inner() && packed.color.saturation.0[i] == cs[i].color.saturation
                && packed.color.value.0[i] == cs[i].color.value && packed.alpha.0[i] == cs[i].alpha);
        }
        let back: [Alpha<Hsv<SrgbStd, u32>, u32>; 4] = packed.into();
        for i in 0..4 {
            ob!("P1.unpack_inverts_pack", back[i].color.hue.into_inner() == cs[i].color.hue.into_inner() && back[i].color.saturation == cs[i].color.saturation
                && back[i].color.value == cs[i].color.value && back[i].alpha == cs[i].alpha);
        }
    }

    { id: "pack.lab_alpha", tier: quick, label: "complete",
      func: "impl From<[Alpha<Lab<Wp,T>,T>; N]> for Alpha<Lab<Wp,V>,V> and back, impl From<[Lab; N]> [macros/simd.rs]",
      desc: "P1 for Lab with and without alpha (white point parameter, no hue)" }
    #[kani::unwind(6)]
    fn p_pack_lab(g) {
        let mk = |g: &mut G| -> Alpha<Lab<D65, u32>, u32> { Alpha { color: Lab::new(g.u32(), g.u32(), g.u32()), alpha: g.u32() } };
        let cs = [mk(g), mk(g), mk(g), mk(g)];
        cov!(g, cs[0].alpha != cs[3].alpha);
        let packed: Alpha<Lab<D65, L4>, L4> = Alpha::from(cs);
        let bare: Lab<D65, L4> = Lab::from([cs[0].color, cs[1].color, cs[2].color, cs[3].color]);
        for i in 0..4 {
            ob!("P1.pack_lane_i_is_colour_i", packed.color.l.0[i] == cs[i].color.l && packed.color.a.0[i] == cs[i].color.a && packed.color.b.0[i] == cs[i].color.b && packed.alpha.0[i] == cs[i].alpha);
            ob!("P1.bare_pack", bare.l.0[i] == cs[i].color.l && bare.a.0[i] == cs[i].color.a && bare.b.0[i] == cs[i].color.b);
        }
        let back: [Alpha<Lab<D65, u32>, u32>; 4] = packed.into();
        let bback: [Lab<D65, u32>; 4] = bare.into();
        for i in 0..4 {
            ob!("P1.unpack_inverts_pack", back[i].color.l == cs[i].color.l && back[i].color.a == cs[i].color.a && back[i].color.b == cs[i].color.b && back[i].alpha == cs[i].alpha);
            ob!("P1.bare_unpack", bback[i].l == cs[i].color.l && bback[i].a == cs[i].color.a && bback[i].b == cs[i].color.b);
        }
    }
}

pub fn registry() -> Vec<&'static crate::macros::Entry> {
    REG_W.iter().chain(REG_P.iter()).collect()
}
