//! Re-derives the (name, rgb, constant) table of the SVG/CSS3 colours from /repo's
//! codegen/res/svg_colors.txt on every build, so the named-colour contract (C12) is stated
//! against the published list, not against palette's generated map.
use std::{env, fs, path::Path};

fn main() {
    let repo = env::var("VERIF_REPO").unwrap_or_else(|_| "/repo".to_string());
    let src = &format!("{}/codegen/res/svg_colors.txt", repo);
    println!("cargo:rerun-if-env-changed=VERIF_REPO");
    println!("cargo:rerun-if-changed={}", src);
    let text = fs::read_to_string(src).expect("svg_colors.txt");
    let mut out = String::from("pub const NAMED: &[(&str, [u8; 3], palette::Srgb<u8>)] = &[\n");
    let mut n = 0;
    for line in text.lines() {
        let line = line.trim();
        if line.is_empty() { continue; }
        let mut parts = line.split('\t');
        let name = parts.next().unwrap().trim();
        let rgb: Vec<&str> = parts.next().unwrap().split(',').map(|s| s.trim()).collect();
        out.push_str(&format!("    (\"{}\", [{}, {}, {}], palette::named::{}),\n", name, rgb[0], rgb[1], rgb[2], name.to_uppercase()));
        n += 1;
    }
    out.push_str("];\n");
    out.push_str(&format!("pub const NAMED_COUNT: usize = {};\n", n));
    let dest = Path::new(&env::var("OUT_DIR").unwrap()).join("named_table.rs");
    fs::write(dest, out).unwrap();
}
