#!/usr/bin/env python3
"""Regenerates MANIFEST.json from lib/props.py (single source of truth for what is claimed)."""
import json, os, sys
sys.path.insert(0, os.path.dirname(os.path.abspath(__file__)))
import props
V = os.path.dirname(os.path.dirname(os.path.abspath(__file__)))
ids = [json.loads(l)["id"] for l in open(os.path.join(V, "properties.jsonl"))]
checks, na = [], []
for pid in ids:
    cfg = props.PROPS.get(pid)
    if cfg is None or cfg.get("not_applicable"):
        na.append({"property_id": pid, "reason": (cfg or {}).get("not_applicable", props.NOT_BUILT.get(pid, "no check built yet"))})
        continue
    checks.append({
        "property_id": pid,
        "quick_cmd": "./check %s --tier quick" % pid,
        "thorough_cmd": "./check %s --tier thorough" % pid,
        "evidence_file": "/verif/evidence/%s.json" % pid,
        "replay_cmd_template": "./check %s --replay {path}" % pid,
        "engine": "+".join(cfg["engines"]),
        "level_claimed": {"category": "proof", "text": cfg["level_text"], "design_ref": cfg.get("design_ref", "DESIGN.md section 3, " + pid)},
        "level_note": cfg["level_note"],
        "technique": cfg["technique"],
    })
m = {
    "version": 1,
    "setup_cmd": "./setup.sh",
    "hooks": {"guard": "palette_verif", "enable": "cfg flag: the term-extraction crate /verif/sym is built with RUSTFLAGS=--cfg palette_verif (lib/sengine.py build(), setup.sh); the hook exposes the private CAM16 viewing-condition quantities of BakedParameters (verif_dependent / verif_from_dependent) and the forward cone response compression (verif_adapt) so that C16 contracts can be stated function by function; Kani and Verus builds do not use it; everything else calls the public API only",
              "baseline_off_cmd": "cd /repo && cargo test --workspace --no-fail-fast --offline", "source_commits": ["a3487ef", "e0b4b9d"], "add_only": True},
    "engines": [
        {"name": "K", "path": "/verif/kani", "serves_properties": [p for p in ids if p in props.PROPS and "K" in props.PROPS[p]["engines"]],
         "kind_free_text": "Kani 0.68/CBMC 6.11 contract harnesses (assume requires / call real function / assert ensures) on the real crate; counterexamples replayed natively through the same harness body"},
        {"name": "S", "path": "/verif/sym", "serves_properties": [p for p in ids if p in props.PROPS and "S" in props.PROPS[p]["engines"]],
         "kind_free_text": "verification-condition generation by instantiating palette's generic code at a term-building numeric type; VCs (requires & path condition => ensures) discharged by z3/cvc5 over the reals; term identity for variant agreement"},
        {"name": "V", "path": "/verif/verus", "serves_properties": [p for p in ids if p in props.PROPS and "V" in props.PROPS[p]["engines"]],
         "kind_free_text": "Verus on function bodies extracted mechanically from the macro-expanded crate on every run"},
    ],
    "checks": checks,
    "not_applicable": na,
    "notes": "All checks are ./check <ID>; exit 0 pass, 1 VIOLATION (replayed counterexample), 2 undecided. Findings policy and fixed defects: known_findings.json, DESIGN.md section 2.6.",
}
json.dump(m, open(os.path.join(V, "MANIFEST.json"), "w"), indent=1)
print("claimed:", [c["property_id"] for c in checks]); print("not applicable:", [n["property_id"] for n in na])
