"""Shared driver plumbing: obligation records, evidence, known findings, exit codes."""
import json, os, sys, time, subprocess, fcntl, hashlib

VERIF = os.path.dirname(os.path.dirname(os.path.abspath(__file__)))
REPO = os.environ.get("VERIF_REPO", "/repo")
BUILD = os.path.join(VERIF, ".build")
EVID = os.path.join(VERIF, "evidence")
REPLAYS = os.path.join(VERIF, "replays")

DISCHARGED, FAILED, UNDECIDED = "discharged", "failed", "undecided"


def env_offline():
    e = dict(os.environ)
    e["CARGO_NET_OFFLINE"] = "true"
    e.pop("RUSTUP_TOOLCHAIN", None)
    return e


class BuildLock:
    """Serialises cargo builds of the shared target dirs across concurrently running checks."""
    def __init__(self, name="build"):
        os.makedirs(BUILD, exist_ok=True)
        self.path = os.path.join(BUILD, name + ".lock")
    def __enter__(self):
        self.f = open(self.path, "w")
        fcntl.flock(self.f, fcntl.LOCK_EX)
        return self
    def __exit__(self, *a):
        fcntl.flock(self.f, fcntl.LOCK_UN)
        self.f.close()


def run(cmd, cwd=None, timeout=None, env=None, input=None):
    t0 = time.time()
    try:
        p = subprocess.run(cmd, cwd=cwd, env=env or env_offline(), stdout=subprocess.PIPE,
                           stderr=subprocess.STDOUT, timeout=timeout, input=input, text=True, errors="replace")
        return p.returncode, p.stdout, time.time() - t0
    except subprocess.TimeoutExpired as ex:
        out = ex.stdout or ""
        if isinstance(out, bytes):
            out = out.decode("utf-8", "replace")
        return -9, out + "\n[driver] TIMEOUT after %ss\n" % timeout, time.time() - t0


class Ob:
    """One obligation: a contract clause instance on a function of /repo."""
    def __init__(self, oid, engine, label, func, desc, tier="quick"):
        self.id = oid; self.engine = engine; self.label = label; self.func = func
        self.desc = desc; self.tier = tier
        self.status = UNDECIDED; self.time = 0.0; self.detail = ""; self.backend = ""
        self.replay = None            # path of a replay file when failed with a confirmed input
        self.no_input = False         # failed, but the back end gave no (reproducing) input
        self.extra = {}
    @property
    def bounded(self):
        return self.label.startswith("bounded")
    def to_json(self):
        d = {"id": self.id, "engine": self.engine, "label": self.label, "function": self.func,
             "contract": self.desc, "status": self.status, "time_s": round(self.time, 3)}
        if self.backend: d["back_end"] = self.backend
        if self.detail: d["detail"] = self.detail[:600]
        if self.extra: d.update(self.extra)
        return d


def load_known():
    p = os.path.join(VERIF, "known_findings.json")
    if not os.path.exists(p):
        return {"findings": [], "fixed": []}
    return json.load(open(p))


def write_replay(prop, ob, payload):
    os.makedirs(REPLAYS, exist_ok=True)
    h = hashlib.sha1((ob.id + json.dumps(payload, sort_keys=True, default=str)).encode()).hexdigest()[:10]
    safe = "".join(c if c.isalnum() or c in "._-" else "_" for c in ob.id)
    path = os.path.join(REPLAYS, "%s-%s-%s.json" % (prop, safe, h))
    payload = dict(payload)
    payload.update({"property": prop, "obligation": ob.id, "engine": ob.engine, "function": ob.func,
                    "contract": ob.desc})
    json.dump(payload, open(path, "w"), indent=1, default=str)
    return path


def finish(prop, tier, seed, obs, t0, checker_cmds, trusted_base, assumptions, extra_cov=None,
           vacuity=None, not_decided=None):
    """Writes the evidence file, prints the verdict lines, returns the exit code."""
    known = load_known()
    kf = [k for k in known.get("findings", []) if k.get("property") == prop]
    violations, known_hits, undecided = [], [], []
    for ob in obs:
        if ob.status == FAILED:
            hit = None
            for k in kf:
                if k.get("obligation") == ob.id or (k.get("obligation_prefix") and ob.id.startswith(k["obligation_prefix"])):
                    hit = k
            if hit is not None:
                known_hits.append((ob, hit))
            else:
                violations.append(ob)
        elif ob.status == UNDECIDED:
            undecided.append(ob)
    known_ids = set(o.id for o, _ in known_hits)
    proved = [o for o in obs if not o.bounded and o.id not in known_ids]
    bnd = [o for o in obs if o.bounded]
    funcs = sorted(set(o.func for o in obs))
    by_engine = {}
    for o in obs:
        e = by_engine.setdefault(o.engine, {"obligations": 0, "discharged": 0, "solver_time_s": 0.0})
        e["obligations"] += 1
        e["discharged"] += 1 if o.status == DISCHARGED else 0
        e["solver_time_s"] = round(e["solver_time_s"] + o.time, 2)
    # samples: a few actual obligations written out
    samples = [o.to_json() for o in (obs[:3] + obs[-2:] if len(obs) > 5 else obs)]
    for o in violations + [h[0] for h in known_hits] + undecided:
        j = o.to_json()
        if j not in samples:
            samples.append(j)
    cov = {
        "obligations": len(proved),
        "discharged": sum(1 for o in proved if o.status == DISCHARGED),
        "bounded_obligations": len(bnd),
        "bounded_passed": sum(1 for o in bnd if o.status == DISCHARGED),
        "bounded_note": "obligations labelled bounded(n) limit an input SIZE to n; they are never counted under 'discharged'",
        "undecided": [o.id for o in undecided],
        "known_findings_hit": [o.id for o, _ in known_hits],
        "checker_cmd": " ; ".join(checker_cmds),
        "trusted_base": trusted_base,
        "functions_under_contract": funcs,
        "by_back_end": by_engine,
        "samples": samples,
        "all_obligations": [{"id": o.id, "label": o.label, "status": o.status, "engine": o.engine,
                             "time_s": round(o.time, 2)} for o in obs],
        "exhaustive": False,
    }
    if vacuity is not None:
        cov["vacuity_guards"] = vacuity
    if not_decided:
        cov["not_decided_by_this_check"] = not_decided
    if extra_cov:
        cov.update(extra_cov)
    ev = {"property_id": prop, "tier": tier, "seed": seed, "level": "proof", "coverage": cov,
          "assumptions": assumptions, "wall_s": round(time.time() - t0, 2),
          "violations": len(violations)}
    os.makedirs(EVID, exist_ok=True)
    json.dump(ev, open(os.path.join(EVID, prop + ".json"), "w"), indent=1)
    if os.environ.get("VERIF_VERBOSE"):
        for o in sorted(obs, key=lambda o: o.time):
            print("  %-10s %8.1fs %-14s %-40s %s" % (o.status, o.time, o.label, o.id, o.detail[:160].replace("\n", " ")))
    printed = set()
    for ob, k in known_hits:
        key = k.get("what", ob.id)
        if key in printed: continue
        printed.add(key)
        print("KNOWN-FINDING: property=%s %s" % (prop, key))
    for ob in violations:
        path = ob.replay
        if path is None:
            path = write_replay(prop, ob, {"failed_obligation": ob.id, "verifier_output": ob.detail,
                                           "note": "the back end produced no failing input"})
        print("FAILED-OBLIGATION property=%s obligation=%s function=%s" % (prop, ob.id, ob.func))
        if ob.no_input:
            print("VIOLATION property=%s replay=%s no-failing-input-found" % (prop, path))
        else:
            print("VIOLATION property=%s replay=%s" % (prop, path))
    print("[%s] tier=%s obligations=%d discharged=%d bounded=%d/%d failed=%d known=%d undecided=%d wall=%.1fs" % (
        prop, tier, cov["obligations"], cov["discharged"], cov["bounded_passed"], cov["bounded_obligations"],
        len(violations), len(known_hits), len(undecided), time.time() - t0))
    if violations:
        return 1
    if undecided:
        for o in undecided:
            print("UNDECIDED obligation=%s %s" % (o.id, o.detail[:200].replace("\n", " ")))
        return 2
    if not obs:
        print("UNDECIDED no obligations generated (vacuity guard)")
        return 2
    return 0
