"""Engine S: verification conditions from the real generic code instantiated at term-building types
(crate /verif/sym), discharged by an SMT portfolio over the reals.

VC shape per (program, path, ensure):   domain & path-condition & assumes & ground-axioms & not ensure   must be unsat.
Definedness obligations (no division by a zero term, sqrt/ln/pow/asin/acos inside their real domain) are
generated automatically for every term that flows into an output or an ensure.
`identical` obligations are decided syntactically (hash-consed term identity), falling back to an SMT equality.
"""
import json, os, re, time, hashlib, subprocess, math
from fractions import Fraction as F
from concurrent.futures import ThreadPoolExecutor
from common import *

SDIR = os.path.join(VERIF, "sym")
STARGET = os.path.join(BUILD, "sym")
SBIN = os.path.join(STARGET, "release", "pv_sym")
SMTDIR = os.path.join(BUILD, "smt")

TRUSTED = [
    "term extraction = executing the real generic palette code at the term-building types of /verif/sym (primitive semantics: + - * / neg min max abs floor ceil, mul_add = a*b+c, recip = 1/x, powi unrolled, is_valid_divisor = (x != 0))",
    "SMT solvers z3 4.8.12 / z3 5.1 / cvc5 1.0 on `unsat` (portfolio: unsat from any solver discharges)",
    "ground axiom instances for sqrt, cbrt, pow, exp, ln, sin, cos, atan2, hypot (true facts about the real functions; listed per obligation in the SMT files under .build/smt)",
    "solver-free term equality modulo associativity/commutativity of + and *, placement of negations (also through cbrt, sin, cos, abs), a/(b*c) = a/b/c, hypot(a,b) = sqrt(a*a+b*b) and a < b <=> 0 < b - a (sym/src/term.rs::canon): every rewrite is an identity of real arithmetic, constants are never combined",
    "the cfg(palette_verif) hook of /repo (MANIFEST.hooks): accessors that copy the private CAM16 viewing-condition quantities and call the real Adapt::run; they add no arithmetic of their own",
]
M1 = ("M1: machine arithmetic is treated as real arithmetic - no rounding, NaN, infinities, subnormals, signed zero; "
      "decimal constants are read as the simplest rational within 4 ulp of their f64 value (0.04045 is 809/20000, 1.0/1.055 is 200/211), "
      "f64 pi is the real pi, exponents within one ulp of a small rational are that rational")

UF = {"sqrt", "cbrt", "exp", "ln", "sin", "cos", "tan", "asin", "acos", "atan", "atan2", "hypot", "pow"}


def build():
    lock = os.path.join(SDIR, "Cargo.lock")
    if not os.path.exists(lock):
        import shutil; shutil.copy(os.path.join(REPO, "Cargo.lock"), lock)
    env = env_offline(); env["CARGO_TARGET_DIR"] = STARGET
    # the cfg-guarded verification hook of /repo (CAM16 internals, MANIFEST.hooks) is enabled for this crate only
    env["RUSTFLAGS"] = "--cfg palette_verif"
    with BuildLock("sym"):
        return run(["cargo", "build", "--offline", "--release"], cwd=SDIR, env=env, timeout=1800)


def simplest_between(lo, hi):
    """simplest rational (smallest denominator) in the closed interval [lo, hi], lo <= hi Fractions"""
    if lo > hi: lo, hi = hi, lo
    if lo <= 0 <= hi: return F(0)
    if hi < 0: return -simplest_between(-hi, -lo)
    # Stern-Brocot via continued fractions
    fl = math.floor(lo)
    if fl + 1 <= hi or fl == lo:
        return F(fl) if fl == lo else F(fl + 1)
    r = simplest_between(1 / (hi - fl), 1 / (lo - fl))
    return fl + 1 / r


_ideal_cache = {}


def idealise(m, e):
    """f64 constant m*2^e -> simplest rational within half an ulp (M1)."""
    key = (m, e)
    if key in _ideal_cache: return _ideal_cache[key]
    v = F(m) * (F(2) ** e)
    if v == 0:
        r = F(0)
    else:
        # half ulp of the f64 value: mantissa has <= 53 bits; ulp = 2^(floor(log2|v|) - 52)
        a = abs(v)
        k = a.numerator.bit_length() - a.denominator.bit_length()
        if F(2) ** k > a: k -= 1
        # constants such as `0.055 / 1.055` are computed in f64 from rounded operands: up to a few ulp away
        # from the intended rational, so the window is 4 ulp (relative 9e-16)
        half = F(2) ** (k - 50)
        r = simplest_between(v - half, v + half)
        # keep exact dyadics (small denominators) as they are
        if v.denominator <= (1 << 20):
            r = v
    _ideal_cache[key] = r
    return r


_root_cache = {}


def root_bracket(theta, num, den):
    """rational (lo, hi) with lo < theta^(num/den) < hi, hi - lo ~ 1e-13 relative; verified exactly"""
    key = (theta, num, den)
    if key in _root_cache: return _root_cache[key]
    try:
        r = float(theta) ** (num / den)
    except Exception:
        return None
    if not (r > 0) or r == float("inf"): return None
    res = None
    for rel in (1e-13, 1e-11, 1e-9):
        lo = F(r * (1 - rel)).limit_denominator(10 ** 18)
        hi = F(r * (1 + rel)).limit_denominator(10 ** 18)
        # lo^den < theta^num < hi^den
        if lo > 0 and lo ** den < theta ** num < hi ** den:
            res = (lo, hi); break
    _root_cache[key] = res
    return res


def rat(fr):
    if fr.denominator == 1:
        return str(fr.numerator) + ".0" if fr >= 0 else "(- %d.0)" % (-fr.numerator)
    if fr >= 0:
        return "(/ %d.0 %d.0)" % (fr.numerator, fr.denominator)
    return "(- (/ %d.0 %d.0))" % (-fr.numerator, fr.denominator)


class Ctx:
    """SMT translation of one dumped path."""
    def __init__(self, rec, tol_mode="real"):
        self.rec = rec
        self.nodes = {int(k): v for k, v in rec["nodes"].items()}
        self.tol_mode = tol_mode
        self.cache = {}
        self.defs = {}        # id -> (sort, body): shared subterms are NAMED (define-fun), never expanded inline
        self.uf_apps = {}     # id -> (kind, args)
        self.consts = {}
        self.lemmas = {}      # floor/ceil/round node id -> proven constant value (SMT text)

    def const_value(self, i):
        n = self.nodes[i]
        if n[0] == "const":
            return idealise(int(n[1]), n[2])
        if n[0] == "neg":
            v = self.const_value(n[1]); return None if v is None else -v
        if n[0] == "div":
            a, b = self.const_value(n[1]), self.const_value(n[2])
            if a is not None and b not in (None, 0): return a / b
        if n[0] == "mul":
            a, b = self.const_value(n[1]), self.const_value(n[2])
            if a is not None and b is not None: return a * b
        return None

    def t(self, i):
        if i in self.cache: return self.cache[i]
        n = self.nodes[i]
        k = n[0]
        if i in self.lemmas:
            self.cache[i] = self.lemmas[i]
            return self.lemmas[i]
        if k == "var": s = "v_" + re.sub(r"[^A-Za-z0-9_]", "_", n[1])
        elif k == "const": s = rat(idealise(int(n[1]), n[2]))
        elif k == "pi": s = "PI"
        elif k == "true": s = "true"
        elif k == "false": s = "false"
        elif k in ("add", "sub", "mul", "div"):
            op = {"add": "+", "sub": "-", "mul": "*", "div": "/"}[k]
            s = "(%s %s %s)" % (op, self.t(n[1]), self.t(n[2]))
        elif k == "neg": s = "(- %s)" % self.t(n[1])
        elif k == "min": a, b = self.t(n[1]), self.t(n[2]); s = "(ite (<= %s %s) %s %s)" % (a, b, a, b)
        elif k == "max": a, b = self.t(n[1]), self.t(n[2]); s = "(ite (>= %s %s) %s %s)" % (a, b, a, b)
        elif k == "abs": a = self.t(n[1]); s = "(ite (>= %s 0.0) %s (- %s))" % (a, a, a)
        elif k == "floor": s = "(to_real (to_int %s))" % self.t(n[1])
        elif k == "ceil": s = "(- (to_real (to_int (- %s))))" % self.t(n[1])
        elif k == "round":
            a = self.t(n[1]); s = "(ite (>= %s 0.0) (to_real (to_int (+ %s 0.5))) (- (to_real (to_int (+ (- %s) 0.5)))))" % (a, a, a)
        elif k == "ite": s = "(ite %s %s %s)" % (self.t(n[1]), self.t(n[2]), self.t(n[3]))
        elif k == "lt": s = "(< %s %s)" % (self.t(n[1]), self.t(n[2]))
        elif k == "le": s = "(<= %s %s)" % (self.t(n[1]), self.t(n[2]))
        elif k == "eq": s = "(= %s %s)" % (self.t(n[1]), self.t(n[2]))
        elif k == "and": s = "(and %s %s)" % (self.t(n[1]), self.t(n[2]))
        elif k == "or": s = "(or %s %s)" % (self.t(n[1]), self.t(n[2]))
        elif k == "not": s = "(not %s)" % self.t(n[1])
        elif k == "tol":
            s = rat(F(n[1]) if self.tol_mode == "real" else F(n[2]) * 4)
        elif k in UF:
            args = [self.t(a) for a in n[1:]]
            # every application is named by a constant so that axioms and the model can refer to it
            s = "u%d" % i
            self.uf_apps[i] = (k, n[1:], args)
        else:
            raise ValueError("unknown node kind " + k)
        # the expression is a DAG with heavy sharing (Halley steps, matrix products): a long text is given a name so
        # that the SMT file stays linear in the size of the DAG instead of exponential in its depth
        if len(s) > 160 and k not in ("var", "const", "pi", "true", "false", "tol") and k not in UF:
            sort = "Bool" if k in ("lt", "le", "eq", "and", "or", "not") else "Real"
            self.defs[i] = (sort, s)
            s = "d%d" % i
        self.cache[i] = s
        return s

    def reach(self, roots):
        seen, st = set(), list(roots)
        while st:
            i = st.pop()
            if i in seen: continue
            seen.add(i)
            for a in self.nodes[i][1:]:
                if isinstance(a, int) and not isinstance(a, bool) and self.nodes[i][0] not in ("const", "var", "tol"):
                    st.append(a)
        return seen

    def needed(self, roots):
        """node id -> SMT condition under which the node's value flows into one of the roots (ite guards)."""
        need = {}
        for r in roots: need[r] = ["true"]
        for i in sorted(self.reach(roots), reverse=True):
            if i not in need: continue
            cond = need[i]
            c = "true" if "true" in cond else ("(or %s)" % " ".join(sorted(set(cond))) if len(set(cond)) > 1 else cond[0])
            n = self.nodes[i]
            if n[0] in ("const", "var", "tol", "pi", "true", "false"): continue
            if n[0] == "ite":
                g = self.t(n[1])
                need.setdefault(n[1], []).append(c)
                need.setdefault(n[2], []).append("(and %s %s)" % (c, g) if c != "true" else g)
                need.setdefault(n[3], []).append("(and %s (not %s))" % (c, g) if c != "true" else "(not %s)" % g)
            else:
                for a in n[1:]:
                    if isinstance(a, int): need.setdefault(a, []).append(c)
        out = {}
        for i, cond in need.items():
            out[i] = "true" if "true" in cond else ("(or %s)" % " ".join(sorted(set(cond))) if len(set(cond)) > 1 else cond[0])
        return out

    def definedness(self, roots):
        """[(name, smt condition that must hold)] for partial operations flowing into roots"""
        obs = []
        need = self.needed(roots)
        for i, g in sorted(need.items()):
            n = self.nodes[i]
            k = n[0]
            c = None
            if k == "div":
                # a constant non-zero divisor needs no obligation
                cv = self.const_value(n[2])
                if cv is not None and cv != 0: continue
                c = "(not (= %s 0.0))" % self.t(n[2]); what = "divisor_nonzero"
            elif k == "sqrt": c = "(>= %s 0.0)" % self.t(n[1]); what = "sqrt_argument_nonnegative"
            elif k == "ln": c = "(> %s 0.0)" % self.t(n[1]); what = "ln_argument_positive"
            elif k in ("asin", "acos"): a = self.t(n[1]); c = "(and (<= (- 1.0) %s) (<= %s 1.0))" % (a, a); what = k + "_argument_in_unit_interval"
            elif k == "pow":
                e = self.const_value(n[2])
                if e is not None and e.denominator == 1 and e >= 0: continue
                c = "(>= %s 0.0)" % self.t(n[1]) if (e is None or e > 0) else "(> %s 0.0)" % self.t(n[1]); what = "pow_base_in_domain"
            if c is None: continue
            obs.append(("def.%s.n%d" % (what, i), c if g == "true" else "(=> %s %s)" % (g, c)))
        return obs

    # ---- ground axioms for the uninterpreted applications that occur ----
    def axioms(self, relevant=None):
        ax = []
        apps = dict(self.uf_apps)
        if relevant is not None:
            apps = {i: v for i, v in apps.items() if i in relevant}
        decl = []
        by_kind = {}
        for i, (k, ids, args) in sorted(apps.items()):
            u = "u%d" % i
            decl.append("(declare-const %s Real)" % u)
            by_kind.setdefault(k, []).append((i, ids, args))
            if k == "sqrt":
                ax.append("(=> (>= %s 0.0) (and (>= %s 0.0) (= (* %s %s) %s)))" % (args[0], u, u, u, args[0]))
            elif k == "cbrt":
                ax.append("(= (* %s %s %s) %s)" % (u, u, u, args[0]))
                ax.append("(= (>= %s 0.0) (>= %s 0.0))" % (u, args[0]))
            elif k == "hypot":
                ax.append("(and (>= %s 0.0) (= (* %s %s) (+ (* %s %s) (* %s %s))))" % (u, u, u, args[0], args[0], args[1], args[1]))
            elif k == "exp":
                ax.append("(> %s 0.0)" % u)
                ax.append("(>= %s (+ 1.0 %s))" % (u, args[0]))
                ax.append("(=> (= %s 0.0) (= %s 1.0))" % (args[0], u))
            elif k == "ln":
                ax.append("(=> (> %s 0.0) (<= %s (- %s 1.0)))" % (args[0], u, args[0]))
                ax.append("(=> (= %s 1.0) (= %s 0.0))" % (args[0], u))
                # exp(ln x) = x and ln(exp a) = a between occurrences
                for i2, (k2, ids2, args2) in sorted(apps.items()):
                    if k2 != "exp": continue
                    ax.append("(=> (and (> %s 0.0) (= %s %s)) (= u%d %s))" % (args[0], args2[0], u, i2, args[0]))
                    ax.append("(=> (= %s u%d) (= %s %s))" % (args[0], i2, u, args2[0]))
            elif k in ("sin", "cos"):
                ax.append("(and (<= (- 1.0) %s) (<= %s 1.0))" % (u, u))
                ax.append("(=> (= %s 0.0) (= %s %s))" % (args[0], u, "0.0" if k == "sin" else "1.0"))
            elif k == "atan2":
                ax.append("(and (<= (- PI) %s) (<= %s PI))" % (u, u))
                ax.append("(=> (and (= %s 0.0) (= %s 0.0)) (= %s 0.0))" % (args[0], args[1], u))
                # quadrant facts: atan2(y, x) has the sign of y; on the x axis it is 0 (x > 0) or pi (x < 0)
                ax.append("(=> (> %s 0.0) (and (> %s 0.0) (< %s PI)))" % (args[0], u, u))
                ax.append("(=> (< %s 0.0) (and (< %s 0.0) (> %s (- PI))))" % (args[0], u, u))
                ax.append("(=> (and (= %s 0.0) (> %s 0.0)) (= %s 0.0))" % (args[0], args[1], u))
                ax.append("(=> (and (= %s 0.0) (< %s 0.0)) (= %s PI))" % (args[0], args[1], u))
            elif k == "pow":
                e = self.const_value(ids[1])
                b = args[0]
                ax.append("(=> (>= %s 0.0) (>= %s 0.0))" % (b, u))
                if e is None:
                    # symbolic exponent
                    ex = args[1]
                    ax.append("(=> (and (= %s 0.0) (> %s 0.0)) (= %s 0.0))" % (b, ex, u))
                    ax.append("(=> (= %s 1.0) (= %s 1.0))" % (b, u))
                    ax.append("(=> (> %s 0.0) (> %s 0.0))" % (b, u))
                    ax.append("(=> (= %s 1.0) (= %s %s))" % (ex, u, b))
                    ax.append("(=> (and (>= %s 0.0) (<= %s 1.0) (>= %s 0.0)) (<= %s 1.0))" % (b, b, ex, u))
                    # inverse exponents between occurrences: pow(pow(x, e2), e1) = x when e1 * e2 = 1
                    for i2, (k2, ids2, args2) in sorted(apps.items()):
                        if k2 != "pow" or i2 == i: continue
                        ax.append("(=> (and (>= %s 0.0) (= %s u%d) (= (* %s %s) 1.0)) (= %s %s))" % (args2[0], b, i2, ex, args2[1], u, args2[0]))
                    # congruence with other symbolic-exponent powers
                    for i2, (k2, ids2, args2) in sorted(apps.items()):
                        if k2 != "pow" or i2 <= i: continue
                        ax.append("(=> (and (= %s %s) (= %s %s)) (= %s u%d))" % (b, args2[0], ex, args2[1], u, i2))
                    # x^(2e) = (x^e)^2 between occurrences with the same base (x >= 0)
                    for i2, (k2, ids2, args2) in sorted(apps.items()):
                        if k2 != "pow" or i2 == i or self.const_value(ids2[1]) is not None: continue
                        ax.append("(=> (and (>= %s 0.0) (= %s %s) (= %s (* 2.0 %s))) (= %s (* u%d u%d)))" % (b, b, args2[0], ex, args2[1], u, i2, i2))
                if e is not None:
                    if e > 0:
                        ax.append("(=> (= %s 0.0) (= %s 0.0))" % (b, u))
                        ax.append("(=> (> %s 0.0) (> %s 0.0))" % (b, u))
                    ax.append("(=> (= %s 1.0) (= %s 1.0))" % (b, u))
                    if e > 0:
                        ax.append("(=> (and (>= %s 0.0) (<= %s 1.0)) (<= %s 1.0))" % (b, b, u))
                        ax.append("(=> (>= %s 1.0) (>= %s 1.0))" % (b, u))
                    p, q = e.numerator, e.denominator
                    if 0 < p <= 6 and q <= 6 and False:
                        pass
                    if 0 < p <= 3 and q <= 3:
                        ax.append("(=> (>= %s 0.0) (= %s %s))" % (b, " ".join(["(*"] + [u] * q) + ")" if q > 1 else u,
                                                               " ".join(["(*"] + [b] * p) + ")" if p > 1 else b))
                    # inverse exponents: pow(pow(x,a), 1/a) = x for x >= 0 - ground instance for every pair of
                    # occurrences, matched semantically (the solver shows base == inner power by linear arithmetic)
                    for i2, (k2, ids2, args2) in sorted(apps.items()):
                        if k2 != "pow" or i2 == i: continue
                        a = self.const_value(ids2[1])
                        if a is not None and a * e == 1:
                            ax.append("(=> (and (>= %s 0.0) (= %s u%d)) (= %s %s))" % (args2[0], b, i2, u, args2[0]))
        # ground arguments: a power / root of a variable-free argument gets an exact rational enclosure
        for i, (k, ids, args) in sorted(apps.items()):
            if k not in ("pow", "cbrt", "sqrt"): continue
            base = self.ground_fraction(ids[0])
            if base is None or base < 0: continue
            if k == "pow":
                e = self.const_value(ids[1])
                if e is None or e <= 0: continue
                num, den = e.numerator, e.denominator
            elif k == "cbrt": num, den = 1, 3
            else: num, den = 1, 2
            if base == 0: ax.append("(= u%d 0.0)" % i); continue
            if base == 1: ax.append("(= u%d 1.0)" % i); continue
            br = root_bracket(base, num, den)
            if br is not None:
                ax.append("(and (< %s u%d) (< u%d %s))" % (rat(br[0]), i, i, rat(br[1])))
        # numeric brackets: a comparison of (an affine function of) a power / root with a constant is decided by
        # comparing the base with a rational bracket of the exact root (verified in exact integer arithmetic)
        for (theta, ufid) in self.thresholds():
            if ufid not in apps: continue
            k, ids, args = apps[ufid]
            u = "u%d" % ufid
            if k == "cbrt":
                ax.append("(and (= (< %s %s) (< %s %s)) (= (> %s %s) (> %s %s)))" % (u, rat(theta), args[0], rat(theta ** 3), u, rat(theta), args[0], rat(theta ** 3)))
            elif k == "sqrt" and theta >= 0:
                ax.append("(=> (>= %s 0.0) (and (= (< %s %s) (< %s %s)) (= (> %s %s) (> %s %s))))" % (args[0], u, rat(theta), args[0], rat(theta ** 2), u, rat(theta), args[0], rat(theta ** 2)))
            elif k == "pow":
                e = self.const_value(ids[1])
                if e is None or e <= 0 or theta <= 0: continue
                pq = (e.numerator, e.denominator)
                br = root_bracket(theta, pq[1], pq[0])     # rho = theta^(q/p)
                if br is None: continue
                lo, hi = br
                ax.append("(=> (and (>= %s 0.0) (<= %s %s)) (< %s %s))" % (args[0], args[0], rat(lo), u, rat(theta)))
                ax.append("(=> (>= %s %s) (> %s %s))" % (args[0], rat(hi), u, rat(theta)))
        # same sine/cosine argument: sin^2 + cos^2 = 1
        for (i, ids, args) in by_kind.get("sin", []):
            for (j, ids2, args2) in by_kind.get("cos", []):
                if ids[0] == ids2[0]:
                    ax.append("(= (+ (* u%d u%d) (* u%d u%d)) 1.0)" % (i, i, j, j))
        # functional consistency + monotonicity between occurrences of the same function
        for k in ("sqrt", "cbrt", "exp", "ln", "pow"):
            lst = by_kind.get(k, [])
            for x in range(len(lst)):
                for y in range(x + 1, len(lst)):
                    (i, ids, a1), (j, ids2, a2) = lst[x], lst[y]
                    if k == "pow":
                        e1, e2 = self.const_value(ids[1]), self.const_value(ids2[1])
                        if e1 is None or e1 != e2 or e1 <= 0: continue
                        dom = "(and (>= %s 0.0) (>= %s 0.0))" % (a1[0], a2[0])
                    elif k in ("sqrt",): dom = "(and (>= %s 0.0) (>= %s 0.0))" % (a1[0], a2[0])
                    elif k == "ln": dom = "(and (> %s 0.0) (> %s 0.0))" % (a1[0], a2[0])
                    else: dom = "true"
                    ax.append("(=> %s (and (=> (<= %s %s) (<= u%d u%d)) (=> (<= %s %s) (<= u%d u%d))))" % (dom, a1[0], a2[0], i, j, a2[0], a1[0], j, i))
        for k in ("sin", "cos", "tan", "asin", "acos", "atan"):
            lst = by_kind.get(k, [])
            for x in range(len(lst)):
                for y in range(x + 1, len(lst)):
                    (i, ids, a1), (j, ids2, a2) = lst[x], lst[y]
                    ax.append("(=> (= %s %s) (= u%d u%d))" % (a1[0], a2[0], i, j))
        for k in ("atan2", "hypot"):
            lst = by_kind.get(k, [])
            for x in range(len(lst)):
                for y in range(x + 1, len(lst)):
                    (i, ids, a1), (j, ids2, a2) = lst[x], lst[y]
                    ax.append("(=> (and (= %s %s) (= %s %s)) (= u%d u%d))" % (a1[0], a2[0], a1[1], a2[1], i, j))
        # polar <-> cartesian: for cos/sin whose argument is an atan2 (plus pi): r*cos = x, r*sin = y
        for (i, ids, args) in by_kind.get("atan2", []):
            yv, xv = args[0], args[1]
            for kind in ("cos", "sin"):
                for (j, ids2, args2) in by_kind.get(kind, []):
                    targ = args2[0]
                    comp = xv if kind == "cos" else yv
                    # h >= 0 with h^2 = x^2 + y^2 is introduced as a fresh constant per atan2 node
                    h = "h%d" % i
                    ax.append("(=> (= %s u%d) (= (* %s u%d) %s))" % (targ, i, h, j, comp))
                    ax.append("(=> (= %s (+ PI u%d)) (= (* %s u%d) (- %s)))" % (targ, i, h, j, comp))
                    ax.append("(=> (= %s (- u%d PI)) (= (* %s u%d) (- %s)))" % (targ, i, h, j, comp))
            decl.append("(declare-const h%d Real)" % i)
            ax.append("(and (>= h%d 0.0) (= (* h%d h%d) (+ (* %s %s) (* %s %s))))" % (i, i, i, xv, xv, yv, yv))
        return decl, ax

    def ground_fraction(self, i, depth=0):
        """exact value of a ground term (idealised constants combined by + - * / neg min max abs), else None"""
        if depth > 300: return None
        n = self.nodes[i]; k = n[0]
        if k == "const": return idealise(int(n[1]), n[2])
        if k in ("add", "sub", "mul", "div", "min", "max"):
            a = self.ground_fraction(n[1], depth + 1)
            if a is None: return None
            b = self.ground_fraction(n[2], depth + 1)
            if b is None: return None
            if k == "add": return a + b
            if k == "sub": return a - b
            if k == "mul": return a * b
            if k == "div": return a / b if b != 0 else None
            if k == "min": return min(a, b)
            return max(a, b)
        if k == "neg":
            a = self.ground_fraction(n[1], depth + 1); return None if a is None else -a
        if k == "abs":
            a = self.ground_fraction(n[1], depth + 1); return None if a is None else abs(a)
        return None

    def affine_leaves(self, i, depth=0):
        """[(alpha, uf node id, beta)] for the ite-leaves of node i that are affine in exactly one UF application"""
        n = self.nodes[i]
        k = n[0]
        if depth > 12: return []
        if k == "ite":
            return self.affine_leaves(n[2], depth + 1) + self.affine_leaves(n[3], depth + 1)
        if k in ("min", "max"):
            return self.affine_leaves(n[1], depth + 1) + self.affine_leaves(n[2], depth + 1)
        if k in UF:
            return [(F(1), i, F(0))]
        if k == "neg":
            return [(-a, u, -b) for a, u, b in self.affine_leaves(n[1], depth + 1)]
        if k in ("add", "sub", "mul", "div"):
            cl, cr = self.const_value(n[1]), self.const_value(n[2])
            if cr is not None and cl is None:
                L = self.affine_leaves(n[1], depth + 1)
                if k == "add": return [(a, u, b + cr) for a, u, b in L]
                if k == "sub": return [(a, u, b - cr) for a, u, b in L]
                if k == "mul": return [(a * cr, u, b * cr) for a, u, b in L]
                if k == "div" and cr != 0: return [(a / cr, u, b / cr) for a, u, b in L]
            if cl is not None and cr is None:
                R = self.affine_leaves(n[2], depth + 1)
                if k == "add": return [(a, u, b + cl) for a, u, b in R]
                if k == "sub": return [(-a, u, cl - b) for a, u, b in R]
                if k == "mul": return [(a * cl, u, b * cl) for a, u, b in R]
        return []

    def thresholds(self):
        """{(theta, uf id)}: constants a power/root application is (affinely) compared with somewhere in the query"""
        out = set()
        for i in list(self.cache.keys()):
            n = self.nodes[i]
            if n[0] not in ("lt", "le", "eq"): continue
            for a, b in ((n[1], n[2]), (n[2], n[1])):
                K = self.const_value(a)
                if K is None: continue
                for alpha, uf, beta in self.affine_leaves(b):
                    if alpha != 0 and uf in self.uf_apps:
                        out.add(((K - beta) / alpha, uf))
        return sorted(out)

    def premises(self):
        rec = self.rec
        pre = list(getattr(self, "proven_lemmas", []))
        for name, vid, lo, hi in rec["vars"]:
            v = self.t(vid)
            pre.append("(<= %s %s)" % (rat(F(lo)), v) if F(lo).denominator < 10**12 else "(<= %s %s)" % (rat(F(lo).limit_denominator(10**12)), v))
            pre.append("(<= %s %s)" % (v, rat(F(hi)) if F(hi).denominator < 10**12 else rat(F(hi).limit_denominator(10**12))))
        for c, outcome in rec["pc"]:
            pre.append(self.t(c) if outcome else "(not %s)" % self.t(c))
        for c in rec["assumes"]:
            pre.append(self.t(c))
        return pre

    def query(self, goal_smt, goal_roots=None):
        """SMT-LIB text of  premises & axioms & not goal. With goal_roots, only the uninterpreted applications
        reachable from the goal, the path condition and the assumptions get axioms (relevance slicing)."""
        pre = self.premises()
        relevant = None
        if goal_roots is not None:
            roots = list(goal_roots) + [c for c, _ in self.rec["pc"]] + list(self.rec["assumes"])
            relevant = self.reach(roots)
        decl, ax = self.axioms(relevant)
        if relevant is not None:
            # every named application that is mentioned must still be declared
            decl = ["(declare-const u%d Real)" % i for i in sorted(self.uf_apps)] + [d for d in decl if not d.startswith("(declare-const u")]
        lines = ["(set-logic ALL)", "(declare-const PI Real)",
                 "(assert (and (< (/ 3141592653589793.0 1000000000000000.0) PI) (< PI (/ 3141592653589794.0 1000000000000000.0))))"]
        for name, vid, lo, hi in self.rec["vars"]:
            lines.append("(declare-const %s Real)" % self.t(vid))
        lines += decl
        for di, (sort, body) in self.defs.items():
            lines.append("(define-fun d%d () %s %s)" % (di, sort, body))
        for p in pre: lines.append("(assert %s)" % p)
        for a in ax: lines.append("(assert %s)" % a)
        if goal_smt is not None:
            lines.append("(assert (not %s))" % goal_smt)
        lines.append("(check-sat)")
        return "\n".join(lines) + "\n"


SOLVERS = [
    ("z3-4.8.12", lambda f, t: ["z3", "-T:%d" % t, f]),
    ("cvc5-1.0", lambda f, t: ["cvc5", "--tlimit=%d" % (t * 1000), f]),
    ("z3-5.1", lambda f, t: ["z3-new", "-T:%d" % t, f]),
]


def solve(smt, timeout=20, want_model=False, tag="q"):
    """-> (verdict, solver, seconds, model_text)"""
    os.makedirs(SMTDIR, exist_ok=True)
    h = hashlib.sha1(smt.encode()).hexdigest()[:16]
    path = os.path.join(SMTDIR, "%s-%s.smt2" % (tag[:60], h))
    text = smt + ("(get-model)\n" if want_model else "")
    with open(path, "w") as f: f.write(text)
    t0 = time.time()
    last = "unknown"
    for name, mk in SOLVERS:
        try:
            p = subprocess.run(mk(path, timeout), stdout=subprocess.PIPE, stderr=subprocess.STDOUT, timeout=timeout + 10, text=True)
            out = p.stdout
        except subprocess.TimeoutExpired:
            out = "timeout"
        first = out.strip().splitlines()[0].strip() if out.strip() else "unknown"
        if first == "unsat":
            return "unsat", name, time.time() - t0, "", path
        if first == "sat":
            return "sat", name, time.time() - t0, out, path
        last = first
    return "unknown", "portfolio", time.time() - t0, last, path


def parse_model(out, varnames):
    """z3/cvc5 model -> {var: Fraction}"""
    vals = {}
    for m in re.finditer(r"\(define-fun\s+(\S+)\s+\(\)\s+Real\s+(.*?)\)\s*(?=\(define-fun|\)\s*$|$)", out, re.S):
        name, body = m.group(1), m.group(2).strip()
        v = parse_real(body)
        if v is not None: vals[name] = v
    return {n: vals.get("v_" + re.sub(r"[^A-Za-z0-9_]", "_", n)) for n in varnames}


def parse_real(s):
    s = s.strip()
    toks = re.findall(r"\(|\)|[^\s()]+", s)
    pos = [0]
    def ev():
        t = toks[pos[0]]; pos[0] += 1
        if t == "(":
            op = toks[pos[0]]; pos[0] += 1
            args = []
            while toks[pos[0]] != ")": args.append(ev())
            pos[0] += 1
            if any(a is None for a in args): return None
            if op == "-": return -args[0] if len(args) == 1 else args[0] - sum(args[1:])
            if op == "/": return args[0] / args[1] if args[1] != 0 else None
            if op == "+": return sum(args)
            if op == "*":
                r = F(1)
                for a in args: r *= a
                return r
            if op == "root-obj": return None
            return None
        try:
            return F(t.rstrip("?"))
        except Exception:
            return None
    try:
        return ev()
    except Exception:
        return None


def replay(prog, model, ensure_name):
    """run the real code in f64 and f32 on the model point -> (reproduced, transcript)"""
    args = ["%s=%r" % (k, float(v)) for k, v in model.items() if v is not None]
    tr = []
    for ty in ("f64", "f32"):
        rc, out, dt = run([SBIN, "--eval", prog, ty] + args, timeout=60)
        tr.append("[%s] %s" % (ty, out.strip().replace("\n", " | ")))
        if "ASSUME-FAILED" in out: continue
        if "PANIC" in out:
            return True, tr, ty
        for l in out.splitlines():
            if l.startswith("ENSURE ") and l.split()[1] == ensure_name and l.strip().endswith("VIOLATED"):
                return True, tr, ty
    return False, tr, None



_witness_cache = {}


def witness_replay(ctx, rec, prog, ensure_name, tries=10):
    """An undischarged VC is never an alarm by itself. But a concrete input that satisfies the path condition and on which the
    REAL code violates the contract is a counterexample wherever it came from: models of (domain & path condition & assumes)
    are replayed natively. -> (model, float type, transcript) or None"""
    key = (rec["prog"], rec["mode"], rec["path"])
    if key not in _witness_cache:
        names = [n for n, _, _, _ in rec["vars"]]
        q = ctx.query(None)
        models = []
        import random
        rnd = random.Random(hash(key) & 0xffff)
        bounds = {n: (F(lo), F(hi)) for n, _, lo, hi in rec["vars"]}
        for attempt in range(tries):
            # diversify: each attempt asks for a model in a different orthant of the domain (relative to the box centre or 0)
            side = []
            if attempt > 0:
                for n in names:
                    lo, hi = bounds[n]
                    mid = F(0) if lo < 0 < hi else (lo + hi) / 2
                    r = rnd.random()
                    if r < 0.4: side.append("(assert (< v_%s %s))\n" % (re.sub(r"[^A-Za-z0-9_]", "_", n), rat(mid)))
                    elif r < 0.8: side.append("(assert (> v_%s %s))\n" % (re.sub(r"[^A-Za-z0-9_]", "_", n), rat(mid)))
            qq = q.replace("(check-sat)\n", "".join(side) + "(check-sat)\n")
            v, s_, dt, out, qp = solve(qq, timeout=5, want_model=True, tag="witness.%s.%s%d.%d" % (rec["prog"], rec["mode"], rec["path"], attempt))
            if v != "sat": continue
            m = parse_model(out, names)
            if any(x is None for x in m.values()): continue
            if m not in models: models.append(m)
        _witness_cache[key] = models
    for m in _witness_cache[key]:
        ok, tr, ty = replay(prog, m, ensure_name)
        if ok: return m, ty, tr
    return None



_lattice_cache = {}


def lattice_witness(rec, prog, ensure_name, cap=20000):
    """Last resort for an UNDISCHARGED obligation: the real code is run natively (f64) on the boundary lattice of the program's
    domain (each variable at its bounds, zero, the centre and the quarter points - the degenerate positions where case analyses
    switch). A lattice point on which the real code violates the named ensure is a replayed counterexample. Finding none leaves
    the obligation undecided (exit 2). -> (model, 'f64', transcript) or None"""
    if prog not in _lattice_cache:
        import itertools, random
        vals = []
        for n, _, lo, hi in rec["vars"]:
            lo, hi = float(lo), float(hi)
            c = sorted(set([lo, hi, (lo + hi) / 2, lo + (hi - lo) / 4, lo + 3 * (hi - lo) / 4] + ([0.0] if lo < 0 < hi else [])))
            vals.append((n, c))
        total = 1
        for _, c in vals: total *= len(c)
        if total <= cap:
            pts = list(itertools.product(*[c for _, c in vals]))
        else:
            rnd = random.Random(12345)
            pts = [tuple(rnd.choice(c) for _, c in vals) for _ in range(cap)]
        lines = "\n".join(" ".join("%s=%r" % (vals[i][0], p[i]) for i in range(len(vals))) for p in pts) + "\n"
        rc, out, dt = run([SBIN, "--eval-batch", prog, "f64"], timeout=300, input=lines)
        bad = {}
        for l in out.splitlines():
            if not l.startswith("R "): continue
            _, idx, names = l.split(" ", 2)
            if names in ("-", "skip"): continue
            for nm in names.split(","):
                bad.setdefault(nm, []).append(pts[int(idx)])
        _lattice_cache[prog] = ([n for n, _ in vals], bad)
    names, bad = _lattice_cache[prog]
    for key in (ensure_name, "PANIC"):
        if bad.get(key):
            p = bad[key][0]
            m = {names[i]: F(p[i]) for i in range(len(names))}
            ok, tr, ty = replay(prog, m, ensure_name)
            if ok: return m, ty, tr
    return None


CONFIRMED_FAILS = {}
NOT_DISCHARGED = {}


def check_path(prop, prog, meta, rec, timeout):
    """-> list of Ob for one dumped path"""
    res = _check_path(prop, prog, meta, rec, timeout)
    n = sum(1 for o in res[0] if o.status == FAILED and not o.no_input)
    if n: CONFIRMED_FAILS[prog] = CONFIRMED_FAILS.get(prog, 0) + n
    u = sum(1 for o in res[0] if o.status != DISCHARGED)
    if u: NOT_DISCHARGED[prog] = NOT_DISCHARGED.get(prog, 0) + u
    return res


def _check_path(prop, prog, meta, rec, timeout):
    obs = []
    ctx = Ctx(rec)
    mode, path = rec["mode"], rec["path"]
    base = "S.%s.%s%d" % (prog, mode, path)
    goals = [(n, c) for n, c in rec["ensures"]]
    roots = [c for _, c in goals] + [c for _, c in rec["outputs"]]
    for c, _ in rec["pc"]: roots.append(c)
    # fast path: every ensure folded to `true` during extraction (both sides are the SAME term), every identity is
    # syntactic and no output is declared -> nothing is left for a solver (the path's feasibility does not matter)
    if goals and not rec["outputs"] and all(ctx.nodes[c][0] == "true" for _, c in goals) and all(a == b for _, a, b in rec["identical"]):
        for n, c in goals:
            o = Ob("%s.ensure.%s" % (base, n), "term-identity", "complete", meta["func"], meta["desc"] + " [ensure." + n + "]")
            o.backend = "hash-consed term identity"; o.status = DISCHARGED
            obs.append(o)
        for n, a, b in rec["identical"]:
            o = Ob("%s.identical.%s" % (base, n), "term-identity", "complete", meta["func"], meta["desc"] + " [identical." + n + "]")
            o.backend = "hash-consed term identity"; o.status = DISCHARGED
            obs.append(o)
        return obs, {"feasible": None, "path": base}
    # budget: once a program has three obligations that failed WITH an input replayed on the real code, its remaining
    # paths are not sent to the solvers (the check already exits 1; hundreds of paths of a broken function would each
    # cost the full solver timeout). They are reported undecided, never discharged.
    if CONFIRMED_FAILS.get(prog, 0) >= 3 or NOT_DISCHARGED.get(prog, 0) >= 24:
        o = Ob("%s.skipped" % base, "smt", "complete", meta["func"], meta["desc"])
        o.detail = "not attempted: three obligations of this program already failed with a replayed counterexample, or 24 were left undischarged (on the unchanged tree every obligation discharges, so this only bounds the cost of a run against a changed tree)"
        return [o], {"feasible": None, "path": base}
    # translate everything first (collects the uninterpreted applications)
    for r in roots: ctx.t(r)
    for c in rec["assumes"]: ctx.t(c)
    # 0. feasibility of the path (vacuity guard): infeasible paths carry no obligations
    q = ctx.query(None)
    v, solver, dt, out, qpath = solve(q, timeout=timeout, tag=base + ".feasible")
    if v == "unsat":
        return [], {"feasible": False, "path": base}
    feasible_known = (v == "sat")
    # 0b. integer-part lemmas: floor/ceil/round of a term that provably stays within one integer cell on this
    # path is replaced by that constant (each lemma is itself discharged: premises => k <= t < k+1)
    lemma_notes = []
    for i in sorted(ctx.reach(roots)):
        n = ctx.nodes[i]
        if n[0] not in ("floor", "ceil", "round"): continue
        if ctx.const_value(n[1]) is not None: continue
        arg = ctx.t(n[1])
        for kk in (0, 1, -1, 2, -2, 3, -3, 4, 5, 6):
            if n[0] == "floor": cell = "(and (<= %d.0 %s) (< %s %d.0))" % (kk, arg, arg, kk + 1) if kk >= 0 else "(and (<= (- %d.0) %s) (< %s (- %d.0)))" % (-kk, arg, arg, -kk - 1) if kk < -1 else "(and (<= (- 1.0) %s) (< %s 0.0))" % (arg, arg)
            elif n[0] == "ceil": cell = "(and (< %s %s) (<= %s %s))" % (rat(F(kk - 1)), arg, arg, rat(F(kk)))
            else: cell = "(and (<= %s %s) (< %s %s))" % (rat(F(kk) - F(1, 2)), arg, arg, rat(F(kk) + F(1, 2)))
            vv, sv, dtv, outv, qp = solve(ctx.query(cell), timeout=min(timeout, 5), tag=base + ".lemma.n%d.k%d" % (i, kk))
            if vv == "unsat":
                ctx.lemmas[i] = rat(F(kk))
                ctx.cache = {}; ctx.defs = {}; ctx.uf_apps = {}
                for r in roots: ctx.t(r)
                for c in rec["assumes"]: ctx.t(c)
                lemma_notes.append("n%d:%s=%d" % (i, n[0], kk))
                break
            if vv != "sat":
                break
    # 0c. auxiliary definedness lemmas: SMT-LIB division is total, so a value VC asked before its divisors are
    # known non-zero can get spurious models. Every partial operation under an ensure is tried as a lemma first
    # (short timeout); the proven ones become premises. Unproven ones are simply not assumed.
    if not hasattr(ctx, "proven_lemmas"): ctx.proven_lemmas = []
    for lname, lsmt in ctx.definedness([c for _, c in goals]):
        nid = int(lname.rsplit(".n", 1)[1])
        vv, sv, dtv, outv, qp = solve(ctx.query(lsmt, [nid]), timeout=min(timeout, 5), tag=base + ".aux." + lname)
        if vv == "unsat":
            ctx.proven_lemmas.append(lsmt)
    # 1. definedness
    # definedness: only for values the REAL code produced (declared outputs); spec-side terms of the ensures are not obligations
    dgoals = ctx.definedness([c for _, c in rec["outputs"]])
    items = [("ensure." + n, ctx.t(c), True, [c]) for n, c in goals] + [(n, c, False, None) for n, c in dgoals]
    for name, smt_goal, is_ensure, groots in items:
        o = Ob("%s.%s" % (base, name), "smt", "complete", meta["func"], meta["desc"] + " [" + name + "]")
        q = ctx.query(smt_goal, groots)
        v, solver, dt, out, qpath = solve(q, timeout=timeout, tag=o.id)
        o.time = dt; o.backend = solver
        o.extra = {"smt_file": qpath, "path_mode": mode}
        if v == "unsat":
            o.status = DISCHARGED
            if is_ensure and name.startswith("ensure.lemma."):
                # a discharged cut point becomes a premise of the later obligations of this path
                if not hasattr(ctx, "proven_lemmas"): ctx.proven_lemmas = []
                ctx.proven_lemmas.append(smt_goal)
        elif v == "sat":
            # counterexample search with the property's floating point tolerance, then replay on the real code
            ctx2 = Ctx(rec, tol_mode="float")
            for r in roots: ctx2.t(r)
            for c in rec["assumes"]: ctx2.t(c)
            g2 = ctx2.t(dict(goals)[name[7:]]) if is_ensure else smt_goal
            if not is_ensure:
                dg2 = dict(ctx2.definedness([c for _, c in rec["outputs"]]))
                g2 = dg2.get(name, smt_goal)
            q2 = ctx2.query(g2)
            names = [n for n, _, _, _ in rec["vars"]]
            confirmed = None; transcripts = []
            block = []
            for attempt in range(6):
                qq = q2.replace("(check-sat)\n", "".join(block) + "(check-sat)\n")
                v2, s2, dt2, out2, qp2 = solve(qq, timeout=timeout, want_model=True, tag=o.id + ".cex%d" % attempt)
                if v2 != "sat": break
                model = parse_model(out2, names)
                if any(x is None for x in model.values()):
                    # irrational model value: perturb by asking for rationals is not possible -> stop
                    transcripts.append("model with non-rational component: %s" % {k: str(v) for k, v in model.items()})
                    break
                ok, tr, ty = replay(prog, model, name[7:] if is_ensure else "__definedness__")
                transcripts += tr
                if not is_ensure:
                    # definedness: reproduced if the real code yields a non-finite output or panics
                    rc, outp, _ = run([SBIN, "--eval", prog, "f64"] + ["%s=%r" % (k, float(x)) for k, x in model.items()], timeout=60)
                    nonfinite = any(("NaN" in l or "inf" in l) for l in outp.splitlines() if l.startswith("OUTPUT")) or "PANIC" in outp
                    ok = nonfinite and "ASSUME-FAILED" not in outp
                    transcripts.append(outp.strip().replace("\n", " | "))
                if ok:
                    confirmed = (model, ty); break
                # block this point's neighbourhood and ask for another model
                block.append("(assert (not (and %s)))\n" % " ".join("(= v_%s %s)" % (re.sub(r"[^A-Za-z0-9_]", "_", k), rat(x)) for k, x in model.items()))
            if confirmed:
                o.status = FAILED
                o.detail = "counterexample replayed on the real code (%s): %s" % (confirmed[1], {k: float(x) for k, x in confirmed[0].items()})
                o.replay = write_replay(prop, o, {"program": prog, "mode": mode, "path": path, "ensure": name,
                                                  "model": {k: str(x) for k, x in confirmed[0].items()},
                                                  "model_f64": {k: float(x) for k, x in confirmed[0].items()},
                                                  "replay_cmd": "%s --eval %s f64 %s" % (SBIN, prog, " ".join("%s=%r" % (k, float(x)) for k, x in confirmed[0].items())),
                                                  "transcript": transcripts, "smt_file": qpath})
            else:
                w = (witness_replay(ctx, rec, prog, name[7:]) or lattice_witness(rec, prog, name[7:])) if is_ensure else None
                if w:
                    o.status = FAILED
                    o.detail = "not discharged, and a witness of the path condition violates the contract on the real code (%s): %s" % (w[1], {k: float(x) for k, x in w[0].items()})
                    o.replay = write_replay(prop, o, {"program": prog, "mode": mode, "path": path, "ensure": name, "model_f64": {k: float(x) for k, x in w[0].items()},
                                                      "replay_cmd": "%s --eval %s f64 %s" % (SBIN, prog, " ".join("%s=%r" % (k, float(x)) for k, x in w[0].items())),
                                                      "transcript": w[2], "smt_file": qpath, "note": "input = a model of the path condition (the solver's own counterexample did not reproduce)"})
                else:
                    o.status = UNDECIDED
                    o.detail = "solver model does not reproduce on the real code within the property's floating point tolerance (undecided, not an alarm): " + " ; ".join(transcripts)[:500]
        else:
            w = (witness_replay(ctx, rec, prog, name[7:]) or lattice_witness(rec, prog, name[7:])) if is_ensure else None
            if w:
                o.status = FAILED
                o.detail = "not discharged (%s), and a witness of the path condition violates the contract on the real code (%s): %s" % (out[:40], w[1], {k: float(x) for k, x in w[0].items()})
                o.replay = write_replay(prop, o, {"program": prog, "mode": mode, "path": path, "ensure": name, "model_f64": {k: float(x) for k, x in w[0].items()},
                                                  "replay_cmd": "%s --eval %s f64 %s" % (SBIN, prog, " ".join("%s=%r" % (k, float(x)) for k, x in w[0].items())),
                                                  "transcript": w[2], "smt_file": qpath, "note": "input = a model of the path condition (solver verdict on the VC: %s)" % out[:60]})
            else:
                o.status = UNDECIDED
                o.detail = "solver portfolio: %s" % out[:100]
        obs.append(o)
    # identity obligations: syntactic
    for name, a, b in rec["identical"]:
        o = Ob("%s.identical.%s" % (base, name), "term-identity", "complete", meta["func"], meta["desc"] + " [identical." + name + "]")
        o.backend = "hash-consed term identity"
        if a == b:
            o.status = DISCHARGED
        else:
            q = ctx.query("(= %s %s)" % (ctx.t(a), ctx.t(b)))
            v, solver, dt, out, qpath = solve(q, timeout=timeout, tag=o.id)
            o.time = dt
            if v == "unsat":
                # equal over the reals but not the same operations (beyond the order of the operands of + and *): bit-identity
                # is not established. That alone is NOT a violation: only an input on which the real code gives different
                # bits is (boundary lattice, replayed); without one the obligation is undecided.
                o.status = UNDECIDED
                o.detail = "the two results are equal over the reals but are computed by different operation sequences; bit-identical results are not established and no distinguishing input was found"
                lw = lattice_witness(rec, prog, name)
                if lw is not None:
                    m, ty, tr = lw
                    o.status = FAILED; o.no_input = False
                    o.detail = "different operation sequences, and the real code gives different bits on a lattice point of the domain (%s): %s" % (ty, {k: float(x) for k, x in m.items()})
                    o.replay = write_replay(prop, o, {"program": prog, "identical": name, "model_f64": {k: float(x) for k, x in m.items()},
                                                      "replay_cmd": "%s --eval %s f64 %s" % (SBIN, prog, " ".join("%s=%r" % (k, float(x)) for k, x in m.items())), "transcript": tr})
            elif v == "sat":
                o.status = FAILED; o.no_input = True
                o.detail = "the two results differ (different terms, SMT finds a distinguishing point)"
                names = [n for n, _, _, _ in rec["vars"]]
                v2, s2, dt2, out2, qp2 = solve(q, timeout=timeout, want_model=True, tag=o.id + ".cex")
                if v2 == "sat":
                    model = parse_model(out2, names)
                    if all(x is not None for x in model.values()):
                        ok, tr, ty = replay(prog, model, name)
                        if ok:
                            o.no_input = False
                            o.replay = write_replay(prop, o, {"program": prog, "identical": name, "model_f64": {k: float(x) for k, x in model.items()},
                                                              "replay_cmd": "%s --eval %s f64 %s" % (SBIN, prog, " ".join("%s=%r" % (k, float(x)) for k, x in model.items())),
                                                              "transcript": tr})
            else:
                o.status = UNDECIDED; o.detail = "terms differ syntactically and the solver could not decide their equality"
            if o.status == FAILED and o.no_input:
                # the solver's point did not reproduce on the real code: try the boundary lattice; a difference that no input
                # of the real code shows is undecided, not an alarm
                lw = lattice_witness(rec, prog, name)
                if lw is not None:
                    m, ty, tr = lw
                    o.no_input = False
                    o.replay = write_replay(prop, o, {"program": prog, "identical": name, "model_f64": {k: float(x) for k, x in m.items()},
                                                      "replay_cmd": "%s --eval %s f64 %s" % (SBIN, prog, " ".join("%s=%r" % (k, float(x)) for k, x in m.items())), "transcript": tr})
                else:
                    o.status = UNDECIDED; o.no_input = False
                    o.detail += " - but neither that point nor any lattice point of the domain reproduces a difference on the real code (undecided, not an alarm)"
        obs.append(o)
    return obs, {"feasible": True if feasible_known else None, "path": base}



def run_lattice_program(prop, m, budget=60000):
    """bounded stand-in (mode l): the real code, natively in f64, on a lattice of the declared domain"""
    import itertools
    rc, out, dt = run([SBIN, "--vars", m["prog"]], timeout=120)
    vs = [(l.split()[1], float(l.split()[2]), float(l.split()[3])) for l in out.splitlines() if l.startswith("VAR ")]
    if not vs:
        o = Ob("S.%s.lattice" % m["prog"], "native-lattice", "bounded(lattice)", m["func"], m["desc"]); o.detail = "program declares no variables / does not run natively: " + out[-200:]
        return [o]
    g = max(5, min(48, int(budget ** (1.0 / len(vs)))))
    axes = []
    for n, lo, hi in vs:
        pts = set([lo, hi] + [lo + (hi - lo) * i / (g - 1) for i in range(g)])
        if lo < 0 < hi: pts.add(0.0)
        # the positions just inside the bounds (the property's 'one billionth of the range away')
        pts.add(lo + (hi - lo) * 1e-9); pts.add(hi - (hi - lo) * 1e-9)
        axes.append(sorted(pts))
    pts = list(itertools.product(*axes))
    lines = "\n".join(" ".join("%s=%r" % (vs[i][0], p[i]) for i in range(len(vs))) for p in pts) + "\n"
    t0 = time.time()
    rc, out, dt = run([SBIN, "--eval-batch", m["prog"], "f64"], timeout=1200, input=lines)
    bad, evaluated = {}, 0
    for l in out.splitlines():
        if not l.startswith("R "): continue
        _, idx, names = l.split(" ", 2)
        if names == "skip": continue
        evaluated += 1
        if names == "-": continue
        for nm in names.split(","): bad.setdefault(nm, []).append(pts[int(idx)])
    # the ensure names: from one evaluation at the centre
    rc2, out2, _ = run([SBIN, "--eval", m["prog"], "f64"] + ["%s=%r" % (n, (lo + hi) / 2) for n, lo, hi in vs], timeout=60)
    ens = [l.split()[1] for l in out2.splitlines() if l.startswith("ENSURE ")]
    label = "bounded(lattice: %d points, %d per variable incl. bounds, zero and 1e-9 inside the bounds; f64)" % (len(pts), len(axes[0]))
    obs = []
    if evaluated == 0 or not ens:
        o = Ob("S.%s.lattice" % m["prog"], "native-lattice", label, m["func"], m["desc"]); o.detail = "no lattice point was evaluated (vacuity guard): " + out[-200:]
        return [o]
    for nm in ens + (["PANIC"] if "PANIC" in bad else []):
        o = Ob("S.%s.lattice.%s" % (m["prog"], nm), "native-lattice", label, m["func"], m["desc"] + " [" + nm + "]")
        o.backend = "native execution of the real code (pv_sym --eval-batch)"; o.time = (time.time() - t0) / max(1, len(ens))
        o.extra = {"points": len(pts), "evaluated": evaluated}
        if nm in bad:
            p = bad[nm][0]
            model = {vs[i][0]: p[i] for i in range(len(vs))}
            o.status = FAILED
            o.detail = "the real code violates the contract at lattice point %s (%d of %d points)" % (model, len(bad[nm]), evaluated)
            o.replay = write_replay(prop, o, {"program": m["prog"], "ensure": nm, "model_f64": model, "violating_points": len(bad[nm]),
                                              "replay_cmd": "%s --eval %s f64 %s" % (SBIN, m["prog"], " ".join("%s=%r" % kv for kv in model.items()))})
        else:
            o.status = DISCHARGED
        obs.append(o)
    return obs


def run_property(prop, tier, timeout=20, jobs=14, select=None):
    rc, out, dt = build()
    if rc != 0:
        o = Ob("S.build", "smt", "complete", "sym crate", "build of the term-extraction crate against /repo")
        o.detail = "the extraction crate does not compile against the current /repo tree (undecided):\n" + out[-1500:]
        return [o], ["cargo build (failed)"], {"build": "failed"}
    rc, out, dt = run([SBIN, "--list"])
    metas = [json.loads(l) for l in out.splitlines() if l.startswith("{")]
    metas = [m for m in metas if prop in m["prop"].split(",") and (tier == "thorough" or m["tier"] == "quick")]
    if select: metas = [m for m in metas if select(m)]
    obs = []
    tasks = []
    stats = {"programs": len(metas), "paths": 0, "infeasible_paths": 0, "feasible_paths": 0}
    lattice_metas = [m for m in metas if m.get("modes", "SV") == ""]
    metas = [m for m in metas if m.get("modes", "SV") != ""]
    for m in lattice_metas:
        obs += run_lattice_program(prop, m)
    for m in metas:
        rc, out, dt = run([SBIN, "--dump", m["prog"]], timeout=600)
        recs = []
        err = None
        for l in out.splitlines():
            if not l.startswith("{"): continue
            try:
                r = json.loads(l)
            except Exception as ex:
                err = "unparsable dump line: %s" % ex; continue
            if "error" in r: err = r["error"]; continue
            recs.append(r)
        if err or not recs:
            o = Ob("S.%s.extract" % m["prog"], "smt", "complete", m["func"], m["desc"])
            o.detail = "term extraction failed (undecided): %s %s" % (err, out[-300:])
            obs.append(o); continue
        for r in recs:
            tasks.append((m, r))
    stats["paths"] = len(tasks)
    def work(t):
        m, r = t
        try:
            return check_path(prop, m["prog"], m, r, timeout)
        except Exception as ex:
            o = Ob("S.%s.%s%d.internal" % (m["prog"], r["mode"], r["path"]), "smt", "complete", m["func"], m["desc"])
            o.detail = "driver error: %r" % ex
            return [o], {"feasible": None}
    with ThreadPoolExecutor(max_workers=jobs) as ex:
        for res, st in ex.map(work, tasks):
            obs += res
            if st.get("feasible") is False: stats["infeasible_paths"] += 1
            else: stats["feasible_paths"] += 1
    # vacuity: every program must have at least one feasible path
    by_prog = {}
    for o in obs:
        by_prog.setdefault(o.id.split(".")[1], 0)
        by_prog[o.id.split(".")[1]] += 1
    for m in metas:
        if by_prog.get(m["prog"], 0) == 0:
            o = Ob("S.%s.vacuity" % m["prog"], "smt", "complete", m["func"], m["desc"])
            o.detail = "no feasible path / no obligation generated for this program (vacuity guard)"
            obs.append(o)
    return obs, ["%s --dump <prog> | z3 -T:%d (then cvc5, z3-new)" % (SBIN, timeout)], stats
