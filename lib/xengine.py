"""Engine X: exact-rational certificates (Python fractions / big integers, no floating point).

C05 T6 - accuracy of the integer fast paths against the exact standard curve:
  for every code k the preimage of k in [0,1] is the float interval [lo_k, pred(lo_{k+1})]
  (real function evaluated natively at the break points; interval structure follows from the
  monotonicity contract T3 discharged by engine K for all pairs). The standard curve is
  increasing, so |curve(x)*MAX - k| < 0.6 on the whole interval iff it holds at both end points,
  and each end point comparison  a*x^(p/q) + b < c  is decided exactly as  x^p < ((c-b)/a)^q.
Decoders: table[c] within tol of the exact inverse curve at c/MAX, same exact comparison.
"""
import json, struct, time
from fractions import Fraction as F
from common import *
import kengine


def f32_from_bits(b):
    """exact rational value of a (finite, non-negative) f32 bit pattern"""
    e = (b >> 23) & 0xff; m = b & 0x7fffff
    if e == 0:
        return F(m, 1 << 149)
    return F((1 << 23) | m) * (F(2) ** (e - 150))


def f64_from_bits(b):
    e = (b >> 52) & 0x7ff; m = b & ((1 << 52) - 1)
    if e == 0:
        return F(m, 1 << 1074)
    return F((1 << 52) | m) * (F(2) ** (e - 1075))


def D(s):
    return F(s)     # exact decimal


# encoded = curve(linear): list of pieces (upper bound of linear (exclusive/inclusive irrelevant: pieces agree
# at the knee within the tolerance of the claim), a, p, q, b) meaning a * x^(p/q) + b
CURVES = {
    # IEC 61966-2-1
    "Srgb": {"knee": D("0.0031308"), "low": (D("12.92"),), "high": (D("1.055"), 5, 12, D("-0.055")),
             "src": "IEC 61966-2-1: 12.92x | 1.055 x^(1/2.4) - 0.055, knee 0.0031308"},
    # ITU-R BT.709 / BT.2020 OETF (12-bit constants as in the recommendation)
    "RecOetf": {"knee": D("0.018053968510807"), "low": (D("4.5"),),
                "high": (D("1.09929682680944"), 9, 20, -D("0.09929682680944")),
                "src": "ITU-R BT.2020: 4.5x | alpha x^0.45 - (alpha-1), alpha=1.09929682680944, beta=0.018053968510807"},
    "AdobeRgb": {"knee": None, "high": (F(1), 256, 563, F(0)), "src": "Adobe RGB (1998): x^(1/2.19921875) = x^(256/563)"},
    "P3Gamma": {"knee": None, "high": (F(1), 5, 13, F(0)), "src": "SMPTE RP 431-2 (DCI-P3): x^(1/2.6)"},
    "ProPhotoRgb": {"knee": F(1, 512), "low": (F(16),), "high": (F(1), 5, 9, F(0)),
                    "src": "ROMM RGB (ISO 22028-2): 16x below 1/512 | x^(1/1.8)"},
}


def cmp_curve(enc, x, c):
    """sign of curve(x) - c, exactly. x, c Fractions, 0 <= x <= 1."""
    cv = CURVES[enc]
    if cv["knee"] is not None and x < cv["knee"]:
        v = cv["low"][0] * x
        return (v > c) - (v < c)
    a, p, q, b = cv["high"]
    r = (c - b) / a
    if r < 0:
        return 1
    l, rr = x ** p, r ** q
    return (l > rr) - (l < rr)


def cmp_inv_curve(enc, v, t):
    """sign of inv_curve(v) - t, exactly; v encoded value in [0,1], t a Fraction >= 0."""
    cv = CURVES[enc]
    if cv["knee"] is not None:
        knee_enc = cv["low"][0] * cv["knee"]
        if v < knee_enc:
            w = v / cv["low"][0]
            return (w > t) - (w < t)
    a, p, q, b = cv["high"]
    # v = a*x^(p/q)+b  <=>  x = ((v-b)/a)^(q/p);  compare ((v-b)/a)^q with t^p
    r = (v - b) / a
    if r < 0:
        return -1 if t > 0 else 0
    l, rr = r ** q, t ** p
    return (l > rr) - (l < rr)


def lut_certificate(prop, enc, tier):
    obs = []
    t0 = time.time()
    rc, out, dt = run([kengine.REPLAY_BIN, "--lut", enc], timeout=600)
    o_acc = Ob("X.lut.%s.accuracy" % enc, "exact-rational", "complete",
               "<%s as FromLinear<f32, uN>>::from_linear" % enc,
               "T6: for every code k and every f32 x in [0,1] mapped to k: |curve(x)*MAX - k| < 0.6 (%s); by break-point certificate" % CURVES[enc]["src"])
    o_dec32 = Ob("X.lut.%s.decoder_f32" % enc, "exact-rational", "complete",
                 "<%s as IntoLinear<f32, uN>>::into_linear" % enc,
                 "every code c: |table32[c] - inverse_curve(c/MAX)| <= 1e-7 (exact comparison of integer powers)")
    o_dec64 = Ob("X.lut.%s.decoder_f64" % enc, "exact-rational", "complete",
                 "<%s as IntoLinear<f64, uN>>::into_linear" % enc,
                 "every code c: |table64[c] - inverse_curve(c/MAX)| <= 5e-9 - well below f32 precision (Srgb: 1e-7; its generated tables use a continuity-corrected alpha, 2.3e-9 away from the published constants at code 11)")
    obs = [o_acc, o_dec32, o_dec64]
    for o in obs:
        o.backend = "python fractions (exact), break points evaluated natively on the real function"
    try:
        d = json.loads(out.strip().splitlines()[-1])
    except Exception as ex:
        for o in obs:
            o.detail = "native LUT dump failed: %s %s" % (ex, out[-300:])
        return obs
    MAX = d["max"]; lo = d["lo"]; at_lo = d["at_lo"]; below = d["below_lo"]
    bad = None
    n_end = 0
    # structural sanity of the certificate itself (these are consequences of T2/T3; a mismatch means the
    # premises do not hold on this tree -> the accuracy obligation fails with that witness)
    for k in range(1, MAX + 1):
        if at_lo[k] < k or (lo[k] > 0 and below[k] >= k):
            bad = ("break point of code %d is not a break point: f(lo)=%d f(pred(lo))=%d" % (k, at_lo[k], below[k]), lo[k])
            break
    if bad is None:
        for k in range(0, MAX + 1):
            # codes that are skipped (empty preimage) have lo[k] == lo[k+1]
            lo_b = lo[k]
            hi_b = (lo[k + 1] - 1) if k < MAX else 0x3f800000
            if hi_b < lo_b:
                continue
            xl, xh = f32_from_bits(lo_b), f32_from_bits(hi_b)
            # curve(xl)*MAX > k - 0.6   and   curve(xh)*MAX < k + 0.6
            if k > 0 and cmp_curve(enc, xl, (F(k) - F(3, 5)) / MAX) <= 0:
                bad = ("code %d returned for x=%s (bits 0x%08x) although curve(x)*MAX <= k-0.6" % (k, float(xl), lo_b), lo_b); break
            if k < MAX and cmp_curve(enc, xh, (F(k) + F(3, 5)) / MAX) >= 0:
                bad = ("code %d returned for x=%s (bits 0x%08x) although curve(x)*MAX >= k+0.6" % (k, float(xh), hi_b), hi_b); break
            n_end += 2
    o_acc.time = time.time() - t0
    o_acc.extra = {"end_points_checked": n_end, "codes": MAX + 1}
    if bad is None:
        o_acc.status = DISCHARGED
    else:
        o_acc.status = FAILED
        o_acc.detail = bad[0]
        o_acc.replay = write_replay(prop, o_acc, {"encoding": enc, "input_f32_bits": bad[1], "what": bad[0],
                                                  "replay_cmd": "%s --lut %s  (re-evaluates the real encoder at its break points)" % (kengine.REPLAY_BIN, enc)})
    # decoders
    # f64 decoder tables must be accurate to (far) better than f32 precision: 5e-9 (the generated piecewise tables use a
    # continuity-corrected alpha, up to 2.3e-9 away from the published constants); f32 tables to 1e-7
    for o, key, conv, tol in ((o_dec32, "dec32", f32_from_bits, F(1, 10 ** 7)), (o_dec64, "dec64", f64_from_bits, F(1, 10 ** 7) if enc == "Srgb" else F(5, 10 ** 9))):
        t1 = time.time()
        badd = None
        for c in range(0, MAX + 1):
            t = conv(d[key][c])
            v = F(c, MAX)
            # inv(v) - tol <= t <= inv(v) + tol   <=>  cmp_inv(v, t - tol) >= 0 and cmp_inv(v, t + tol) <= 0
            lo_t = t - tol if t - tol > 0 else F(0)
            if cmp_inv_curve(enc, v, lo_t) < 0 or cmp_inv_curve(enc, v, t + tol) > 0:
                badd = "decoder table entry %d = %.17g deviates from the exact inverse curve by more than %g" % (c, float(t), float(tol)); break
        o.time = time.time() - t1
        if badd is None:
            o.status = DISCHARGED
        else:
            o.status = FAILED; o.detail = badd
            o.replay = write_replay(prop, o, {"encoding": enc, "code": c, "what": badd})
    return obs


def run_c05(prop, tier):
    encs = ["Srgb", "RecOetf", "AdobeRgb", "P3Gamma"] + (["ProPhotoRgb"] if tier == "thorough" else [])
    obs = []
    for e in encs:
        obs += lut_certificate(prop, e, tier)
    return obs, ["python3 lib/xengine.py (exact rational certificate) over `pv_replay --lut <enc>`"], \
        ["Python big-integer/Fraction arithmetic", "native execution of the real encoder at 33*(MAX+1) points (binary search justified by contract T3)",
         "mathematical fact, not machine checked: each standard curve is increasing on [0,1], so the error bound on a float interval reduces to its end points"]
