"""Per-property check definitions: which engines run, what is assumed, what stays undecided."""
import os, sys, time, json
from common import *
import kengine

M1 = "M1: engine S treats machine arithmetic as real arithmetic (no rounding, NaN, infinities, subnormals, signed zero)"

NOT_BUILT = {}

PROPS = {
    "C05": {
        "engines": ["K", "X"],
        "k": {"jobs": 14, "timeout": 600},
        "technique": "contract-based deductive verification: Kani/CBMC contracts over every f32 bit pattern for the LUT encoders (incl. the unsafe table read), exact-rational break-point certificates for accuracy",
        "level_text": "todo",
        "level_note": "todo",
        "assumptions": [],
    },
    "C06": {
        "engines": ["K"],
        "k": {"jobs": 14, "timeout": 600},
        "technique": "contract-based deductive verification: Kani/CBMC single-call contracts against spec expressions over the full bit domain of every source format",
        "level_text": "Each of the 42 IntoStimulus impls is under a single-call contract against a spec expression taken from the property (saturation at both ends incl. -inf/+inf/NaN, ties-to-even nearest integer of the once-rounded product, 0->0, MAX->1.0/MAX, bit replication, monotonicity, round trips), discharged by CBMC over the FULL bit domain of the source format (all f32/f64 patterns, all u8..u128 values; all ordered pairs for the relational clauses). into_format/from_format forwarding on Rgb/Alpha/Luma is a component-wise equality contract.",
        "level_note": "Trusted: Kani MIR translation, CBMC IEEE-754 encoding. Quick tier = the obligations finishing within ~4 min; the f64-division-heavy ones (u32->u16, u64->u16/u32, u128->u16/u32 narrowing, u32 round trips through u64/u128/f64, f64->u32) are registered in thorough only if they discharge within the harness timeout, otherwise listed as not decided. Monotonicity for f64 sources is the lemma 'composition of monotone correctly rounded operations' over the discharged single-call spec equality (IEEE monotonicity of x*c, min, max, round-to-nearest assumed). Four genuine defects found here were repaired (known_findings.json).",
        "assumptions": ["f64-source monotonicity: lemma over the spec (y == rne(clamp(fl(x*MAX),0,MAX))), relying on IEEE-754 monotonicity of multiplication by a positive constant, min/max and round-to-nearest-even"],
        "not_decided": ["thorough-only obligations that exceed the harness timeout are dropped from the table rather than left flaky; see DESIGN.md C06"],
    },
    "C03": {
        "engines": ["K"],
        "technique": "contract-based deductive verification: Kani/CBMC function contracts (assume requires, call the real function, assert ensures) over the full bit domain; modular blanket-impl proof against callee contracts",
        "level_text": "Every Clamp/ClampAssign/IsWithinBounds implementor is put under the contract B1-B6 (within after clamp, identity inside, idempotent, documented accessor bounds, assign == by-value) and discharged bit-precisely for ALL finite f32 (thorough: f64) component combinations, each field independently; the FromColor/TryFromColor blanket impls are proved against arbitrary callee results. Loop-free full-domain harnesses are complete proofs, not samples.",
        "level_note": "Trusted: Kani's MIR translation and CBMC's IEEE-754 encoding/SAT solver. Slice forms are bounded(len<=4; thorough 8). HWB clamp_assign==clamp is not within Kani's reach (f32 divisions) and is listed as such. Two genuine HWB clamp defects found by this check were repaired (known_findings.json).",
        "k": {"jobs": 14, "timeout": 600},
        "assumptions": [
            "Alpha<C, f32>::is_within_bounds cannot be instantiated (its impl demands f32: IsWithinBounds, which no primitive satisfies); 'within bounds' of Alpha values is stated through the colour part and the alpha range",
            "HWB B3 (idempotence) in the quick tier is the lemma B1 & B2 ==> B3 over the two discharged contracts; it is discharged directly in the thorough tier",
            "HWB/Okhwb B5 (clamp_assign == clamp) is not discharged by Kani (4 f32 divisions, >15 min); see engine S term identity",
            "hue fields are symbolic finite floats; NaN/inf components are outside the property's quantifier (finite components)",
        ],
        "not_decided": ["conversions feeding FromColor/TryFromColor are covered at contract level (blanket impl over arbitrary callee results) and for one real arithmetic-only pair; transcendental conversions are not executed in Kani"],
    },
}


def check(prop, tier, seed):
    t0 = time.time()
    if prop not in PROPS:
        print("property %s is not claimed by this framework (see MANIFEST.json not_applicable)" % prop)
        return 2
    cfg = PROPS[prop]
    obs, cmds, vac, trusted = [], [], {}, []
    if "K" in cfg["engines"]:
        k = cfg.get("k", {})
        o, c, v, log = kengine.run_property(prop, tier, jobs=int(os.environ.get("VERIF_KJOBS", k.get("jobs", 12))), harness_timeout=int(os.environ.get("VERIF_KTIMEOUT", k.get("timeout", 600))))
        obs += o; cmds += c; vac["kani"] = v; trusted += kengine.TRUSTED
        os.makedirs(os.path.join(BUILD, "logs"), exist_ok=True)
        open(os.path.join(BUILD, "logs", "%s-kani.log" % prop), "w").write(log)
    if "X" in cfg["engines"]:
        import xengine
        if any(o.id == "K.build" for o in obs):
            pass
        else:
            o, c, tb = xengine.run_c05(prop, tier)
            obs += o; cmds += c; trusted += tb
    return finish(prop, tier, seed, obs, t0, cmds, trusted, cfg.get("assumptions", []),
                  vacuity=vac, not_decided=cfg.get("not_decided"))


def replay(prop, path):
    d = json.load(open(path))
    if d.get("engine") == "kani":
        return kengine.replay_file(path)
    print("no replay procedure for engine %s" % d.get("engine"))
    return 2
