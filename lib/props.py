"""Per-property check definitions: which engines run, what is assumed, what stays undecided."""
import os, sys, time, json
from common import *
import kengine

M1 = "M1: engine S treats machine arithmetic as real arithmetic (no rounding, NaN, infinities, subnormals, signed zero)"

NOT_BUILT = {}

PROPS = {
    "C05": {
        "engines": ["K", "X"],
        "k": {"jobs": 14, "timeout": 600},
        "technique": "contract-based deductive verification: Kani/CBMC contracts over every f32 bit pattern for the LUT encoders (incl. the unsafe table read), exact-rational break-point certificates for accuracy",
        "level_text": 'Every integer fast path (Srgb, RecOetf, AdobeRgb, P3Gamma u8; ProPhoto u16 with gamma_lut_u16) is under contract T1-T5 discharged by CBMC for EVERY f32 bit pattern (NaN, infinities, negatives): the unsafe table read is in bounds (Kani checks the get_unchecked precondition itself), saturation at both ends, monotone for all ordered pairs, decode-then-encode identity for every code, f64 entry == f32 entry. Accuracy (<0.6 code from the exact standard curve) and the decoder tables are discharged by an exact-rational break-point certificate built on the proven monotonicity.',
        "level_note": 'Trusted: Kani/CBMC; Python big-integer arithmetic; the mathematical fact that each standard curve is increasing (reduces the error bound on a float interval to its end points). ProPhoto u16 monotone/decode-encode/f64-entry are thorough-tier only and currently exceed the harness timeout (not counted). Generic float curves (IntoLinear<T,T>/FromLinear<T,T>) are engine S obligations (inverse, == standard curve, monotone per segment, knee step).',
        "assumptions": ['decoder tables are compared with the published curve to 1e-7: the generated tables use a continuity-corrected alpha that differs from the published constants by 2.3e-9 at code 11'],
        "not_decided": ['table generator (codegen/) is not verified; the generated tables are, through T1-T6', 'ProPhoto u16 relational obligations (CBMC timeout)'],
    },
    "C11": {
        "engines": ["K"],
        "k": {"jobs": 14, "timeout": 600},
        "technique": "contract-based deductive verification: Kani/CBMC contracts over every f32 angle with |x| <= 2^20 for normalisation, congruence, equality, accessors and the 8-bit mapping",
        "level_text": 'For each of the five hue types the normalisation, accessor and conversion functions are under contracts discharged by CBMC for EVERY f32 angle with |x| <= 2^20: both normal forms in range and congruent to the stored angle modulo 360 (within the rounding error of the stored angle, checked in exact f64 arithmetic), every signed accessor (into_degrees, f32::from, f64::from, into_radians) under the same contract, raw/radian accessors and Add/Sub bitwise, float->u8 == nearest code with 256->0, all 256 8-bit hues round trip.',
        "level_note": "Trusted: Kani/CBMC. Equality under whole turns (E1) and its converse (E2) are full-domain only in the thorough tier (CBMC needs >10 min); the quick tier runs them on |angle| <= 2048, labelled bounded and not counted as proved. f64: single-call obligations only. from_cartesian/into_cartesian (atan2, sin_cos) are outside CBMC's reach and are engine S obligations under M1.",
        "assumptions": ["E1's premise 'b == a + 360n exactly' is stated with both the f64 sum and the f64 difference being exact (a rounded f64 sum can coincide with an f32 when |a| is tiny)"],
        "not_decided": ['cartesian round trip in floating point (transcendental functions)', 'f64 relational obligations'],
    },
    "C12": {
        "engines": ["K"],
        "k": {"jobs": 12, "timeout": 600},
        "technique": "contract-based deductive verification: Kani/CBMC contracts for packing over all 2^32 values, parse strictness/totality against a well-formedness spec, format->parse round trip over all 8-bit colours, the published name table",
        "level_text": "Packing/unpacking is under contract for all 2^32 packed values x 4 RGBA orders (+2 luma orders): both round trips and every channel at its documented big-endian byte position, From<u32> ARGB/RGBA. Parsing is under a strictness+totality contract against an independent well-formedness spec (optional '#', exactly the documented digit counts of ASCII hex digits) for all ASCII strings within the stated length bound and all strings of up to 3 arbitrary Unicode scalar values (multi-byte included); format->parse round trip for all 2^24 Rgb<u8> and 2^32 Rgba<u8> colours through the real core::fmt code; all published (name, colour) pairs re-derived from svg_colors.txt are found and the map holds nothing else.",
        "level_note": "Trusted: Kani/CBMC incl. its handling of core::fmt and from_str_radix loops (fully unwound, unwinding assertions on). String obligations are bounded(length) - lengths above the bound only reach the `_ => Err` arm, which the bounded run covers for the lengths just above every accepted short form; long (12/16/24/32 digit) forms of the wide types are beyond the quick bound. phf's get is executed symbolically for concrete names only; 'nothing else is found' relies on entries().count() plus phf::Map::get returning only stored entries (dependency contract).",
        "assumptions": [],
        "not_decided": ['16/32-bit format->parse round trips (core::fmt on u32 exceeds the budget)', 'long hex forms of u16/u32/f32/f64 component types in the quick tier'],
    },
    "C06": {
        "engines": ["K"],
        "k": {"jobs": 14, "timeout": 600, "timeout_thorough": 3600},
        "technique": "contract-based deductive verification: Kani/CBMC single-call contracts against spec expressions over the full bit domain of every source format",
        "level_text": "Each of the 42 IntoStimulus impls is under a single-call contract against a spec expression taken from the property (saturation at both ends incl. -inf/+inf/NaN, ties-to-even nearest integer of the once-rounded product, 0->0, MAX->1.0/MAX, bit replication, monotonicity, round trips), discharged by CBMC over the FULL bit domain of the source format (all f32/f64 patterns, all u8..u128 values; all ordered pairs for the relational clauses). into_format/from_format forwarding on Rgb/Alpha/Luma is a component-wise equality contract.",
        "level_note": "Trusted: Kani MIR translation, CBMC IEEE-754 encoding. Quick tier = the obligations finishing within ~4 min; the f64-division-heavy ones (u32->u16, u64->u16/u32, u128->u16/u32 narrowing, u32 round trips through u64/u128/f64, f64->u32) are registered in thorough only if they discharge within the harness timeout, otherwise listed as not decided. Monotonicity for f64 sources is the lemma 'composition of monotone correctly rounded operations' over the discharged single-call spec equality (IEEE monotonicity of x*c, min, max, round-to-nearest assumed). Four genuine defects found here were repaired (known_findings.json).",
        "assumptions": ["f64-source monotonicity: lemma over the spec (y == rne(clamp(fl(x*MAX),0,MAX))), relying on IEEE-754 monotonicity of multiplication by a positive constant, min/max and round-to-nearest-even"],
        "not_decided": ["f64->u32 nearest-integer clause, and monotonicity/end points of u64->u16, u64->u32, u128->u16, u128->u32: CBMC did not finish in 1500 s; not registered (same macro arms as discharged neighbours)"],
    },
    "C03": {
        "engines": ["K"],
        "technique": "contract-based deductive verification: Kani/CBMC function contracts (assume requires, call the real function, assert ensures) over the full bit domain; modular blanket-impl proof against callee contracts",
        "level_text": "Every Clamp/ClampAssign/IsWithinBounds implementor is put under the contract B1-B6 (within after clamp, identity inside, idempotent, documented accessor bounds, assign == by-value) and discharged bit-precisely for ALL finite f32 (thorough: f64) component combinations, each field independently; the FromColor/TryFromColor blanket impls are proved against arbitrary callee results. Loop-free full-domain harnesses are complete proofs, not samples.",
        "level_note": "Trusted: Kani's MIR translation and CBMC's IEEE-754 encoding/SAT solver. Slice forms are bounded(len<=4; thorough 8). HWB clamp_assign==clamp is not within Kani's reach (f32 divisions) and is listed as such. Two genuine HWB clamp defects found by this check were repaired (known_findings.json).",
        "k": {"jobs": 14, "timeout": 600},
        "assumptions": [
            "Alpha<C, f32>::is_within_bounds cannot be instantiated (its impl demands f32: IsWithinBounds, which no primitive satisfies); 'within bounds' of Alpha values is stated through the colour part and the alpha range",
            "HWB B3 (idempotence) in the quick tier is the lemma B1 & B2 ==> B3 over the two discharged contracts; it is discharged directly in the thorough tier",
            "HWB/Okhwb B5 (clamp_assign == clamp) is not discharged by Kani (4 f32 divisions, >15 min); see engine S term identity",
            "hue fields are symbolic finite floats; NaN/inf components are outside the property's quantifier (finite components)",
        ],
        "not_decided": ["conversions feeding FromColor/TryFromColor are covered at contract level (blanket impl over arbitrary callee results) and for one real arithmetic-only pair; transcendental conversions are not executed in Kani"],
    },
}


def check(prop, tier, seed):
    t0 = time.time()
    if prop not in PROPS:
        print("property %s is not claimed by this framework (see MANIFEST.json not_applicable)" % prop)
        return 2
    cfg = PROPS[prop]
    obs, cmds, vac, trusted = [], [], {}, []
    if "K" in cfg["engines"]:
        k = cfg.get("k", {})
        o, c, v, log = kengine.run_property(prop, tier, jobs=int(os.environ.get("VERIF_KJOBS", k.get("jobs", 12))), harness_timeout=int(os.environ.get("VERIF_KTIMEOUT", k.get("timeout_thorough", k.get("timeout", 600)) if tier == "thorough" else k.get("timeout", 600))))
        obs += o; cmds += c; vac["kani"] = v; trusted += kengine.TRUSTED
        os.makedirs(os.path.join(BUILD, "logs"), exist_ok=True)
        open(os.path.join(BUILD, "logs", "%s-kani.log" % prop), "w").write(log)
    if "X" in cfg["engines"]:
        import xengine
        if any(o.id == "K.build" for o in obs):
            pass
        else:
            o, c, tb = xengine.run_c05(prop, tier)
            obs += o; cmds += c; trusted += tb
    return finish(prop, tier, seed, obs, t0, cmds, trusted, cfg.get("assumptions", []),
                  vacuity=vac, not_decided=cfg.get("not_decided"))


def replay(prop, path):
    d = json.load(open(path))
    if d.get("engine") == "kani":
        return kengine.replay_file(path)
    print("no replay procedure for engine %s" % d.get("engine"))
    return 2
