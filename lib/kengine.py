"""Engine K: Kani/CBMC on the real /repo/palette crate (harness crate /verif/kani)."""
import json, os, re, time, shutil
from common import *

KDIR = os.path.join(VERIF, "kani")
NATIVE_TARGET = os.path.join(BUILD, "native")
KANI_TARGET = os.path.join(BUILD, "kani")
REPLAY_BIN = os.path.join(NATIVE_TARGET, "debug", "pv_replay")

TRUSTED = [
    "rustc MIR semantics as implemented by Kani 0.68 (kani-compiler), CBMC 6.11 bit-precise encoding incl. IEEE-754 (+,-,*,/,floor,ceil,round,min,max,abs,casts,to_bits) and its SAT back end (CaDiCaL)",
    "harness crate /verif/kani (contracts = assume/assert around calls of the public API of /repo/palette; no code of /repo is copied or modified)",
]


def prepare():
    lock = os.path.join(KDIR, "Cargo.lock")
    if not os.path.exists(lock):
        shutil.copy(os.path.join(REPO, "Cargo.lock"), lock)


def native_build():
    """Ordinary rustc build of the harness crate against /repo's working tree (replay side)."""
    prepare()
    env = env_offline(); env["CARGO_TARGET_DIR"] = NATIVE_TARGET
    with BuildLock("native"):
        rc, out, dt = run(["cargo", "build", "--offline", "--bin", "pv_replay"], cwd=KDIR, env=env, timeout=1500)
    return rc, out, dt


def table():
    rc, out, _ = run([REPLAY_BIN, "--list"])
    return [json.loads(l) for l in out.splitlines() if l.startswith("{")]


_ansi = re.compile(r"\x1b\[[0-9;]*m")


def parse_terse(out):
    """-> {harness: {'status': 'SUCCESSFUL'|'FAILED'|..., 'failed_checks': [...], 'covers': (sat,total), 'time': s}}"""
    out = _ansi.sub("", out)
    res = {}
    cur_by_thread = {}
    th = "0"
    for line in out.splitlines():
        m = re.match(r"^Thread (\d+): (.*)$", line)
        if m:
            th, body = m.group(1), m.group(2)
        else:
            body = line          # continuation lines of a block carry no thread prefix
        mm = re.match(r"Checking harness (\S+?)\.\.\.", body)
        if mm:
            cur_by_thread[th] = mm.group(1)
            res[mm.group(1)] = {"status": None, "failed_checks": [], "covers": None, "time": 0.0, "checks": None}
            continue
        h = cur_by_thread.get(th)
        if h is None:
            continue
        r = res[h]
        mm = re.match(r"\s*\*\* (\d+) of (\d+) failed", body)
        if mm: r["checks"] = (int(mm.group(1)), int(mm.group(2)))
        mm = re.match(r"\s*\*\* (\d+) of (\d+) cover properties satisfied", body)
        if mm: r["covers"] = (int(mm.group(1)), int(mm.group(2)))
        mm = re.match(r"Failed Checks: (.*)$", body)
        if mm: r["failed_checks"].append(mm.group(1).strip())
        mm = re.match(r"VERIFICATION:- (\w+)", body)
        if mm and r["status"] not in ("TIMEOUT", "OOM", "TOOLFAIL"): r["status"] = mm.group(1)
        mm = re.match(r"Verification Time: ([0-9.]+)s", body)
        if mm: r["time"] = float(mm.group(1))
        if body.startswith("CBMC failed"):
            r["status"] = "TOOLFAIL"
        if "CBMC timed out" in body:
            r["status"] = "TIMEOUT"
        if "out of memory" in body.lower() or "std::bad_alloc" in body:
            r["status"] = "OOM"
    return res


IGNORED_CHECK_PREFIXES = ("NaN on ",)   # simd_* "overflow": Kani applies its integer-overflow check to FLOAT vector adds/muls (stdarch _mm_add_ps); palette has no integer SIMD   # counted only where finiteness is the contract (asserted explicitly)


# Kani applies its integer-overflow check to FLOAT vector adds/muls (stdarch _mm_add_ps) and then assumes it away, which makes
# everything after the operation unreachable: a harness reporting it is a tool limit (undecided), never a pass and never an alarm
TOOL_LIMIT_PREFIXES = ("attempt to compute simd_",)


def relevant_failures(failed_checks):
    return [c for c in failed_checks if not c.startswith(IGNORED_CHECK_PREFIXES)]


def parse_playback(out):
    """Concrete playback blocks -> list of (check_description, [[bytes]...])"""
    out = _ansi.sub("", out)
    blocks = []
    for m in re.finditer(r"/// Check for `([^`]*)`: \"(.*?)\"\n.*?let concrete_vals: Vec<Vec<u8>> = vec!\[(.*?)\];\n\s*kani::concrete_playback_run",
                         out, re.S):
        kind, desc, body = m.group(1), m.group(2), m.group(3)
        vals = []
        for vm in re.finditer(r"vec!\[([^\]]*)\]", body):
            vals.append([int(x) for x in vm.group(1).split(",") if x.strip()])
        blocks.append((kind, desc, vals))
    return blocks


def replay_native(harness, vals, timeout=120):
    arg = ";".join(",".join(str(b) for b in v) for v in vals)
    rc, out, dt = run([REPLAY_BIN, "--run", harness, arg], timeout=timeout)
    outcome = "ERROR"
    msg = ""
    inputs = ""
    for l in out.splitlines():
        if l.startswith("INPUTS "): inputs = l[7:]
        for k in ("REPRODUCED", "NOT-REPRODUCED", "ASSUME-FAILED", "REPLAY-ERROR"):
            if l.startswith(k + " ") or l == k:
                outcome, msg = k, l[len(k):].strip()
    if rc not in (0, 10) and outcome == "ERROR":
        # abnormal termination (abort / signal) of the real code on this input is itself a failure
        outcome, msg = "REPRODUCED", "process terminated abnormally rc=%s: %s" % (rc, out[-300:])
    return {"cmd": "%s --run %s '%s'" % (REPLAY_BIN, harness, arg), "outcome": outcome, "message": msg,
            "inputs": inputs, "raw_tail": out[-800:]}


def kani_cmd(harnesses, jobs=None, playback=False, timeout_s=None, extra=()):
    cmd = ["cargo", "kani", "--target-dir", KANI_TARGET, "--exact"]
    for h in harnesses:
        cmd += ["--harness", h]
    cmd += ["-Z", "unstable-options", "-Z", "stubbing"]
    if timeout_s:
        cmd += ["--harness-timeout", "%ds" % timeout_s]
    if playback:
        cmd += ["-Z", "concrete-playback", "--concrete-playback=print"]
    else:
        cmd += ["-j", str(jobs or 8), "--output-format", "terse"]
    cmd += list(extra)
    return cmd


def run_property(prop, tier, jobs=12, harness_timeout=600, extra_args=(), select=None):
    """Returns (obs, checker_cmds, vacuity, log). Raises nothing; build failures yield one undecided Ob."""
    obs = []
    rc, out, dt = native_build()
    if rc != 0:
        o = Ob("K.build", "kani", "complete", "harness crate", "native build of the harness crate against /repo")
        o.detail = "harness crate does not compile against the current /repo tree (undecided, not a violation):\n" + out[-1500:]
        return [o], ["cargo build (failed)"], {"build": "failed"}, out
    # tier `unreached`: contracts that are stated but that CBMC does not finish; never run, listed as not decided
    ents = [e for e in table() if e["prop"] == prop and e["tier"] != "unreached"]
    if tier == "quick":
        ents = [e for e in ents if e["tier"] == "quick"]
    if select:
        ents = [e for e in ents if select(e)]
    byh = {}
    for e in ents:
        o = Ob("K." + e["id"], "kani", e["label"], e["func"], e["desc"], e["tier"])
        o.backend = "Kani 0.68 / CBMC 6.11 (CaDiCaL)"
        o.extra = {"harness": e["harness"]}
        byh[e["harness"]] = o
        obs.append(o)
    if not obs:
        return obs, [], {"harnesses": 0}, ""
    cmd = kani_cmd(list(byh.keys()), jobs=jobs, timeout_s=harness_timeout, extra=extra_args)
    total_to = harness_timeout * (len(byh) // max(1, jobs) + 2) + 900
    with BuildLock("kani"):
        rc, out, dt = run(cmd, cwd=KDIR, timeout=total_to)
    log = out
    res = parse_terse(out)
    if rc != 0 and not res:
        for o in obs:
            o.detail = "cargo kani failed before verification (compile error / tool failure):\n" + out[-1500:]
        return obs, [" ".join(cmd[:6]) + " ..."], {"kani": "failed to start"}, log
    covers_ok = 0
    need_second = []
    for h, o in byh.items():
        r = res.get(h)
        if r is None or r["status"] is None:
            o.status = UNDECIDED
            o.detail = "no verdict from Kani for this harness (timeout %ss, OOM or tool failure)" % harness_timeout
            continue
        o.time = r["time"]
        o.extra["checks"] = r["checks"][1] if r["checks"] else None
        cov = r["covers"]
        fails = relevant_failures(r["failed_checks"])
        if any(c.startswith(TOOL_LIMIT_PREFIXES) for c in r["failed_checks"]):
            o.status = UNDECIDED
            o.detail = "verifier limit (float SIMD arithmetic is not modelled; stub the primitive): " + "; ".join(r["failed_checks"])
            continue
        if r["status"] == "SUCCESSFUL" or (r["status"] == "FAILED" and not fails and r["failed_checks"]):
            # (a harness whose only failed checks are ignored NaN-class checks counts as passing)
            if cov is None or cov[0] != cov[1] or cov[1] == 0:
                o.status = UNDECIDED
                o.detail = "vacuity guard: cover properties satisfied %s" % (cov,)
            else:
                o.status = DISCHARGED
                covers_ok += 1
        elif r["status"] == "FAILED":
            o.detail = "failed checks: " + "; ".join(fails)
            need_second.append((h, o, fails))
        else:
            o.status = UNDECIDED
            o.detail = "Kani status %s" % r["status"]
    # phase 2: counterexamples for the failing harnesses, replayed natively on the real code
    # counterexample extraction re-runs a harness with concrete playback (sequential, minutes each): the cheapest failing
    # harnesses go first and at most MAX_PLAYBACK are replayed; the others are still reported as failed obligations
    need_second.sort(key=lambda t: t[1].time)
    MAX_PLAYBACK = int(os.environ.get("VERIF_MAX_PLAYBACK", "4"))
    for idx, (h, o, fails) in enumerate(need_second):
        if idx >= MAX_PLAYBACK and not all(("unwinding assertion" in f) for f in fails):
            if not any(x[1].status == FAILED and x[1].replay and not x[1].no_input for x in need_second[:idx]):
                o.status = UNDECIDED
                o.detail += " | counterexample not extracted and none of the replayed harnesses of this run reproduced natively (undecided)"
                continue
            o.status = FAILED; o.no_input = True
            o.detail += " | counterexample not extracted for this harness (%d cheaper failing obligations of this run carry replayed inputs)" % MAX_PLAYBACK
            o.replay = write_replay(prop, o, {"harness": h, "failed_checks": fails, "note": "Kani refuted this obligation; concrete playback was run only for the %d cheapest failing harnesses of this run" % MAX_PLAYBACK})
            continue
        if any("unwinding assertion" in f for f in fails) and all(("unwinding assertion" in f) for f in fails):
            o.status = UNDECIDED
            o.detail = "unwinding bound of the harness exceeded (loop runs longer than the harness allows): " + "; ".join(fails)
            continue
        cmd2 = kani_cmd([h], playback=True, timeout_s=harness_timeout, extra=extra_args)
        with BuildLock("kani"):
            rc2, out2, dt2 = run(cmd2, cwd=KDIR, timeout=harness_timeout + 600)
        blocks = parse_playback(out2)
        confirmed = None
        attempts = []
        # Kani sometimes prints no playback block for the failed assertion itself; the inputs of
        # the other blocks (covers, ignored checks) are then tried as well - a native failure of
        # the obligation on the real code is a confirmed counterexample wherever the input came from.
        primary = [b for b in blocks if not (b[0] == "cover" or b[1].startswith(IGNORED_CHECK_PREFIXES))]
        secondary = [b for b in blocks if b not in primary]
        for kind, desc, vals in primary + secondary:
            rp = replay_native(h, vals)
            rp["kani_check"] = "%s: %s" % (kind, desc)
            rp["primary"] = (kind, desc, vals) in primary
            rp["concrete_vals"] = vals
            attempts.append(rp)
            if rp["outcome"] == "REPRODUCED":
                confirmed = rp
                break
        o.status = FAILED
        if confirmed:
            o.replay = write_replay(prop, o, {
                "harness": h, "failed_checks": fails, "kani_check": confirmed["kani_check"],
                "concrete_vals": confirmed["concrete_vals"], "inputs_decoded": confirmed["inputs"],
                "native_replay": {k: confirmed[k] for k in ("cmd", "outcome", "message")},
                "replay_cmd": "./check %s --replay <this file>" % prop,
                "kani_cmd": " ".join(cmd2)})
            o.detail += " | replayed on the real code: " + confirmed["message"][:300]
        else:
            safety = [f for f in fails if "OB:" not in f and "assertion failed" not in f]
            primary_tried = [a for a in attempts if a.get("primary")]
            if primary_tried and not safety:
                # Kani refuted an assertion but the real code, run natively on Kani's own input, satisfies it:
                # evidence against the harness/model, not against palette -> undecided, never an alarm.
                o.status = UNDECIDED
                o.detail += " | Kani counterexample does NOT reproduce natively (%s) -> undecided" % (
                    "; ".join(a["outcome"] for a in primary_tried))
            else:
                o.no_input = not primary_tried
                o.replay = write_replay(prop, o, {
                    "harness": h, "failed_checks": fails, "attempts": attempts,
                    "note": "safety check of the verifier failed (undefined behaviour need not crash a native run)" if primary_tried
                            else "verifier gave no concrete input for the failed obligation",
                    "verifier_output": _ansi.sub("", out2)[-4000:], "kani_cmd": " ".join(cmd2)})
    vac = {"harnesses": len(obs), "covers_satisfied_in": covers_ok,
           "rule": "every harness carries kani::cover!() after its assumptions; a pass requires all covers SATISFIED"}
    return obs, [" ".join(cmd[:5]) + " --harness <%d harnesses> -j %d --output-format terse" % (len(byh), jobs)], vac, log


def replay_file(path):
    d = json.load(open(path))
    rc, out, dt = native_build()
    if rc != 0:
        print("replay: harness crate does not build"); return 2
    vals = d.get("concrete_vals")
    if vals is None:
        print("replay file carries no concrete input (%s)" % d.get("note", "")); return 2
    rp = replay_native(d["harness"], vals)
    print("replay %s inputs: %s" % (d["harness"], rp["inputs"]))
    print("outcome: %s %s" % (rp["outcome"], rp["message"]))
    return 1 if rp["outcome"] == "REPRODUCED" else 0
