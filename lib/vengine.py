"""Engine V: Verus on function bodies extracted mechanically, on every run, from the macro-expanded crate.

  expand   cargo +nightly rustc -p palette --lib -- -Zunpretty=expanded   (the code rustc compiles, macros resolved)
  extract  impl blocks are located by their normalised header (anchor), functions by name; the BODY TEXT IS COPIED
           VERBATIM under a contract header generated from the struct's field list (also read from the expansion)
  verify   one Verus file per colour type; every (type, function) is one obligation, discharged for ALL lengths

What the extraction drops: doc comments and attributes; every item that is not a struct named in the table or one
of the listed functions; default type parameters of the struct declarations; the `crate::` prefix of `Alpha`.
Nothing is re-typed by hand. A lost anchor or a construct Verus rejects is exit 2 (undecided), never an alarm.
Functions whose body uses a construct outside Verus' subset are declared #[verifier::external_body]: their
contract is then an ASSUMED callee contract (listed in the evidence), backed by the bounded Kani harness.
"""
import json, os, re, hashlib, time, subprocess
from concurrent.futures import ThreadPoolExecutor
from common import *

VDIR = os.path.join(BUILD, "verus")
EXPDIR = os.path.join(BUILD, "expand")

TRUSTED = [
    "Verus 0.2026.09.13 (rust_verify + its z3) and vstd's specifications of Vec::{with_capacity, push, pop, clear, len}",
    "the nightly macro expander (-Zunpretty=expanded) and the extractor lib/vengine.py: bodies are copied verbatim, contract headers are generated from the expanded struct definitions",
]

# functions whose body is outside Verus' subset: (kind, fn) -> reason. They become external_body (assumed contracts).
UNSUPPORTED = {
    ("hue", "pop"): "body is `self.0.pop().map(Hue)`: a datatype constructor used as a function value is not supported by Verus",
    ("huecolor", "with_capacity"): "body converts the hue vector with `.into()` through the user `From<T> for Hue<T>` impl, which needs vstd's from_spec machinery",
}


def expand():
    """-> (text, seconds, err). Re-expands /repo/palette from the current working tree."""
    os.makedirs(EXPDIR, exist_ok=True)
    env = env_offline(); env["CARGO_TARGET_DIR"] = os.path.join(EXPDIR, "target")
    out_path = os.path.join(EXPDIR, "palette_expanded.rs")
    t0 = time.time()
    with BuildLock("expand"):
        try:
            p = subprocess.run(["cargo", "+nightly", "rustc", "--offline", "-p", "palette", "--lib", "--features", "std", "--",
                                "-Zunpretty=expanded"], cwd=REPO, env=env, stdout=subprocess.PIPE, stderr=subprocess.PIPE,
                               timeout=1200, text=True, errors="replace")
        except subprocess.TimeoutExpired:
            return None, time.time() - t0, "macro expansion timed out"
        if p.returncode != 0 or len(p.stdout) < 100000:
            return None, time.time() - t0, "macro expansion failed:\n" + p.stderr[-1500:]
        open(out_path, "w").write(p.stdout)
    return p.stdout, time.time() - t0, None


def string_end(s, i):
    """s[i] == '"' -> index of the closing quote (raw strings r"..", r#".."# and escapes respected)"""
    n = len(s)
    k = i - 1; hashes = 0
    while k >= 0 and s[k] == "#": hashes += 1; k -= 1
    if k >= 0 and s[k] == "r" and (k == 0 or not (s[k - 1].isalnum() or s[k - 1] == "_") or s[k - 1] == "b"):
        close = '"' + "#" * hashes
        j = s.find(close, i + 1)
        return n - 1 if j < 0 else j + len(close) - 1
    j = i + 1
    while j < n and s[j] != '"':
        j += 2 if s[j] == "\\" else 1
    return min(j, n - 1)


def strip_comments(s):
    """removes // and /* */ comments (string and char literals respected); keeps everything else byte for byte"""
    out = []; i = 0; n = len(s)
    while i < n:
        c = s[i]
        if c == '"':
            j = string_end(s, i)
            out.append(s[i:j + 1]); i = j + 1
        elif c == "'" and i + 2 < n and s[i + 1] != "\\" and s[i + 2] == "'":
            out.append(s[i:i + 3]); i += 3
        elif c == "'" and i + 3 < n and s[i + 1] == "\\":
            j = s.find("'", i + 3)
            j = i if j < 0 or j > i + 12 else j
            out.append(s[i:j + 1]); i = j + 1
        elif s.startswith("//", i):
            j = s.find("\n", i)
            i = n if j < 0 else j
        elif s.startswith("/*", i):
            j = s.find("*/", i + 2)
            i = n if j < 0 else j + 2
        else:
            out.append(c); i += 1
    return "".join(out)


def match_brace(s, i, open_c="{", close_c="}"):
    """s[i] == open_c -> index of the matching close (string and char literals respected)"""
    depth = 0; n = len(s)
    while i < n:
        c = s[i]
        if c == '"':
            i = string_end(s, i)
        elif c == "'" and i + 2 < n and s[i + 1] != "\\" and s[i + 2] == "'":
            i += 2
        elif c == "'" and i + 3 < n and s[i + 1] == "\\":
            j = s.find("'", i + 3)
            if 0 <= j <= i + 12: i = j
        elif c == open_c: depth += 1
        elif c == close_c:
            depth -= 1
            if depth == 0: return i
        i += 1
    return -1


def norm(h):
    return " ".join(h.split())


class Expansion:
    def __init__(self, text):
        self.s = strip_comments(text)
        self.impls = None

    def impl_blocks(self):
        """[(normalised header, body text)] of every inherent/trait impl"""
        if self.impls is not None: return self.impls
        res = []
        for m in re.finditer(r"\bimpl\s*<", self.s):
            j = self.s.find("{", m.start())
            k = self.s.find(";", m.start())
            if j < 0 or (0 <= k < j): continue
            hdr = norm(self.s[m.start():j])
            if "$" in hdr or len(hdr) > 400: continue
            e = match_brace(self.s, j)
            if e < 0: continue
            res.append((hdr, self.s[j + 1:e]))
        self.impls = res
        return res

    def struct_def(self, name):
        """-> (generics without defaults [list], fields [(name, type)] or tuple [(idx, type)], is_tuple)"""
        m = re.search(r"\bpub struct %s\s*<([^>{(;]*)>\s*([({])" % re.escape(name), self.s)
        if not m: return None
        gens = [g.split("=")[0].strip() for g in m.group(1).split(",") if g.strip()]
        o = m.end() - 1
        if m.group(2) == "(":
            e = match_brace(self.s, o, "(", ")")
            inner = self.s[o + 1:e]
            tys = [re.sub(r"^\s*pub(\([^)]*\))?\s+", "", norm(t)) for t in split_top(inner) if t.strip()]
            return gens, [(str(i), t) for i, t in enumerate(tys)], True
        e = match_brace(self.s, o)
        inner = remove_attrs(self.s[o + 1:e])
        fields = []
        for f in split_top(inner):
            f = norm(f)
            if not f: continue
            mm = re.match(r"(?:pub(?:\([^)]*\))?\s+)?(\w+)\s*:\s*(.*)$", f)
            if not mm: return None
            fields.append((mm.group(1), mm.group(2)))
        return gens, fields, False


def remove_attrs(s):
    out = []; i = 0
    while i < len(s):
        if s[i] == "#" and s[i + 1:i + 2] == "[":
            e = match_brace(s, i + 1, "[", "]")
            i = e + 1
        else:
            out.append(s[i]); i += 1
    return "".join(out)


def split_top(s):
    parts = []; depth = 0; cur = []
    for c in s:
        if c in "<([{": depth += 1
        elif c in ">)]}": depth -= 1
        if c == "," and depth == 0:
            parts.append("".join(cur)); cur = []
        else: cur.append(c)
    parts.append("".join(cur))
    return parts


def functions(body):
    """{name: (signature text, body text incl. braces)} of the fns directly inside an impl body"""
    res = {}
    i = 0
    for m in re.finditer(r"\b(?:pub(?:\([^)]*\))?\s+)?(?:const\s+)?(?:unsafe\s+)?fn\s+(\w+)", body):
        if m.start() < i: continue
        # only top-level fns of the impl: brace depth 0 at m.start()
        j = body.find("{", m.end())
        if j < 0: continue
        e = match_brace(body, j)
        if e < 0: continue
        res.setdefault(m.group(1), (norm(body[m.start():j]), body[j:e + 1]))
        i = e + 1
    return res


# ---------------------------------------------------------------------------------------------------------------
# C18: struct-of-arrays Vec methods
# ---------------------------------------------------------------------------------------------------------------

def soa_table(ex):
    """Re-derives, from the expansion, every colour type with Vec-backed SoA methods.
    -> (colours {name: {...}}, hues {name: {...}}, problems [str])"""
    colours, hues, problems = {}, {}, []
    for hdr, body in ex.impl_blocks():
        if " for " in hdr or "alloc::vec::Vec<" not in hdr: continue
        fns = functions(body)
        if "push" not in fns or "pop" not in fns: continue
        m = re.match(r"impl<([^>]*)> (crate::Alpha<)?(\w+)<(.*)$", hdr)
        if not m:
            problems.append("unrecognised SoA impl header: " + hdr); continue
        is_alpha, name = bool(m.group(2)), m.group(3)
        sd = ex.struct_def(name)
        if sd is None:
            problems.append("struct definition of %s not found in the expansion" % name); continue
        gens, fields, is_tuple = sd
        if is_tuple:
            hues.setdefault(name, {"gens": gens, "fields": fields})["impl"] = (hdr, fns)
        else:
            c = colours.setdefault(name, {"gens": gens, "fields": fields})
            c["alpha_impl" if is_alpha else "impl"] = (hdr, fns)
    return colours, hues, problems


def seq_of(f, kind, base="self"):
    return "%s.%s%s@" % (base, f, ".0" if kind == "hue" else "")


def val_of(f, kind, base="value"):
    return "%s.%s%s" % (base, f, ".0" if kind == "hue" else "")


def classify_fields(fields, hues):
    out = []
    for n, t in fields:
        t = norm(t)
        if "PhantomData" in t: out.append((n, t, "phantom"))
        elif re.match(r"^\w+Hue<T>$", t) and t.split("<")[0] in hues: out.append((n, t, "hue"))
        elif t == "T": out.append((n, t, "comp"))
        else: return None
    return out


def hue_file(name, h):
    hdr, fns = h["impl"]
    L = ["pub struct %s<T>(pub T);" % name, hdr + " {"]
    obs = []
    contracts = {
        "with_capacity": ("(r: Self)", ["r.0@ == Seq::<T>::empty()"], []),
        "push": ("", ["final(self).0@ == old(self).0@.push(value.0)"], []),
        "pop": ("(r: Option<%s<T>>)" % name, [
            "old(self).0@.len() == 0 ==> r.is_none() && final(self).0@ == old(self).0@",
            "old(self).0@.len() > 0 ==> r.is_some() && r.unwrap().0 == old(self).0@.last() && final(self).0@ == old(self).0@.drop_last()"], []),
        "clear": ("", ["final(self).0@ == Seq::<T>::empty()"], []),
    }
    for fn, (ret, ens, req) in contracts.items():
        if fn not in fns: return None, "function %s::%s not found" % (name, fn)
        sig, body = fns[fn]
        L += emit_fn(sig, ret, req, ens, body, ("hue", fn) in UNSUPPORTED)
        obs.append((fn, ("hue", fn) in UNSUPPORTED))
    L.append("}")
    return "\n".join(L), obs


def emit_fn(sig, ret, req, ens, body, external):
    sig = sig.replace("crate::Alpha", "Alpha")
    if ret:
        sig = re.sub(r"->\s*.*$", "-> " + ret, sig)
    out = []
    if external: out.append("    #[verifier::external_body]")
    out.append("    " + sig)
    if req: out.append("        requires " + ", ".join(req) + ",")
    out.append("        ensures " + ",\n            ".join(ens) + ",")
    # an assumed (external_body) function keeps its contract only: Verus ignores the body, rustc would still type-check it
    out.append("    { unimplemented!() }" if external else "    " + body.replace("crate::Alpha", "Alpha"))
    return out


def colour_file(name, c, hues):
    """-> (verus text, [(obligation fn label, assumed?)]) or (None, problem)"""
    fl = classify_fields(c["fields"], hues)
    if fl is None: return None, "field of %s has a type the contract generator does not know: %s" % (name, c["fields"])
    comps = [(n, k) for n, t, k in fl if k != "phantom"]
    has_hue = any(k == "hue" for _, k in comps)
    L = []
    used_hues = sorted(set(t.split("<")[0] for n, t, k in fl if k == "hue"))
    obs = []
    for hn in used_hues:
        txt, o = hue_file(hn, hues[hn])
        if txt is None: return None, o
        L.append(txt)
    L.append("pub struct %s<%s> { %s }" % (name, ", ".join(c["gens"]), ", ".join("pub %s: %s" % (n, t) for n, t, k in fl)))
    L.append("pub struct Alpha<C, T> { pub color: C, pub alpha: T }")
    first = comps[0]
    def wf(base):
        return " && ".join("%s.len() == %s.len()" % (seq_of(comps[i][0], comps[i][1], base), seq_of(comps[i + 1][0], comps[i + 1][1], base))
                           for i in range(len(comps) - 1)) or "true"
    hdr, fns = c["impl"]
    L.append(hdr + " {")
    L.append("    pub open spec fn wf(&self) -> bool { %s }" % wf("self"))
    L.append("    pub open spec fn len(&self) -> nat { %s.len() }" % seq_of(first[0], first[1], "self"))
    def contracts(prefix, valbase, extra_seq=None, extra_val=None, wf_expr=lambda b: b + ".wf()"):
        cs = list(comps)
        S = lambda f, k, b: seq_of(f, k, b + prefix)
        items = [(S(f, k, "final(self)"), S(f, k, "old(self)"), val_of(f, k, valbase), val_of(f, k, "r.unwrap()" + prefix)) for f, k in cs]
        if extra_seq:
            items.append(("final(self).%s@" % extra_seq, "old(self).%s@" % extra_seq, "value." + extra_val, "r.unwrap()." + extra_val))
        lenold = items[-1][1] + ".len()"
        return {
            "push": ([wf_expr("old(self)")], [wf_expr("final(self)")] + ["%s == %s.push(%s)" % (a, b, v) for a, b, v, _ in items]),
            "pop": ([wf_expr("old(self)")], [wf_expr("final(self)"),
                    "%s == 0 ==> r.is_none() && %s" % (lenold, " && ".join("%s == %s" % (a, b) for a, b, _, _ in items)),
                    "%s > 0 ==> r.is_some() && %s && %s" % (lenold, " && ".join("%s == %s.last()" % (rv, b) for _, b, _, rv in items),
                                                            " && ".join("%s == %s.drop_last()" % (a, b) for a, b, _, _ in items))]),
            "clear": ([], [wf_expr("final(self)")] + ["%s.len() == 0" % a for a, _, _, _ in items]),
        }
    ct = contracts("", "value")
    kind = "huecolor" if has_hue else "color"
    plan = [("with_capacity", "(r: Self)", [], ["r.wf()", "r.len() == 0"]),
            ("push", "", ct["push"][0], ct["push"][1]),
            ("pop", "(r: Option<%s>)" % re.search(r"->\s*Option<(.*)>\s*$", fns["pop"][0]).group(1) if "pop" in fns and re.search(r"->\s*Option<(.*)>\s*$", fns["pop"][0]) else None, ct["pop"][0], ct["pop"][1]),
            ("clear", "", ct["clear"][0], ct["clear"][1])]
    for fn, ret, req, ens in plan:
        if fn not in fns: return None, "function %s::%s not found in the expansion" % (name, fn)
        if ret is None: return None, "unexpected signature of %s::%s: %s" % (name, fn, fns[fn][0])
        ext = (kind, fn) in UNSUPPORTED
        L += emit_fn(fns[fn][0], ret, req, ens, fns[fn][1], ext)
        obs.append(("%s<Vec<T>>::%s" % (name, fn), ext))
    L.append("}")
    if "alpha_impl" in c:
        hdr, fns = c["alpha_impl"]
        L.append(hdr.replace("crate::Alpha", "Alpha") + " {")
        awf = lambda b: "%s.color.wf() && %s.color.len() == %s.alpha@.len()" % (b, b, b)
        L.append("    pub open spec fn wf(&self) -> bool { %s }" % awf("self"))
        ct = contracts(".color", "value.color", "alpha", "alpha", awf)
        plan = [("with_capacity", "(r: Self)", [], ["r.wf()", "r.alpha@.len() == 0"]),
                ("push", "", ct["push"][0], ct["push"][1]),
                ("pop", "(r: Option<%s>)" % re.search(r"->\s*Option<(.*)>\s*$", fns["pop"][0]).group(1).replace("crate::Alpha", "Alpha") if "pop" in fns and re.search(r"->\s*Option<(.*)>\s*$", fns["pop"][0]) else None, ct["pop"][0], ct["pop"][1]),
                ("clear", "", ct["clear"][0], ct["clear"][1])]
        for fn, ret, req, ens in plan:
            if fn not in fns: return None, "function Alpha<%s>::%s not found in the expansion" % (name, fn)
            if ret is None: return None, "unexpected signature of Alpha<%s>::%s" % (name, fn)
            L += emit_fn(fns[fn][0], ret, req, ens, fns[fn][1], False)
            obs.append(("Alpha<%s<Vec<T>>, Vec<A>>::%s" % (name, fn), False))
        L.append("}")
    text = ("// GENERATED by lib/vengine.py from the macro expansion of /repo/palette - bodies verbatim, headers generated\n"
            "extern crate alloc;\nuse vstd::prelude::*;\nuse core::marker::PhantomData;\nverus! {\n" + "\n".join(L) + "\n} // verus!\nfn main() {}\n")
    return text, obs


def run_verus(path, timeout=300):
    t0 = time.time()
    try:
        p = subprocess.run(["verus", path, "--output-json", "--time"], stdout=subprocess.PIPE, stderr=subprocess.PIPE, timeout=timeout,
                           text=True, errors="replace", cwd=os.path.dirname(path), env=env_offline())
    except subprocess.TimeoutExpired:
        return None, "verus timed out after %ss" % timeout, time.time() - t0
    try:
        j = json.loads(p.stdout[p.stdout.index("{"):])
    except Exception:
        return None, "no JSON from verus: " + (p.stderr or p.stdout)[-1200:], time.time() - t0
    return j, p.stderr, time.time() - t0


def fn_results(j):
    """{'Type::fn': (success, time_s)} from Verus' per-function breakdown"""
    res = {}
    for mod in j.get("times-ms", {}).get("smt", {}).get("smt-run-module-times", []):
        for f in mod.get("function-breakdown", []):
            parts = f["function"].split("::")
            res["::".join(parts[-2:])] = (bool(f.get("success")), f.get("time-micros", 0) / 1e6)
    return res


def canary():
    """vacuity guard (iv): a file whose only obligation is assert(false) must be REJECTED by the verifier"""
    os.makedirs(VDIR, exist_ok=True)
    p = os.path.join(VDIR, "canary.rs")
    open(p, "w").write("use vstd::prelude::*;\nverus! {\nfn canary(v: &mut Vec<u8>) requires old(v)@.len() == 0 ensures final(v)@.len() == 1 { v.push(1); assert(false); }\n}\nfn main() {}\n")
    j, err, dt = run_verus(p)
    if j is None: return None, err
    vr = j.get("verification-results", {})
    return (vr.get("success") is False and vr.get("errors", 0) >= 1 and not vr.get("encountered-vir-error")), "canary errors=%s" % vr.get("errors")


def run_c18(tier):
    obs = []
    text, dt, err = expand()
    if text is None:
        o = Ob("V.expand", "verus", "unbounded", "macro expansion of /repo/palette", "cargo +nightly rustc -- -Zunpretty=expanded")
        o.detail = "the crate does not expand/compile on the current tree (undecided, not a violation): " + (err or "")
        return [o], [], {"expand": "failed"}
    ex = Expansion(text)
    colours, hues, problems = soa_table(ex)
    vac = {"expansion_lines": text.count("\n"), "expansion_s": round(dt, 1), "colour_types": sorted(colours), "hue_types": sorted(hues)}
    if problems or len(colours) < 20 or not hues:
        o = Ob("V.soa.anchors", "verus", "unbounded", "macros/struct_of_arrays.rs", "every SoA type of the expansion is located and its struct definition parsed")
        o.detail = "lost anchor (undecided): %s ; colour types found: %d" % ("; ".join(problems), len(colours))
        return [o], [], vac
    ok, msg = canary()
    if ok is not True:
        o = Ob("V.canary", "verus", "unbounded", "verifier", "assert(false) must be rejected")
        o.detail = "vacuity guard failed: %s" % msg
        return [o], [], vac
    vac["canary_rejected"] = True
    os.makedirs(VDIR, exist_ok=True)
    jobs = []
    for name in sorted(colours):
        c = colours[name]
        if "impl" not in c:
            o = Ob("V.soa.%s.anchor" % name, "verus", "unbounded", name, "inherent impl for %s<Vec<T>> located" % name)
            o.detail = "lost anchor (undecided)"; obs.append(o); continue
        txt, fobs = colour_file(name, c, hues)
        if txt is None:
            o = Ob("V.soa.%s.generate" % name, "verus", "unbounded", name, "contract header generation")
            o.detail = "generator could not handle this type (undecided): %s" % fobs; obs.append(o); continue
        path = os.path.join(VDIR, "soa_%s.rs" % name.lower())
        open(path, "w").write(txt)
        jobs.append((name, path, fobs))
    def work(job):
        name, path, fobs = job
        return job, run_verus(path)
    assumed = []
    with ThreadPoolExecutor(max_workers=14) as pool:
        for (name, path, fobs), (j, err, dt) in pool.map(work, jobs):
            used_hues = set()
            res = fn_results(j) if j else {}
            vr = (j or {}).get("verification-results", {})
            hard_error = j is None or vr.get("encountered-vir-error") or (vr.get("encountered-error") and not res)
            for label, ext in fobs:
                fn = label.rsplit("::", 1)[1]
                tyname = "Alpha" if label.startswith("Alpha<") else name
                if ext:
                    assumed.append("%s: assumed contract (external_body): %s" % (label, UNSUPPORTED.get(("huecolor", fn), "")))
                    continue
                o = Ob("V.soa.%s.%s" % (("Alpha_" + name) if tyname == "Alpha" else name, fn), "verus", "unbounded",
                       "%s [macros/struct_of_arrays.rs, expanded]" % label,
                       {"push": "requires wf; ensures wf and every component collection (hue and alpha included) is the old one with the value's component appended",
                        "pop": "requires wf; ensures wf; empty: None and nothing changes; otherwise Some(last colour) and every component collection loses exactly its last element",
                        "clear": "ensures wf and every component collection is empty",
                        "with_capacity": "ensures wf and length 0"}[fn])
                o.backend = "Verus 0.2026.09.13 (z3)"
                o.extra = {"verus_file": path}
                if hard_error:
                    o.status = UNDECIDED
                    o.detail = "Verus could not process the extracted file (unsupported construct / tool error; undecided): " + (err or "")[-600:]
                else:
                    r = res.get("%s::%s" % (tyname, fn))
                    if r is None:
                        o.status = UNDECIDED; o.detail = "no verdict for this function in Verus' output"
                    elif r[0]:
                        o.status = DISCHARGED; o.time = r[1]
                    else:
                        o.status = FAILED; o.no_input = True; o.time = r[1]
                        o.detail = "Verus rejects the contract of the extracted body (postcondition/precondition not satisfied):\n" + (err or "")[-1500:]
                obs.append(o)
            # the hue type's own methods are verified inside each file that uses them; report them once per hue type below
    # hue types: one file each
    hjobs = []
    for hn in sorted(hues):
        txt, fobs = hue_file(hn, hues[hn])
        if txt is None:
            o = Ob("V.soa.%s.generate" % hn, "verus", "unbounded", hn, "contract header generation"); o.detail = str(fobs); obs.append(o); continue
        path = os.path.join(VDIR, "soa_%s.rs" % hn.lower())
        open(path, "w").write("extern crate alloc;\nuse vstd::prelude::*;\nverus! {\n" + txt + "\n} // verus!\nfn main() {}\n")
        hjobs.append((hn, path, fobs))
    with ThreadPoolExecutor(max_workers=6) as pool:
        for (hn, path, fobs), (j, err, dt) in pool.map(lambda jb: (jb, run_verus(jb[1])), hjobs):
            res = fn_results(j) if j else {}
            vr = (j or {}).get("verification-results", {})
            hard_error = j is None or vr.get("encountered-vir-error") or (vr.get("encountered-error") and not res)
            for fn, ext in fobs:
                if ext:
                    assumed.append("%s<Vec<T>>::%s: assumed contract (external_body): %s" % (hn, fn, UNSUPPORTED[("hue", fn)])); continue
                o = Ob("V.soa.%s.%s" % (hn, fn), "verus", "unbounded", "%s<Vec<T>>::%s [hues.rs make_hues!, expanded]" % (hn, fn),
                       "the hue vector changes exactly like Vec::%s" % fn)
                o.backend = "Verus 0.2026.09.13 (z3)"; o.extra = {"verus_file": path}
                if hard_error:
                    o.status = UNDECIDED; o.detail = "Verus could not process the extracted file (undecided): " + (err or "")[-600:]
                else:
                    r = res.get("%s::%s" % (hn, fn))
                    if r is None: o.status = UNDECIDED; o.detail = "no verdict for this function"
                    elif r[0]: o.status = DISCHARGED; o.time = r[1]
                    else:
                        o.status = FAILED; o.no_input = True
                        o.detail = "Verus rejects the contract of the extracted body:\n" + (err or "")[-1500:]
                obs.append(o)
    vac["assumed_contracts"] = sorted(set(assumed))
    vac["files"] = len(jobs) + len(hjobs)
    return obs, ["cargo +nightly rustc -p palette --lib -- -Zunpretty=expanded ; verus .build/verus/soa_<type>.rs --output-json --time (%d files)" % (len(jobs) + len(hjobs))], vac


# ---------------------------------------------------------------------------------------------------------------
# C04: length / capacity arithmetic of the component-buffer casts (cast/array.rs), for ALL lengths
# ---------------------------------------------------------------------------------------------------------------
# The slice is mechanical: from the body of each function only (a) the `if <guard> { return Err(..) }` statements and
# (b) the `let length = ..` / `let capacity = ..` statements are kept, and the length (and capacity) argument of the
# raw constructor becomes the result. Everything else (the layout asserts, pointer casts, ManuallyDrop, the unsafe
# constructor call itself) is dropped - the memory side of these functions is engine K's obligation on the unsliced
# code. Token substitution: values.len() -> len, values.capacity() -> cap, T::Array::LENGTH -> n,
# core::mem::size_of::<T>() -> size_t (with size_t == n * size_item assumed, as the function's own assert guarantees).
C04_FUNCS = {
    # name: (kind, has capacity)
    "into_component_slice": ("mul", False), "into_component_slice_mut": ("mul", False),
    "try_from_component_slice": ("div", False), "try_from_component_slice_mut": ("div", False),
    "into_component_vec": ("mul", True), "try_from_component_vec": ("div", True),
    "try_from_component_slice_box": ("guard", False),
}
C04_SUBST = [(r"values\s*\.\s*len\s*\(\s*\)", "len"), (r"values\s*\.\s*capacity\s*\(\s*\)", "cap"), (r"T\s*::\s*Array\s*::\s*LENGTH", "n"),
             (r"<\s*T\s*::\s*Array\s+as\s+ArrayExt\s*>\s*::\s*LENGTH", "n"),
             (r"(?:core|std)\s*::\s*mem\s*::\s*size_of\s*::\s*<\s*T\s*>\s*\(\s*\)", "size_t"),
             (r"(?:core|std)\s*::\s*mem\s*::\s*size_of\s*::\s*<\s*T\s*::\s*Array\s*>\s*\(\s*\)", "size_t")]


def c04_slice(name, body, kind, has_cap):
    """-> (verus fn text, problem)"""
    def sub(e):
        for pat, rep in C04_SUBST: e = re.sub(pat, rep, e)
        return norm(e)
    guards = [sub(m.group(1)) for m in re.finditer(r"\bif\s+([^{}]+?)\s*\{\s*return\s+Err\s*\(", body)]
    lets = [(m.group(1), sub(m.group(2))) for m in re.finditer(r"\blet\s+(?:mut\s+)?(length|capacity)\s*=\s*([^;]+);", body)]
    ctor = re.search(r"from_raw_parts(?:_mut)?\s*\(\s*[^,]+,\s*(\w+)\s*(?:,\s*(\w+)\s*)?,?\s*\)", body)
    leftovers = " ".join(guards + [e for _, e in lets])
    if re.search(r"\bvalues\b|\bT\b|::", leftovers):
        return None, "the sliced statements of %s mention something outside the substitution table: %s" % (name, leftovers)
    L = []
    if kind == "guard":
        if not guards: return None, "no rejection guard found in %s" % name
        L.append("fn %s(len: usize, n: usize) -> (r: Result<(), ()>)\n    requires n > 0,\n    ensures r.is_err() <==> len %% n != 0,\n{" % name)
        for g in guards: L.append("    if %s { return Err(()); }" % g)
        L.append("    Ok(())\n}")
        return "\n".join(L), None
    if ctor is None or ctor.group(1) != "length" or (has_cap and ctor.group(2) != "capacity"):
        return None, "raw constructor call of %s not recognised (length%s argument)" % (name, "/capacity" if has_cap else "")
    names = [n for n, _ in lets]
    if "length" not in names or (has_cap and "capacity" not in names):
        return None, "length/capacity statement of %s not found" % name
    params = "len: usize, cap: usize, n: usize, size_t: usize, size_item: usize" if has_cap else "len: usize, n: usize, size_t: usize, size_item: usize"
    res = "(usize, usize)" if has_cap else "usize"
    common_req = ["n > 0", "size_item > 0", "size_t == n * size_item"]
    if kind == "mul":
        # an allocation never exceeds isize::MAX bytes: len * size_of::<T>() <= isize::MAX (Rust's allocation invariant)
        req = common_req + ["len * size_t <= isize::MAX"] + (["cap * size_t <= isize::MAX", "len <= cap"] if has_cap else [])
        ens = (["r.0 == len * n", "r.1 == cap * n", "r.0 * size_item == len * size_t", "r.1 * size_item == cap * size_t", "r.0 <= r.1"] if has_cap
               else ["r == len * n", "r * size_item == len * size_t"])
        L.append("fn %s(%s) -> (r: %s)\n    requires %s,\n    ensures %s,\n{" % (name, params, res, ", ".join(req), ", ".join(ens)))
        L.append("    proof { c04_mul_bounds(len as int, n as int, size_item as int); %s }" % ("c04_mul_bounds(cap as int, n as int, size_item as int); c04_mono(len as int, cap as int, n as int);" if has_cap else ""))
        for nme, e in lets: L.append("    let %s = %s;" % (nme, e))
        L.append("    proof { c04_assoc(len as int, n as int, size_item as int); %s }" % ("c04_assoc(cap as int, n as int, size_item as int);" if has_cap else ""))
        L.append("    (length, capacity)\n}" if has_cap else "    length\n}")
    else:
        if not guards: return None, "no rejection guard found in %s" % name
        req = common_req + (["len <= cap"] if has_cap else [])
        if has_cap:
            ens = ["r.is_err() <==> (len % n != 0 || cap % n != 0)", "r.is_ok() ==> r.unwrap().0 * n == len && r.unwrap().1 * n == cap && r.unwrap().0 <= r.unwrap().1",
                   "r.is_ok() ==> r.unwrap().0 * size_t == len * size_item && r.unwrap().1 * size_t == cap * size_item"]
        else:
            ens = ["r.is_err() <==> len % n != 0", "r.is_ok() ==> r.unwrap() * n == len", "r.is_ok() ==> r.unwrap() * size_t == len * size_item"]
        L.append("fn %s(%s) -> (r: Result<%s, ()>)\n    requires %s,\n    ensures %s,\n{" % (name, params, res, ", ".join(req), ",\n        ".join(ens)))
        for g in guards: L.append("    if %s { return Err(()); }" % g)
        for nme, e in lets: L.append("    let %s = %s;" % (nme, e))
        L.append("    proof { c04_div_exact(len as int, n as int, length as int, size_item as int); %s }" % ("c04_div_exact(cap as int, n as int, capacity as int, size_item as int); c04_div_mono(len as int, cap as int, n as int);" if has_cap else ""))
        L.append("    Ok((length, capacity))\n}" if has_cap else "    Ok(length)\n}")
    return "\n".join(L), None


C04_LEMMAS = """
proof fn c04_mul_bounds(a: int, n: int, s: int) requires a >= 0, n > 0, s > 0, a * (n * s) <= isize::MAX ensures 0 <= a * n <= usize::MAX
{ assert(a * (n * s) == (a * n) * s) by (nonlinear_arith); assert(a * n <= (a * n) * s) by (nonlinear_arith) requires a >= 0, n > 0, s > 0; assert(a * n >= 0) by (nonlinear_arith) requires a >= 0, n > 0; }
proof fn c04_assoc(a: int, n: int, s: int) ensures (a * n) * s == a * (n * s) { assert((a * n) * s == a * (n * s)) by (nonlinear_arith); }
proof fn c04_mono(a: int, b: int, n: int) requires 0 <= a <= b, n > 0 ensures a * n <= b * n { assert(a * n <= b * n) by (nonlinear_arith) requires 0 <= a <= b, n > 0; }
proof fn c04_div_exact(a: int, n: int, q: int, s: int) requires a >= 0, n > 0, a % n == 0, q == a / n ensures q * n == a, q * (n * s) == a * s
{ assert(a == n * (a / n) + a % n) by (nonlinear_arith) requires n > 0; assert(q * n == a) by (nonlinear_arith) requires a == n * q; assert(q * (n * s) == (q * n) * s) by (nonlinear_arith); }
proof fn c04_div_mono(a: int, b: int, n: int) requires 0 <= a <= b, n > 0 ensures a / n <= b / n
{ assert(a / n <= b / n) by (nonlinear_arith) requires 0 <= a <= b, n > 0; }
"""


def run_c04(tier):
    src_path = os.path.join(REPO, "palette/src/cast/array.rs")
    try:
        src = strip_comments(open(src_path).read())
    except Exception as ex:
        o = Ob("V.cast.source", "verus", "unbounded", "cast/array.rs", "source readable"); o.detail = "cannot read %s: %s" % (src_path, ex)
        return [o], [], {}
    os.makedirs(VDIR, exist_ok=True)
    ok, msg = canary()
    if ok is not True:
        o = Ob("V.canary", "verus", "unbounded", "verifier", "assert(false) must be rejected"); o.detail = "vacuity guard failed: %s" % msg
        return [o], [], {}
    obs, parts, labels = [], [], []
    for name, (kind, has_cap) in C04_FUNCS.items():
        o = Ob("V.cast.%s.length_arithmetic" % name, "verus", "unbounded", "cast::%s [cast/array.rs] (length/capacity slice)" % name,
               {"mul": "for all lengths (and capacities): the result length is exactly len * N, no overflow under Rust's allocation bound, and the byte sizes of the two views agree",
                "div": "for all lengths (and capacities): Err exactly when the length (or, for Vec, the capacity) is not a multiple of N; Ok length * N == len (capacity likewise) and the byte sizes of the two views agree",
                "guard": "for all lengths: Err exactly when the length is not a multiple of N"}[kind])
        o.backend = "Verus 0.2026.09.13 (z3, nonlinear_arith lemmas)"
        m = re.search(r"\bpub\s+fn\s+%s\s*<" % name, src)
        if not m:
            o.detail = "lost anchor: cast::%s not found (undecided)" % name; obs.append(o); continue
        j = src.find("{", m.end())
        # the signature may contain a where clause; the body is the first brace block after the parameter list's closing paren
        e = match_brace(src, j)
        txt, prob = c04_slice(name, src[j:e + 1], kind, has_cap)
        if txt is None:
            o.detail = "slice not applicable to the current body (undecided): %s" % prob; obs.append(o); continue
        parts.append(txt); labels.append((name, o)); obs.append(o)
    if parts:
        path = os.path.join(VDIR, "cast_lengths.rs")
        open(path, "w").write("// GENERATED by lib/vengine.py: length/capacity slices of /repo/palette/src/cast/array.rs\nuse vstd::prelude::*;\nverus! {\n"
                              + C04_LEMMAS + "\n" + "\n\n".join(parts) + "\n} // verus!\nfn main() {}\n")
        j, err, dt = run_verus(path)
        res = fn_results(j) if j else {}
        vr = (j or {}).get("verification-results", {})
        hard = j is None or vr.get("encountered-vir-error") or (vr.get("encountered-error") and not res)
        for name, o in labels:
            o.extra = {"verus_file": path}
            r = None
            for k, v in res.items():
                if k.endswith("::" + name): r = v
            if hard: o.detail = "Verus could not process the slice (undecided): " + (err or "")[-800:]
            elif r is None: o.detail = "no verdict for this function in Verus' output"
            elif r[0]: o.status = DISCHARGED; o.time = r[1]
            else:
                o.status = FAILED; o.no_input = True; o.time = r[1]
                o.detail = "Verus rejects the length contract of the sliced body:\n" + (err or "")[-1500:]
    return obs, ["verus .build/verus/cast_lengths.rs --output-json --time"], {"canary_rejected": True, "sliced_functions": [n for n, _ in labels]}
