#!/bin/sh
# Offline setup: pre-build the harness crates against /repo's current tree.
set -e
cd "$(dirname "$0")"
export CARGO_NET_OFFLINE=true
unset RUSTUP_TOOLCHAIN
mkdir -p .build evidence replays
[ -f kani/Cargo.lock ] || cp /repo/Cargo.lock kani/Cargo.lock
( cd kani && CARGO_TARGET_DIR=/verif/.build/native cargo build --offline --bin pv_replay 2>&1 | tail -3 )
( cd kani && cargo kani --target-dir /verif/.build/kani --only-codegen 2>&1 | tail -3 ) || true
if [ -d sym ]; then
  [ -f sym/Cargo.lock ] || cp /repo/Cargo.lock sym/Cargo.lock
  ( cd sym && RUSTFLAGS="--cfg palette_verif" CARGO_TARGET_DIR=/verif/.build/sym cargo build --offline --release 2>&1 | tail -3 ) || true
fi
echo setup done
