#!/usr/bin/env python3
"""seed_keep.py <src dir> <seed id, e.g. C03-a> <caught|missed> <detail>  -> /verif/seeded/<seed id>/"""
import sys, os, json, shutil, time
src, sid, verdict, detail = sys.argv[1:5]
dst = os.path.join("/verif/seeded", sid)
os.makedirs(dst, exist_ok=True)
for f in ("patch.diff", "demo.rs"):
    shutil.copy(os.path.join(src, f), os.path.join(dst, f))
m = json.load(open(os.path.join(src, "meta.json")))
m["confirmed_by_framework_author"] = {
    "ran": ["tools/seed_verify.sh: fresh worktree of /repo HEAD; demo passes on pristine, fails with patch; cargo test --workspace --no-fail-fast --offline passes with patch",
            "tools/seed_iso.sh: isolated snapshot of /verif (own build directory) + scratch worktree of /repo HEAD with the patch applied (VERIF_REPO); ./check %s --tier quick there; /repo itself untouched" % m.get("property", sid[:3])],
    "check_result": verdict, "detail": detail, "date": time.strftime("%Y-%m-%d")}
json.dump(m, open(os.path.join(dst, "meta.json"), "w"), indent=1)
print("kept", dst)
