#!/bin/bash
# usage: seed_run.sh <patch.diff> <ID> [tier]   applies the patch to /repo, runs the check, reverts.
P=$1; ID=$2; TIER=${3:-quick}
cd /repo && git diff --quiet || { echo "/repo dirty"; exit 9; }
git -C /repo apply $P || exit 3
cp ${VERIF_DIR:-/verif}/evidence/$ID.json /tmp/evidence_$ID.bak 2>/dev/null
V=${VERIF_DIR:-/verif}
cd $V && ./check $ID --tier $TIER > /tmp/seedrun_$ID.out 2>&1; RC=$?
git -C /repo checkout -- . 
cp /tmp/evidence_$ID.bak ${VERIF_DIR:-/verif}/evidence/$ID.json 2>/dev/null
grep -E "^VIOLATION|^FAILED-OBL|^\[|^UNDECIDED|^KNOWN" /tmp/seedrun_$ID.out | head -20
echo "exit=$RC"
