#!/usr/bin/env python3
"""seed_mark.py <seed id> <caught|missed> <detail> : records the outcome of re-running a strengthened check against a kept seed"""
import sys, json, time
sid, verdict, detail = sys.argv[1:4]
p = "/verif/seeded/%s/meta.json" % sid
m = json.load(open(p))
c = m.setdefault("confirmed_by_framework_author", {})
c.setdefault("history", []).append({"check_result": c.get("check_result"), "detail": c.get("detail"), "date": c.get("date")})
c["check_result"] = verdict; c["detail"] = detail; c["date"] = time.strftime("%Y-%m-%d")
json.dump(m, open(p, "w"), indent=1)
print(sid, verdict)
