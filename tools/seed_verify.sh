#!/bin/bash
# usage: seed_verify.sh <dir with patch.diff demo.rs meta.json> [extra cargo test args for demo]
# Confirms in a scratch worktree: suite passes with the patch, demo fails with it, demo passes without.
D=$1; shift
WT=/tmp/sv_$$; export CARGO_TARGET_DIR=/tmp/sv_target
git -C /repo worktree add -q --detach $WT HEAD || exit 9
trap "git -C /repo worktree remove --force $WT" EXIT
cd $WT
if ! git apply --check $D/patch.diff 2>/dev/null; then echo "PATCH-DOES-NOT-APPLY"; exit 3; fi
mkdir -p palette/tests; cp $D/demo.rs palette/tests/seed_demo.rs
export CARGO_TARGET_DIR=/tmp/sv_target
( cd palette && cargo test --offline --test seed_demo "$@" 2>&1 | grep -E "^test result|^error" ) > /tmp/sv_pristine.txt
git apply $D/patch.diff
( cd palette && cargo test --offline --test seed_demo "$@" 2>&1 | grep -E "^test result|^error" ) > /tmp/sv_patched.txt
rm -rf palette/tests/seed_demo.rs
cargo test --workspace --no-fail-fast --offline 2>&1 | grep -E "^test result|^error|FAILED" > /tmp/sv_suite.txt
echo "demo pristine: $(cat /tmp/sv_pristine.txt | tr '\n' ' ')"
echo "demo patched : $(cat /tmp/sv_patched.txt | tr '\n' ' ')"
echo "suite patched: $(grep -c 'test result: ok' /tmp/sv_suite.txt) ok, $(grep -c 'FAILED\|^error' /tmp/sv_suite.txt) failed"
if grep -q "test result: ok" /tmp/sv_pristine.txt && grep -q "FAILED\|error: test failed" /tmp/sv_patched.txt && ! grep -q "FAILED\|^error" /tmp/sv_suite.txt; then echo SEED-OK; else echo SEED-REJECT; exit 1; fi
