#!/usr/bin/env python3
"""validate.py : MANIFEST.json and every evidence file against the schemas in /root/.vp"""
import json, sys, glob
sys.path.insert(0, "/opt/veriftools/pyvenv/lib/python3.11/site-packages")
try:
    import jsonschema
except Exception as e:
    print("jsonschema missing", e); sys.exit(2)
ms = json.load(open("/root/.vp/MANIFEST.schema.json")); es = json.load(open("/root/.vp/EVIDENCE.schema.json"))
m = json.load(open("/verif/MANIFEST.json"))
bad = 0
try: jsonschema.validate(m, ms); print("MANIFEST ok")
except Exception as e: print("MANIFEST INVALID", str(e)[:300]); bad += 1
ids = [json.loads(l)["id"] for l in open("/verif/properties.jsonl")]
claimed = [c["property_id"] for c in m["checks"]]; na = [n["property_id"] for n in m.get("not_applicable", [])]
for i in ids:
    if (i in claimed) == (i in na): print("property", i, "claimed/not_applicable inconsistent"); bad += 1
for c in m["checks"]:
    try:
        e = json.load(open(c["evidence_file"])); jsonschema.validate(e, es)
        cov = e["coverage"]
        print(c["property_id"], "evidence ok", "obl=%s dis=%s bounded=%s/%s" % (cov.get("obligations"), cov.get("discharged"), cov.get("bounded_passed"), cov.get("bounded_obligations")))
    except Exception as ex:
        print(c["property_id"], "EVIDENCE INVALID", str(ex)[:200]); bad += 1
sys.exit(1 if bad else 0)
