#!/bin/bash
# usage: seed_iso.sh <slot> <seed id | patch.diff> <PROP> [tier]
# Runs ./check PROP against an ISOLATED copy: /tmp/iso_<slot>/verif (snapshot of /verif's working tree, own build dir)
# and /tmp/iso_<slot>/repo (worktree of /repo HEAD with the patch applied). /repo and /verif themselves are untouched,
# so several slots can run in parallel with ordinary work. Prints VIOLATION / FAILED-OBLIGATION / summary lines.
SLOT=$1; SEED=$2; P=$3; TIER=${4:-quick}
ISO=/tmp/iso_$SLOT
PATCH=$SEED; if [ "$SEED" != none ] && [ ! -f "$PATCH" ]; then PATCH=/verif/seeded/$SEED/patch.diff; fi
mkdir -p $ISO
if [ ! -d $ISO/repo ]; then git -C /repo worktree add -q --detach $ISO/repo HEAD || exit 9; fi
git -C $ISO/repo checkout -q --detach $(git -C /repo rev-parse HEAD); git -C $ISO/repo checkout -- . ; git -C $ISO/repo clean -fdq
mkdir -p $ISO/verif
rsync -a --delete --exclude .build --exclude .git --exclude 'kani/target' --exclude 'sym/target' --exclude replays --exclude seeded /verif/ $ISO/verif/
sed -i "s#/repo/palette#$ISO/repo/palette#" $ISO/verif/kani/Cargo.toml $ISO/verif/sym/Cargo.toml
if [ "$PATCH" != none ]; then git -C $ISO/repo apply $PATCH || exit 3; fi
cd $ISO/verif && VERIF_REPO=$ISO/repo ./check $P --tier $TIER > $ISO/out_$P.txt 2>&1; RC=$?
grep -E "^VIOLATION|^FAILED-OBL|^\[|^UNDECIDED|^KNOWN" $ISO/out_$P.txt | cut -c1-400 | head -20
echo "exit=$RC"
