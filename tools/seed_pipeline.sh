#!/bin/bash
# usage: seed_pipeline.sh <PROP> <letter> [tier]  : verify /tmp/seed_out/<PROP>/<letter>, run the check against it, keep it under seeded/
P=$1; L=$2; TIER=${3:-quick}
D=/tmp/seed_out/$P/$L
ARGS=$(python3 -c "import json;print(' '.join(json.load(open('$D/meta.json')).get('demo_cargo_args',[])))")
echo "== $P-$L verify (demo args: $ARGS)"
/verif/tools/seed_verify.sh $D $ARGS > /tmp/seedpipe_$P$L.verify 2>&1
tail -4 /tmp/seedpipe_$P$L.verify
if ! grep -q SEED-OK /tmp/seedpipe_$P$L.verify; then echo "== $P-$L REJECTED"; exit 1; fi
echo "== $P-$L check"
/verif/tools/seed_run.sh $D/patch.diff $P $TIER > /tmp/seedpipe_$P$L.run 2>&1
cat /tmp/seedpipe_$P$L.run | tail -8
if grep -q "^VIOLATION" /tmp/seedpipe_$P$L.run; then V=caught; else V=missed; fi
DET=$(grep -E "^FAILED-OBL" /tmp/seedpipe_$P$L.run | head -3 | tr '\n' ';')
python3 /verif/tools/seed_keep.py $D $P-$L $V "$V ($TIER): $DET $(grep -E '^\[' /tmp/seedpipe_$P$L.run | tail -1)"
