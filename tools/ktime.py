#!/usr/bin/env python3
"""ktime.py <timeout_s> <jobs> <harness>...  : run harnesses, print status/time table (dev helper)"""
import sys; sys.path.insert(0,'/verif/lib')
import kengine
from common import run
to=int(sys.argv[1]); jobs=int(sys.argv[2]); hs=sys.argv[3:]
cmd=kengine.kani_cmd(hs,jobs=jobs,timeout_s=to)
rc,out,dt=run(cmd,cwd=kengine.KDIR,timeout=to*len(hs)+600)
res=kengine.parse_terse(out)
for h in hs:
    r=res.get(h) or {}
    print("%-45s %-11s %7.1fs covers=%s fails=%s"%(h,r.get('status'),r.get('time',0),r.get('covers'),r.get('failed_checks')))
if not res: print(out[-3000:])
