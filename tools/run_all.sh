#!/bin/bash
# usage: run_all.sh [tier] [ids...]   runs every claimed check in sequence, prints exit code and wall time (dev helper)
TIER=${1:-quick}; shift
cd /verif
IDS="$@"
[ -z "$IDS" ] && IDS=$(python3 -c "import json;print(' '.join(c['property_id'] for c in json.load(open('MANIFEST.json'))['checks']))")
for id in $IDS; do
  s=$(date +%s)
  ./check $id --tier $TIER > /tmp/runall_$id.out 2>&1; rc=$?
  e=$(date +%s)
  echo "$id exit=$rc wall=$((e-s))s $(grep -E '^\[' /tmp/runall_$id.out | tail -1)"
  grep -E "^VIOLATION|^UNDECIDED|^KNOWN" /tmp/runall_$id.out | head -5
done
