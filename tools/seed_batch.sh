#!/bin/bash
# usage: seed_batch.sh <slot> <seed id>...   re-runs kept seeds in an isolated slot (tools/seed_iso.sh), records the outcome in meta.json
SLOT=$1; shift
for S in "$@"; do
  P=${S%%-*}; mkdir -p /tmp/iso_$SLOT
  /verif/tools/seed_iso.sh $SLOT $S $P quick > /tmp/iso_$SLOT/res_$S.txt 2>&1
  if grep -q "^VIOLATION" /tmp/iso_$SLOT/res_$S.txt; then V=caught; else V=missed; fi
  DET=$(grep -E "^FAILED-OBL" /tmp/iso_$SLOT/res_$S.txt | head -3 | cut -c1-300 | tr '\n' ';')
  python3 /verif/tools/seed_mark.py $S $V "$V (quick): $DET $(grep -E '^\[' /tmp/iso_$SLOT/res_$S.txt | tail -1)"
done
