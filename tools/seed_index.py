#!/usr/bin/env python3
"""seed_index.py : writes seeded/INDEX.md from the meta.json files"""
import json, glob, os
rows = []
for d in sorted(glob.glob("/verif/seeded/*/")):
    sid = os.path.basename(d.rstrip("/"))
    m = json.load(open(d + "meta.json"))
    c = m.get("confirmed_by_framework_author", {})
    rows.append((sid, ", ".join(m.get("files", [])), c.get("check_result", "?"), (c.get("detail") or "").replace("\n", " ").replace("|", "/")[:260], m.get("summary", "").replace("\n", " ").replace("|", "/")[:200]))
with open("/verif/seeded/INDEX.md", "w") as f:
    f.write("| seed | file(s) | result | obligation / reason | change |\n|---|---|---|---|---|\n")
    for r in rows: f.write("| %s | %s | %s | %s | %s |\n" % r)
    n = len(rows); c = sum(1 for r in rows if r[2] == "caught")
    f.write("\n%d seeded changes, %d caught, %d missed\n" % (n, c, n - c))
print(open("/verif/seeded/INDEX.md").read()[-200:])
