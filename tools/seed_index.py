#!/usr/bin/env python3
"""seed_index.py : writes seeded/INDEX.md from the meta.json files"""
import json, glob, os
rows = []
for d in sorted(glob.glob("/verif/seeded/*/")):
    sid = os.path.basename(d.rstrip("/"))
    m = json.load(open(d + "meta.json"))
    c = m.get("confirmed_by_framework_author", {})
    res = c.get("check_result", "?")
    hist = [h.get("check_result") for h in c.get("history", []) if h.get("check_result")]
    if res == "caught" and "missed" in hist: res = "caught after strengthening (missed at first)"
    rows.append((sid, ", ".join(m.get("files", [])), res, (c.get("detail") or "").replace("\n", " ").replace("|", "/")[:260], m.get("summary", "").replace("\n", " ").replace("|", "/")[:200]))
with open("/verif/seeded/INDEX.md", "w") as f:
    f.write("| seed | file(s) | result | obligation / reason | change |\n|---|---|---|---|---|\n")
    for r in rows: f.write("| %s | %s | %s | %s | %s |\n" % r)
    n = len(rows); c = sum(1 for r in rows if r[2].startswith("caught")); a = sum(1 for r in rows if "after strengthening" in r[2])
    f.write("\n%d seeded changes, %d caught (%d of them only after the check was strengthened), %d missed\n" % (n, c, a, n - c))
print(open("/verif/seeded/INDEX.md").read()[-200:])
