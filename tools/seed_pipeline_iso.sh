#!/bin/bash
# usage: seed_pipeline_iso.sh <PROP> <letter> [slot]  : verify /tmp/seed_out/<PROP>/<letter> (own worktree), run the check against it in an
# isolated slot (tools/seed_iso.sh), keep it under seeded/<PROP>-<letter>. Serialised by a lock (shared verify target dir).
P=$1; L=$2; SLOT=${3:-4}
D=/tmp/seed_out/$P/$L
exec 9>/tmp/seed_pipeline_$SLOT.lock; flock 9
ARGS=$(python3 -c "import json;print(' '.join(json.load(open('$D/meta.json')).get('demo_cargo_args',[])))")
echo "== $P-$L verify (demo args: $ARGS)"
/verif/tools/seed_verify.sh $D $ARGS > /tmp/seedpipe_$P$L.verify 2>&1
tail -4 /tmp/seedpipe_$P$L.verify
if ! grep -q SEED-OK /tmp/seedpipe_$P$L.verify; then echo "== $P-$L REJECTED"; exit 1; fi
echo "== $P-$L check"
mkdir -p /tmp/iso_$SLOT
/verif/tools/seed_iso.sh $SLOT $D/patch.diff $P quick > /tmp/seedpipe_$P$L.run 2>&1
tail -8 /tmp/seedpipe_$P$L.run | cut -c1-300
if grep -q "^VIOLATION" /tmp/seedpipe_$P$L.run; then V=caught; else V=missed; fi
DET=$(grep -E "^FAILED-OBL" /tmp/seedpipe_$P$L.run | head -3 | cut -c1-300 | tr '\n' ';')
python3 /verif/tools/seed_keep.py $D $P-$L $V "$V (quick): $DET $(grep -E '^\[' /tmp/seedpipe_$P$L.run | tail -1)"
