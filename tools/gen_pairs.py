#!/usr/bin/env python3
"""Generates sym/src/progs/pairs.rs: one contract program per ordered pair (A, B) of colour types of the XYZ
conversion group.  Contract E-comp (C01): the direct conversion A -> B equals the step-by-step conversion through
the intermediate the conversion tree prescribes (for a derived impl: the nearest colour M for which B has a
hand-written impl - exactly what palette_derive/src/convert/util.rs::find_nearest_color selects; by induction over
the path this is `direct == every step along the tree`).  Hand-written edges that are NOT tree edges (shortcuts:
Hsl<->Hsv, Luma<->Yxy, Luma<->Rgb, Rgb<->Oklab) and conversions between RGB standards get the same contract
against the route through Xyz / Rgb.  Re-run after changing the table:  python3 tools/gen_pairs.py
The skip lists are read from /repo (the `skip_derives(...)` attribute of every colour type); the tree is
palette_derive/src/color_types.rs' preferred_source table."""
import re, os, sys
REPO = "/repo"
T = {  # key: (rust type, ctor, accessors, domains, file)
 "Xyz":   ("Xyz<D65, T>", "Xyz::new({0}, {1}, {2})", ["x", "y", "z"], [(0, 0.95047), (0, 1), (0, 1.08883)], "xyz.rs"),
 "Yxy":   ("Yxy<D65, T>", "Yxy::new({0}, {1}, {2})", ["x", "y", "luma"], [(0.1, 0.6), (0.1, 0.7), (0, 1)], "yxy.rs"),
 "Lab":   ("Lab<D65, T>", "Lab::new({0}, {1}, {2})", ["l", "a", "b"], [(0, 100), (-128, 127), (-128, 127)], "lab.rs"),
 "Lch":   ("Lch<D65, T>", "Lch::new({0}, {1}, {2})", ["l", "chroma", "hue.into_raw_degrees()"], [(0, 100), (0, 128), (0, 360)], "lch.rs"),
 "Luv":   ("Luv<D65, T>", "Luv::new({0}, {1}, {2})", ["l", "u", "v"], [(0, 100), (-84, 176), (-135, 108)], "luv.rs"),
 "Lchuv": ("Lchuv<D65, T>", "Lchuv::new({0}, {1}, {2})", ["l", "chroma", "hue.into_raw_degrees()"], [(0, 100), (0, 180), (0, 360)], "lchuv.rs"),
 "Rgb":   ("Rgb<Srgb, T>", "Rgb::new({0}, {1}, {2})", ["red", "green", "blue"], [(0, 1), (0, 1), (0, 1)], "rgb/rgb.rs"),
 "Hsl":   ("Hsl<Srgb, T>", "Hsl::new({0}, {1}, {2})", ["hue.into_raw_degrees()", "saturation", "lightness"], [(0, 360), (0, 1), (0, 1)], "hsl.rs"),
 "Hsv":   ("Hsv<Srgb, T>", "Hsv::new({0}, {1}, {2})", ["hue.into_raw_degrees()", "saturation", "value"], [(0, 360), (0, 1), (0, 1)], "hsv.rs"),
 "Hwb":   ("Hwb<Srgb, T>", "Hwb::new({0}, {1}, {2})", ["hue.into_raw_degrees()", "whiteness", "blackness"], [(0, 360), (0, 1), (0, 1)], "hwb.rs"),
 "Luma":  ("Luma<Srgb, T>", "Luma::new({0})", ["luma"], [(0, 1)], "luma/luma.rs"),
 "Oklab": ("Oklab<T>", "Oklab::new({0}, {1}, {2})", ["l", "a", "b"], [(0, 1), (-0.5, 0.5), (-0.5, 0.5)], "oklab.rs"),
 "Oklch": ("Oklch<T>", "Oklch::new({0}, {1}, {2})", ["l", "chroma", "hue.into_raw_degrees()"], [(0, 1), (0, 0.5), (0, 360)], "oklch.rs"),
 "Okhsl": ("Okhsl<T>", "Okhsl::new({0}, {1}, {2})", ["hue.into_raw_degrees()", "saturation", "lightness"], [(0, 360), (0, 1), (0, 1)], "okhsl.rs"),
 "Okhsv": ("Okhsv<T>", "Okhsv::new({0}, {1}, {2})", ["hue.into_raw_degrees()", "saturation", "value"], [(0, 360), (0, 1), (0, 1)], "okhsv.rs"),
 "Okhwb": ("Okhwb<T>", "Okhwb::new({0}, {1}, {2})", ["hue.into_raw_degrees()", "whiteness", "blackness"], [(0, 360), (0, 1), (0, 1)], "okhwb.rs"),
}
PARENT = {"Rgb": "Xyz", "Luma": "Xyz", "Hsl": "Rgb", "Hsv": "Rgb", "Hwb": "Hsv", "Lab": "Xyz", "Lch": "Lab", "Lchuv": "Luv", "Luv": "Xyz",
          "Oklab": "Xyz", "Oklch": "Oklab", "Okhsl": "Oklab", "Okhsv": "Oklab", "Okhwb": "Okhsv", "Yxy": "Xyz", "Hsluv": "Lchuv", "Lms": "Xyz"}
# types whose conversions need Mask = bool / PartialOrd (scalar instantiation only) and heavy path counts
SCALAR_ONLY = {"Luv", "Lchuv", "Okhsl", "Okhsv", "Okhwb"}
HEAVY = {"Okhsl", "Okhsv", "Okhwb"}
SHORTCUTS = {("Hsl", "Hsv"): "Rgb", ("Hsv", "Hsl"): "Rgb", ("Luma", "Yxy"): "Xyz", ("Yxy", "Luma"): "Xyz",
             ("Luma", "Rgb"): "Xyz", ("Rgb", "Luma"): "Xyz", ("Rgb", "Oklab"): "Xyz", ("Oklab", "Rgb"): "Xyz"}


def skip_lists():
    out = {}
    for k, v in T.items():
        src = open(os.path.join(REPO, "palette/src", v[4])).read()
        m = re.search(r"skip_derives\(([^)]*)\)", src)
        out[k] = [x.strip() for x in m.group(1).split(",")]
    return out


def neighbours(c):
    # find_nearest_color pushes the plan-B routes (children) first, then the preferred route (parent): parent is popped first
    ch = [k for k, p in PARENT.items() if p == c]
    return ([PARENT[c]] if c in PARENT else []) + ch


def nearest(a, skip):
    # depth-first with distance pruning, as in palette_derive: the first colour found at minimal distance wins
    best = None
    stack = [(a, 0)]
    visited = {}
    while stack:
        c, d = stack.pop()
        if c in skip:
            if best is None or d < best[1]: best = (c, d)
            continue
        if c in visited and visited[c] <= d: continue
        visited[c] = d
        ns = neighbours(c)
        for n in reversed(ns[1:] if c in PARENT else ns): stack.append((n, d + 1))
        if c in PARENT: stack.append((PARENT[c], d + 1))
    return best[0] if best else None


def tolerance(b, i):
    lo, hi = T[b][3][i]
    return 1e-6 * max(1.0, hi - lo)


def main():
    skips = skip_lists()
    progs = []
    L = ["//! GENERATED by tools/gen_pairs.py - do not edit. E-comp: direct conversion == step-by-step conversion, every ordered pair.",
         "use crate::logic::*;", "use palette::convert::FromColorUnclamped;", "use palette::encoding::Srgb;", "use palette::white_point::D65;",
         "use palette::rgb::Rgb;", "use palette::luma::Luma;",
         "use palette::{Hsl, Hsv, Hwb, Lab, Lch, Lchuv, Luv, Okhsl, Okhsv, Okhwb, Oklab, Oklch, Xyz, Yxy};", ""]
    for a in T:
        for b in T:
            if a == b: continue
            if a in skips[b]:
                continue     # hand-written edge: under its own contracts (round trip, published definition) in c01.rs / c02.rs
            else:
                m = nearest(a, skips[b]); kind = "derive(FromColorUnclamped)"
                if m is None or m not in T: continue
            scalar = bool({a, b, m} & SCALAR_ONLY) or (a, b) in SHORTCUTS or m == "Luv" or "Luv" in (PARENT.get(a), PARENT.get(b))
            heavy = bool({a, b, m} & HEAVY)
            mode = "s" if scalar else "v"
            name = "pair_%s_%s" % (a.lower(), b.lower())
            progs.append(name)
            ta, tb, tm = T[a][0], T[b][0], T[m][0]
            nvar = len(T[a][3])
            L.append('program!(%s, "C01,C02", "%s", %s,' % (name, "thorough" if heavy else "quick", mode))
            L.append('    "%s: FromColorUnclamped<%s> for %s [%s], stepwise through %s",' % (kind, a, b, T[b][4], m))
            L.append('    "E-comp: %s -> %s directly == %s -> %s -> %s step by step, every component, for all colours of the nominal %s box (hues modulo 360)",' % (a, b, a, m, b, a))
            L.append("{")
            for i, (lo, hi) in enumerate(T[a][3]):
                L.append('    let v%d = T::var("%s%d", %r, %r);' % (i, a.lower(), i, float(lo), float(hi)))
            L.append("    let src: %s = %s;" % (ta, T[a][1].format(*["v%d" % i for i in range(nvar)])))
            L.append("    let direct: %s = <%s>::from_color_unclamped(src);" % (tb, tb))
            L.append("    let step: %s = <%s>::from_color_unclamped(<%s>::from_color_unclamped(src));" % (tb, tb, tm))
            for i, acc in enumerate(T[b][2]):
                label = acc.split(".")[0]
                tol = "T::tol(%r, %r)" % (tolerance(b, i), tolerance(b, i) * 1000)
                if "hue" in acc:
                    L.append('    T::ensure("direct_eq_stepwise.%s", same_or_hue_close(direct.%s, step.%s, %s));' % (label, acc, acc, tol))
                else:
                    L.append('    T::ensure("direct_eq_stepwise.%s", same_or_close(direct.%s, step.%s, %s));' % (label, acc, acc, tol))
            L.append("});")
    L.append("")
    L.append("pub fn all() -> Vec<crate::Prog> {\n    vec![%s]\n}" % ", ".join(p + "::prog()" for p in progs))
    open("/verif/sym/src/progs/pairs.rs", "w").write("\n".join(L) + "\n")
    print(len(progs), "pair programs")


main()
