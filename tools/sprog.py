#!/usr/bin/env python3
"""dev helper: sprog.py <PROP> <program name regex> [timeout]  - runs the S programs matching the regex, prints every obligation"""
import sys, os, re
sys.path.insert(0, os.path.join(os.path.dirname(os.path.abspath(__file__)), "..", "lib"))
import sengine
prop, pat = sys.argv[1], sys.argv[2]
to = int(sys.argv[3]) if len(sys.argv) > 3 else 20
obs, cmd, st = sengine.run_property(prop, "thorough", timeout=to, select=lambda m: re.search(pat, m["prog"]))
for o in obs:
    print(o.status, o.id, "%.2fs" % o.time, o.backend, (o.detail or "")[:300].replace("\n", " | "))
print(st, "discharged", sum(o.status == "discharged" for o in obs), "of", len(obs))
